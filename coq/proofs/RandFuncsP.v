(* RandFuncsP.v — proofs about theories/RandFuncs.v (property C11) *)
From Coq Require Import ZArith List Lia Bool ZifyBool.
From SFV Require Import Base RandFuncs.
Import ListNotations. Open Scope Z_scope.

Ltac splits := repeat match goal with |- _ /\ _ => split end.
(* an impossible branch: the goal itself may contain terms lia cannot read *)
Ltac contra := exfalso; lia.
Ltac disc := unfold value_error, type_error, index_error in *; discriminate.

(* ------------------------------------------------------------------ arithmetic helpers *)

Lemma div_lower a b c : 0 < c -> a * c <= b -> a <= b / c.
Proof. intros Hc H. apply Z.div_le_lower_bound; lia. Qed.

Lemma div_upper a b c : 0 < c -> b <= a * c -> b / c <= a.
Proof.
  intros Hc H. apply Z.div_le_upper_bound; lia.
Qed.

Lemma div_mul_le a c : 0 < c -> c * (a / c) <= a.
Proof. intros. apply Z.mul_div_le; lia. Qed.

(* ------------------------------------------------------------------ random_number *)

Lemma randrange_n_pos a b step :
  1 <= step ->
  randrange_n a b step =
    if 0 <? b - a then Ok ((b - a + step - 1) / step) else value_error.
Proof.
  intros Hs. unfold randrange_n.
  destruct (step =? 1) eqn:E1.
  - assert (step = 1) by lia. subst. replace (b - a + 1 - 1) with (b - a) by lia.
    rewrite Z.div_1_r. reflexivity.
  - destruct (0 <? step) eqn:E2; [|contra].
    destruct (0 <? b - a) eqn:E3.
    + assert (1 <= (b - a + step - 1) / step) by (apply div_lower; lia).
      destruct ((b - a + step - 1) / step <=? 0) eqn:E4; [contra|reflexivity].
    + assert ((b - a + step - 1) / step <= 0).
      { assert ((b - a + step - 1) / step < 1); [|lia].
        apply Z.div_lt_upper_bound; lia. }
      destruct ((b - a + step - 1) / step <=? 0) eqn:E4; [reflexivity|contra].
Qed.

Lemma number_n mn mx step :
  mn <= mx -> 1 <= step -> randrange_n mn (mx + 1) step = Ok ((mx - mn) / step + 1).
Proof.
  intros H Hs. rewrite randrange_n_pos by assumption.
  destruct (0 <? mx + 1 - mn) eqn:E; [|contra].
  f_equal. replace (mx + 1 - mn + step - 1) with ((mx - mn) + 1 * step) by lia.
  rewrite Z.div_add by lia. reflexivity.
Qed.

Lemma number_empty mn mx step :
  mx < mn -> 1 <= step -> randrange_n mn (mx + 1) step = value_error.
Proof.
  intros H Hs. rewrite randrange_n_pos by assumption.
  destruct (0 <? mx + 1 - mn) eqn:E; [contra|reflexivity].
Qed.

(* every draw lands on the lattice, inside the bounds *)
Lemma random_number_lattice mn mx step :
  mn <= mx -> 1 <= step ->
  exists n, randrange_n mn (mx + 1) step = Ok n /\ n = (mx - mn) / step + 1 /\ 1 <= n /\
    forall k, 0 <= k < n ->
      random_number mn mx step (Some k) = Ok (mn + step * k) /\
      mn <= mn + step * k <= mx /\ (mn + step * k - mn) mod step = 0.
Proof.
  intros H Hs. exists ((mx - mn) / step + 1).
  assert (Hq : 0 <= (mx - mn) / step) by (apply Z.div_pos; lia).
  splits; [apply number_n; assumption | reflexivity | lia |].
  intros k Hk. splits.
  - unfold random_number, randrange. rewrite number_n by assumption.
    cbn [bind draw_below].
    destruct ((0 <=? k) && (k <? (mx - mn) / step + 1)) eqn:E; [reflexivity|contra].
  - nia.
  - assert (step * k <= step * ((mx - mn) / step)) by nia.
    pose proof (div_mul_le (mx - mn) step ltac:(lia)). lia.
  - replace (mn + step * k - mn) with (k * step) by lia. apply Z.mod_mul. lia.
Qed.

(* every lattice point is produced by some draw: in particular both ends *)
Lemma random_number_complete mn mx step v :
  mn <= mx -> 1 <= step -> mn <= v <= mx -> (v - mn) mod step = 0 ->
  exists k, 0 <= k < (mx - mn) / step + 1 /\ random_number mn mx step (Some k) = Ok v.
Proof.
  intros H Hs Hv Hm.
  destruct (random_number_lattice mn mx step H Hs) as (n & Hn & Hnv & Hn1 & Hall).
  exists ((v - mn) / step).
  assert (Hk : 0 <= (v - mn) / step < (mx - mn) / step + 1).
  { split; [apply Z.div_pos; lia|].
    assert ((v - mn) / step <= (mx - mn) / step) by (apply Z.div_le_mono; lia). lia. }
  split; [assumption|].
  subst n. destruct (Hall _ Hk) as (Hr & _). rewrite Hr. f_equal.
  pose proof (Z.div_mod (v - mn) step ltac:(lia)). lia.
Qed.

Lemma random_number_min_attained mn mx step :
  mn <= mx -> 1 <= step ->
  exists k, 0 <= k < (mx - mn) / step + 1 /\ random_number mn mx step (Some k) = Ok mn.
Proof.
  intros H Hs. apply random_number_complete; try lia.
  replace (mn - mn) with 0 by lia. apply Z.mod_0_l. lia.
Qed.

Lemma random_number_max_attained mn mx step :
  mn <= mx -> 1 <= step ->
  exists k, 0 <= k < (mx - mn) / step + 1 /\
            random_number mn mx step (Some k) = Ok (mx - (mx - mn) mod step).
Proof.
  intros H Hs.
  pose proof (Z.mod_pos_bound (mx - mn) step ltac:(lia)) as Hb.
  pose proof (Z.div_mod (mx - mn) step ltac:(lia)) as Hd.
  assert (Hq : 0 <= (mx - mn) / step) by (apply Z.div_pos; lia).
  assert (Hm : (mx - mn) mod step <= mx - mn) by nia.
  apply random_number_complete; try lia.
  replace (mx - (mx - mn) mod step - mn) with ((mx - mn) / step * step) by lia.
  apply Z.mod_mul. lia.
Qed.

(* whatever the draw, an empty range / a zero step is an error *)
Lemma random_number_empty mn mx step d :
  mx < mn -> 1 <= step -> random_number mn mx step d = value_error.
Proof.
  intros. unfold random_number, randrange. rewrite number_empty by assumption. reflexivity.
Qed.

Lemma random_number_zero_step mn mx d : random_number mn mx 0 d = value_error.
Proof. reflexivity. Qed.

(* no result outside the lattice, for every draw (in range or not) *)
Lemma random_number_sound mn mx step d x :
  1 <= step -> random_number mn mx step d = Ok x ->
  mn <= x <= mx /\ (x - mn) mod step = 0 /\ on_lattice mn mx step x = true.
Proof.
  intros Hs Hr.
  destruct (Z_lt_le_dec mx mn) as [Hlt|Hle].
  - rewrite random_number_empty in Hr by assumption. disc.
  - destruct (random_number_lattice mn mx step Hle Hs) as (n & Hn & Hnv & Hn1 & Hall).
    unfold random_number, randrange in Hr. rewrite Hn in Hr.
    destruct d as [k|]; cbn [bind draw_below] in Hr; [|discriminate].
    destruct ((0 <=? k) && (k <? n)) eqn:E; [|discriminate].
    inversion Hr; subst x. destruct (Hall k ltac:(lia)) as (_ & Hb & Hm).
    splits; try lia; try assumption.
    unfold on_lattice. rewrite Hm. lia.
Qed.

(* the decidable predicate used for free draws is exactly "some draw produces v" *)
Lemma number_possible_iff mn mx step v :
  number_possible mn mx step v = true <-> exists k, random_number mn mx step (Some k) = Ok v.
Proof.
  unfold number_possible, random_number, randrange.
  destruct (randrange_n mn (mx + 1) step) as [n|e]; cbn [bind draw_below].
  - split.
    + intros H. exists ((v - mn) / step).
      destruct ((0 <=? (v - mn) / step) && ((v - mn) / step <? n)) eqn:E; [|contra].
      f_equal. lia.
    + intros (k & Hk).
      destruct ((0 <=? k) && (k <? n)) eqn:E; [|discriminate].
      inversion Hk as [Hv].
      destruct (Z.eq_dec step 0) as [Hz|Hz].
      * subst step. rewrite Zdiv_0_r. lia.
      * replace (mn + step * k - mn) with (k * step) by lia. rewrite Z.div_mul by assumption.
        lia.
  - split; [discriminate|]. intros (k & Hk). discriminate.
Qed.

(* ------------------------------------------------------------------ random_choice *)

Fixpoint psums (acc : Z) (zs : list Z) : list Z :=
  match zs with [] => [] | z :: r => (acc + z) :: psums (acc + z) r end.

Definition zsum (zs : list Z) : Z := fold_right Z.add 0 zs.

Lemma accumulate_some acc zs : accumulate acc (map Some zs) = Ok (psums acc zs).
Proof.
  revert acc; induction zs as [|z r IH]; intros acc; cbn [map accumulate psums]; [reflexivity|].
  rewrite IH. reflexivity.
Qed.

Lemma accumulate_ok acc ws cum :
  accumulate acc ws = Ok cum -> exists zs, ws = map Some zs /\ cum = psums acc zs.
Proof.
  revert acc cum; induction ws as [|[w|] r IH]; intros acc cum H; cbn [accumulate] in H.
  - inversion H. exists []. split; reflexivity.
  - destruct (accumulate (acc + w) r) as [t|e] eqn:E; cbn [bind] in H; [|discriminate].
    inversion H; subst cum. destruct (IH _ _ E) as (zs & -> & ->).
    exists (w :: zs). split; reflexivity.
  - disc.
Qed.

Lemma accumulate_none acc ws : In None ws -> accumulate acc ws = type_error.
Proof.
  revert acc; induction ws as [|[w|] r IH]; intros acc H; cbn [accumulate].
  - destruct H.
  - destruct H as [H|H]; [discriminate|]. rewrite IH by assumption. reflexivity.
  - reflexivity.
Qed.

Lemma psums_length acc zs : length (psums acc zs) = length zs.
Proof. revert acc; induction zs; intros; cbn [psums length]; auto. Qed.

Lemma psums_nth acc zs i :
  (i < length zs)%nat -> nth i (psums acc zs) 0 = acc + zsum (firstn (S i) zs).
Proof.
  revert acc i; induction zs as [|z r IH]; intros acc i Hi; cbn [length] in Hi; [lia|].
  destruct i as [|i].
  - cbn [psums nth firstn zsum fold_right]. destruct r; cbn [firstn fold_right]; lia.
  - cbn [psums nth]. rewrite IH by lia.
    change (firstn (S (S i)) (z :: r)) with (z :: firstn (S i) r).
    cbn [zsum fold_right]. unfold zsum. lia.
Qed.

Lemma zsum_firstn_S zs i :
  (i < length zs)%nat -> zsum (firstn (S i) zs) = zsum (firstn i zs) + nth i zs 0.
Proof.
  revert i; induction zs as [|z r IH]; intros i Hi; cbn [length] in Hi; [lia|].
  destruct i as [|i].
  - cbn [firstn zsum fold_right nth]. destruct r; cbn [firstn fold_right]; lia.
  - change (firstn (S (S i)) (z :: r)) with (z :: firstn (S i) r).
    change (firstn (S i) (z :: r)) with (z :: firstn i r).
    cbn [zsum fold_right nth]. fold (zsum (firstn (S i) r)). fold (zsum (firstn i r)).
    rewrite IH by lia. lia.
Qed.

Lemma zsum_firstn_all zs : zsum (firstn (length zs) zs) = zsum zs.
Proof. rewrite firstn_all. reflexivity. Qed.

Lemma zsum_firstn_mono zs i j :
  Forall (fun z => 0 <= z) zs -> (i <= j)%nat -> (j <= length zs)%nat ->
  zsum (firstn i zs) <= zsum (firstn j zs).
Proof.
  intros Hpos Hij Hj. induction j as [|j IH].
  - assert (i = 0)%nat by lia. subst. lia.
  - destruct (Nat.eq_dec i (S j)) as [->|Hne]; [lia|].
    rewrite zsum_firstn_S by lia.
    assert (0 <= nth j zs 0).
    { rewrite Forall_forall in Hpos. apply Hpos. apply nth_In. lia. }
    specialize (IH ltac:(lia) ltac:(lia)). lia.
Qed.

Lemma last_opt_psums acc zs :
  zs <> [] -> last_opt (psums acc zs) = Some (acc + zsum zs).
Proof.
  revert acc; induction zs as [|z r IH]; intros acc Hne; [congruence|].
  destruct r as [|z' r'].
  - cbn [psums last_opt zsum fold_right]. f_equal. lia.
  - change (psums acc (z :: z' :: r')) with ((acc + z) :: psums (acc + z) (z' :: r')).
    assert (Hl : forall (x : Z) (l : list Z), l <> [] -> last_opt (x :: l) = last_opt l).
    { intros x l Hl. destruct l; [congruence|reflexivity]. }
    rewrite Hl.
    + rewrite IH by discriminate. cbn [zsum fold_right]. f_equal. lia.
    + cbn [psums]. discriminate.
Qed.

(* the binary search finds the boundary of a monotone predicate *)
Lemma bisect_spec cum xn den (P : Z -> bool) len :
  (forall i, 0 <= i < len -> lt_at cum xn den i = Ok (P i)) ->
  (forall i j, 0 <= i <= j -> j < len -> P i = true -> P j = true) ->
  forall fuel lo hi, 0 <= lo -> lo <= hi -> hi <= len -> hi - lo < Z.of_nat fuel ->
  exists r, bisect_right fuel cum xn den lo hi = Ok r /\ lo <= r <= hi /\
            (forall i, lo <= i < r -> P i = false) /\ (forall i, r <= i < hi -> P i = true).
Proof.
  intros Hlt Hmono. induction fuel as [|f IH]; intros lo hi H0 Hlo Hhi Hf; [lia|].
  cbn [bisect_right].
  destruct (lo <? hi) eqn:E.
  - assert (Hmid : lo <= (lo + hi) / 2 < hi).
    { split; [apply div_lower; lia|apply Z.div_lt_upper_bound; lia]. }
    rewrite Hlt by lia. cbn [bind].
    destruct (P ((lo + hi) / 2)) eqn:EP.
    + destruct (IH lo ((lo + hi) / 2) ltac:(lia) ltac:(lia) ltac:(lia) ltac:(lia))
        as (r & Hr & Hb & Hl & Hh).
      exists r. splits; try assumption; try lia.
      intros i Hi. destruct (Z_lt_le_dec i ((lo + hi) / 2)).
      * apply Hh. lia.
      * apply (Hmono ((lo + hi) / 2) i); solve [lia|assumption].
    + destruct (IH ((lo + hi) / 2 + 1) hi ltac:(lia) ltac:(lia) ltac:(lia) ltac:(lia))
        as (r & Hr & Hb & Hl & Hh).
      exists r. splits; try assumption; try lia.
      intros i Hi. destruct (Z_lt_le_dec ((lo + hi) / 2) i).
      * apply Hl. lia.
      * destruct (P i) eqn:EPi; [|reflexivity].
        assert (P ((lo + hi) / 2) = true) by (apply (Hmono i); solve [lia|assumption]).
        congruence.
  - exists lo. splits; try reflexivity; try lia; intros; lia.
Qed.

(* valid weights (all present, non-negative, positive total): the pick is listed and its
   weight is positive; no error *)
Lemma weighted_choice_support zs opts num den :
  length opts = length zs -> Forall (fun z => 0 <= z) zs -> 0 < zsum zs -> 0 <= num < den ->
  exists i o w, weighted_choice (map Some zs) opts (Some num) den = Ok o /\
                nth_error opts i = Some o /\ nth_error zs i = Some w /\ 0 < w.
Proof.
  intros Hlen Hpos Htot Hnum.
  assert (Hne : zs <> []) by (intros ->; cbn in Htot; lia).
  unfold weighted_choice. rewrite accumulate_some. cbn [bind].
  rewrite last_opt_psums by assumption. rewrite Z.add_0_l.
  destruct (zsum zs <=? 0) eqn:E0; [contra|].
  cbn [draw_below].
  destruct ((0 <=? num) && (num <? den)) eqn:En; [|contra].
  rewrite psums_length.
  set (cum := psums 0 zs). set (n := length zs).
  assert (Hn : (0 < n)%nat) by (subst n; destruct zs; [congruence|cbn; lia]).
  set (P := fun i : Z => num * zsum zs <? nth (Z.to_nat i) cum 0 * den).
  assert (Hcum : forall i, (i < n)%nat -> nth i cum 0 = zsum (firstn (S i) zs)).
  { intros i Hi. subst cum. rewrite psums_nth by assumption. lia. }
  destruct (bisect_spec cum (num * zsum zs) den P (Z.of_nat n)) with
      (fuel := S n) (lo := 0) (hi := Z.of_nat n - 1) as (r & Hr & Hb & Hl & Hh); try lia.
  { intros i Hi. unfold lt_at.
    rewrite (nth_error_nth' cum 0) by (subst cum; rewrite psums_length; fold n; lia).
    reflexivity. }
  { intros i j Hij Hj HPi. unfold P in *.
    assert (nth (Z.to_nat i) cum 0 <= nth (Z.to_nat j) cum 0).
    { rewrite !Hcum by lia. apply zsum_firstn_mono; try assumption; subst n; lia. }
    apply Z.ltb_lt in HPi. apply Z.ltb_lt. nia. }
  rewrite Hr. cbn [bind].
  assert (Hri : (Z.to_nat r < n)%nat) by lia.
  destruct (nth_error opts (Z.to_nat r)) as [o|] eqn:Eo.
  2: { apply nth_error_None in Eo. exfalso. subst n. lia. }
  exists (Z.to_nat r), o, (nth (Z.to_nat r) zs 0).
  splits; [reflexivity|assumption|apply nth_error_nth'; assumption|].
  (* upper side: X < cum[r] * den *)
  assert (Hup : num * zsum zs < zsum (firstn (S (Z.to_nat r)) zs) * den).
  { destruct (Z.eq_dec r (Z.of_nat n - 1)) as [Heq|Hneq].
    - replace (S (Z.to_nat r)) with n by lia. subst n. rewrite zsum_firstn_all. nia.
    - specialize (Hh r ltac:(lia)). unfold P in Hh. rewrite Hcum in Hh by lia.
      apply Z.ltb_lt in Hh. assumption. }
  (* lower side: cum[r-1] * den <= X *)
  assert (Hlow : zsum (firstn (Z.to_nat r) zs) * den <= num * zsum zs).
  { destruct (Z.eq_dec r 0) as [->|Hr0].
    - cbn [Z.to_nat firstn zsum fold_right]. nia.
    - specialize (Hl (r - 1) ltac:(lia)). unfold P in Hl. rewrite Hcum in Hl by lia.
      replace (S (Z.to_nat (r - 1))) with (Z.to_nat r) in Hl by lia.
      apply Z.ltb_ge in Hl. assumption. }
  rewrite zsum_firstn_S in Hup by assumption. nia.
Qed.

(* all the weight on one option: that option, always *)
Lemma weighted_choice_single zs opts num den i0 :
  length opts = length zs -> Forall (fun z => 0 <= z) zs -> 0 < zsum zs -> 0 <= num < den ->
  (forall j w, nth_error zs j = Some w -> 0 < w -> j = i0) ->
  exists o, weighted_choice (map Some zs) opts (Some num) den = Ok o /\ nth_error opts i0 = Some o.
Proof.
  intros Hlen Hpos Htot Hnum Huniq.
  destruct (weighted_choice_support zs opts num den Hlen Hpos Htot Hnum)
    as (i & o & w & Hr & Ho & Hw & Hw0).
  exists o. split; [assumption|]. rewrite <- (Huniq i w Hw Hw0). assumption.
Qed.

(* a missing weight is an error for every draw *)
Lemma weighted_choice_none ws opts d den :
  In None ws -> weighted_choice ws opts d den = type_error.
Proof. intros H. unfold weighted_choice. rewrite accumulate_none by assumption. reflexivity. Qed.

(* no positive total: error for every draw *)
Lemma weighted_choice_no_mass zs opts d den :
  zsum zs <= 0 -> exists e, weighted_choice (map Some zs) opts d den = Err e.
Proof.
  intros H. unfold weighted_choice. rewrite accumulate_some. cbn [bind].
  destruct zs as [|z r].
  - cbn [psums last_opt]. eexists; reflexivity.
  - rewrite last_opt_psums by discriminate. rewrite Z.add_0_l.
    destruct (zsum (z :: r) <=? 0) eqn:E; [eexists; reflexivity|contra].
Qed.

Lemma listed_positive_intro ws opts v i w :
  nth_error ws i = Some (Some w) -> 0 < w -> nth_error opts i = Some v ->
  listed_positive ws opts v = true.
Proof.
  revert ws opts; induction i as [|i IH]; intros ws opts Hw Hpos Ho;
    destruct ws as [|w0 ws]; destruct opts as [|o opts]; cbn [nth_error] in *; try discriminate.
  - inversion Hw; inversion Ho; subst. cbn [listed_positive].
    apply orb_true_iff. left. apply andb_true_iff. split; lia.
  - cbn [listed_positive]. destruct w0 as [w0|]; [|eauto].
    apply orb_true_iff. right. eauto.
Qed.

Lemma listed_positive_elim ws opts v :
  listed_positive ws opts v = true ->
  exists i w, nth_error ws i = Some (Some w) /\ 0 < w /\ nth_error opts i = Some v.
Proof.
  revert opts; induction ws as [|w0 ws IH]; intros opts H; [cbn in H; discriminate|].
  destruct opts as [|o opts]; [destruct w0; cbn in H; discriminate|].
  cbn [listed_positive] in H. destruct w0 as [w0|].
  - apply orb_true_iff in H. destruct H as [H|H].
    + apply andb_true_iff in H. destruct H as [H1 H2].
      exists 0%nat, w0. cbn [nth_error]. splits; try reflexivity; [lia|f_equal; lia].
    + destruct (IH _ H) as (i & w & ? & ? & ?). exists (S i), w. cbn [nth_error]. auto.
  - destruct (IH _ H) as (i & w & ? & ? & ?). exists (S i), w. cbn [nth_error]. auto.
Qed.

(* --- the three argument shapes of random_choice --- *)

(* plain list: the draw indexes the list; every option is reachable *)
Lemma random_choice_list opts :
  opts <> [] ->
  (forall k, 0 <= k < Z.of_nat (length opts) ->
     exists o, random_choice (RCList opts) (Some k) 0 = Ok o /\ nth_error opts (Z.to_nat k) = Some o
               /\ In o opts) /\
  (forall o, In o opts -> exists k, 0 <= k < Z.of_nat (length opts) /\
                                    forall den, random_choice (RCList opts) (Some k) den = Ok o).
Proof.
  intros Hne. split.
  - intros k Hk. destruct opts as [|o0 r]; [congruence|].
    cbn [random_choice draw_below].
    destruct ((0 <=? k) && (k <? Z.of_nat (length (o0 :: r)))) eqn:E; [|contra].
    destruct (nth_error (o0 :: r) (Z.to_nat k)) as [o|] eqn:Eo.
    + exists o. splits; try reflexivity. eapply nth_error_In; eassumption.
    + apply nth_error_None in Eo. contra.
  - intros o Hin. apply In_nth_error in Hin. destruct Hin as (i & Hi).
    assert (Hlt : (i < length opts)%nat) by (apply nth_error_Some; congruence).
    exists (Z.of_nat i). split; [lia|]. intros den.
    destruct opts as [|o0 r]; [congruence|].
    cbn [random_choice draw_below].
    destruct ((0 <=? Z.of_nat i) && (Z.of_nat i <? Z.of_nat (length (o0 :: r)))) eqn:E; [|contra].
    rewrite Nat2Z.id. rewrite Hi. reflexivity.
Qed.

Lemma random_choice_empty d den : random_choice (RCList []) d den = value_error.
Proof. reflexivity. Qed.

Lemma random_choice_weighted_eq a :
  match a with RCList _ => False | RCChoices items => items <> [] | RCDict items => items <> [] end ->
  forall d den, random_choice a d den = weighted_choice (rc_weights a) (rc_options a) d den.
Proof.
  intros H d den. destruct a as [opts|items|items]; [destruct H| |];
    destruct items; try congruence; reflexivity.
Qed.

Lemma rc_lengths a : length (rc_options a) = length (rc_weights a).
Proof. destruct a; cbn [rc_options rc_weights]; rewrite ?map_length; reflexivity. Qed.

(* weighted shapes with valid weights *)
Lemma random_choice_support a zs num den :
  match a with RCList _ => False | _ => True end ->
  rc_weights a = map Some zs -> Forall (fun z => 0 <= z) zs -> 0 < zsum zs -> 0 <= num < den ->
  exists i o w, random_choice a (Some num) den = Ok o /\
                nth_error (rc_options a) i = Some o /\ nth_error zs i = Some w /\ 0 < w.
Proof.
  intros Hshape Hws Hpos Htot Hnum.
  assert (Hne : zs <> []) by (intros ->; cbn in Htot; lia).
  rewrite random_choice_weighted_eq.
  - rewrite Hws. apply weighted_choice_support; try assumption.
    rewrite rc_lengths, Hws, map_length. reflexivity.
  - destruct a as [opts|items|items]; [destruct Hshape| |]; intros ->;
      (destruct zs; cbn in Hws; [congruence|discriminate]).
Qed.

Lemma random_choice_single a zs num den i0 :
  match a with RCList _ => False | _ => True end ->
  rc_weights a = map Some zs -> Forall (fun z => 0 <= z) zs -> 0 < zsum zs -> 0 <= num < den ->
  (forall j w, nth_error zs j = Some w -> 0 < w -> j = i0) ->
  exists o, random_choice a (Some num) den = Ok o /\ nth_error (rc_options a) i0 = Some o.
Proof.
  intros Hshape Hws Hpos Htot Hnum Huniq.
  destruct (random_choice_support a zs num den Hshape Hws Hpos Htot Hnum)
    as (i & o & w & Hr & Ho & Hw & Hw0).
  exists o. split; [assumption|]. rewrite <- (Huniq i w Hw Hw0). assumption.
Qed.

(* with valid weights a pick is always one the `possible` predicate accepts, i.e. listed with a
   positive weight: an option whose weight is 0 at every position is never returned *)
Lemma random_choice_possible a zs num den o :
  match a with RCList _ => False | _ => True end ->
  rc_weights a = map Some zs -> Forall (fun z => 0 <= z) zs -> 0 < zsum zs -> 0 <= num < den ->
  random_choice a (Some num) den = Ok o -> choice_possible a o = true.
Proof.
  intros Hshape Hws Hpos Htot Hnum Hr.
  destruct (random_choice_support a zs num den Hshape Hws Hpos Htot Hnum)
    as (i & o' & w & Hr' & Ho & Hw & Hw0).
  rewrite Hr in Hr'. inversion Hr'; subst o'.
  unfold choice_possible. eapply listed_positive_intro; try eassumption.
  rewrite Hws. rewrite nth_error_map. rewrite Hw. reflexivity.
Qed.

(* the dict form spelled out: the returned key carries a positive weight *)
Lemma random_choice_dict items num den :
  Forall (fun it => 0 <= snd it) items -> 0 < zsum (map snd items) -> 0 <= num < den ->
  exists o w, random_choice (RCDict items) (Some num) den = Ok o /\ In (o, w) items /\ 0 < w.
Proof.
  intros Hpos Htot Hnum.
  destruct (random_choice_support (RCDict items) (map snd items) num den) as
      (i & o & w & Hr & Ho & Hw & Hw0); try assumption; try exact I.
  - cbn [rc_weights]. rewrite map_map. reflexivity.
  - rewrite Forall_map. assumption.
  - exists o, w. splits; try assumption.
    cbn [rc_options] in Ho. rewrite nth_error_map in Ho, Hw.
    destruct (nth_error items i) as [[o' w']|] eqn:Ei; cbn in Ho, Hw; try discriminate.
    inversion Ho; inversion Hw; subst. eapply nth_error_In; eassumption.
Qed.

(* the choice-item form: probabilities present, >= 0, not all 0: an item with probability 0 is
   never picked (and is no error) *)
Lemma random_choice_choices items num den :
  Forall (fun it => exists p, fst it = Some p /\ 0 <= p) items ->
  0 < zsum (map (fun it => match fst it with Some p => p | None => 0 end) items) ->
  0 <= num < den ->
  exists o p, random_choice (RCChoices items) (Some num) den = Ok o /\ In (Some p, o) items /\ 0 < p.
Proof.
  intros Hall Htot Hnum.
  set (zs := map (fun it => match fst it with Some p => p | None => 0 end) items) in *.
  assert (Hws : rc_weights (RCChoices items) = map Some zs).
  { cbn [rc_weights]. subst zs. rewrite map_map. apply map_ext_in.
    intros it Hin. rewrite Forall_forall in Hall. destruct (Hall it Hin) as (p & Hp & Hp0).
    rewrite Hp. reflexivity. }
  assert (Hpos : Forall (fun z => 0 <= z) zs).
  { subst zs. rewrite Forall_map. rewrite Forall_forall in *. intros it Hin.
    destruct (Hall it Hin) as (p & -> & Hp0). assumption. }
  destruct (random_choice_support (RCChoices items) zs num den I Hws Hpos Htot Hnum)
    as (i & o & w & Hr & Ho & Hw & Hw0).
  cbn [rc_options] in Ho. subst zs. rewrite nth_error_map in Ho, Hw.
  destruct (nth_error items i) as [[p' o']|] eqn:Ei; cbn in Ho, Hw; try discriminate.
  rewrite Forall_forall in Hall.
  destruct (Hall (p', o') ltac:(eapply nth_error_In; eassumption)) as (p & Hp & Hp0).
  cbn in Hp. subst p'. inversion Ho; subst o'. inversion Hw; subst w.
  exists o, p. splits; try assumption. eapply nth_error_In; eassumption.
Qed.

(* a missing probability is still an error for every draw *)
Lemma random_choice_missing_probability items d den :
  In None (map fst items) -> random_choice (RCChoices items) d den = type_error.
Proof.
  intros H. destruct items as [|it r]; [destruct H|].
  cbn [random_choice]. apply weighted_choice_none.
  apply in_map_iff in H. destruct H as (x & Hx & Hin).
  apply in_map_iff. exists x. split; [|assumption]. rewrite Hx. reflexivity.
Qed.

(* ------------------------------------------------------------------ rounding *)

(* round-half-even stays between the integer bounds of its argument *)
Lemma rhe_between L H num den :
  0 < den -> L * den <= num <= H * den -> L <= rhe num den <= H.
Proof.
  intros Hd [Hl Hh]. unfold rhe.
  pose proof (Z.div_mod num den ltac:(lia)) as Hdm.
  pose proof (Z.mod_pos_bound num den Hd) as Hmb.
  assert (HL : L <= num / den) by (apply div_lower; assumption).
  assert (HH : num / den <= H) by (apply div_upper; assumption).
  assert (HH1 : num mod den <> 0 -> num / den + 1 <= H).
  { intros Hnz. assert (num / den < H); [|lia].
    apply Z.div_lt_upper_bound; [lia|].
    destruct (Z.eq_dec num (H * den)) as [Heq|Hneq]; [|lia].
    exfalso. apply Hnz. rewrite Heq. apply Z.mod_mul. lia. }
  destruct (2 * (num mod den) <? den) eqn:E1; [lia|].
  destruct (den <? 2 * (num mod den)) eqn:E2.
  - assert (num mod den <> 0) by lia. specialize (HH1 ltac:(assumption)). lia.
  - destruct (Z.even (num / den)); [lia|].
    assert (num mod den <> 0) by lia. specialize (HH1 ltac:(assumption)). lia.
Qed.

Lemma quot_between L H num den :
  0 < den -> L * den <= num <= H * den -> L <= Z.quot num den <= H.
Proof.
  intros Hd [Hl Hh].
  pose proof (Z.quot_rem' num den) as Hq.
  destruct (Z_le_gt_dec 0 num) as [Hpos|Hneg].
  - pose proof (Z.rem_bound_pos_pos num den Hd Hpos). nia.
  - pose proof (Z.rem_bound_pos_neg num den Hd ltac:(lia)). nia.
Qed.

(* ------------------------------------------------------------------ date_between *)

Lemma day_of_us_between ds de us :
  ds * DAYUS <= us <= de * DAYUS -> ds <= us / DAYUS <= de.
Proof.
  intros [H1 H2]. unfold DAYUS in *. split; [apply div_lower|apply div_upper]; lia.
Qed.

(* Faker's draw, as transcribed, stays inside the closed interval of days *)
Lemma faker_day_of_between ds de num den :
  ds <= de -> 0 <= num < den ->
  ds <= faker_day_of (ds * DAY) (de * DAY) num den <= de.
Proof.
  intros Hle Hnum. unfold faker_day_of.
  set (tn := ds * DAY * den + (de * DAY - ds * DAY) * num).
  assert (Htn : ds * DAY * den <= tn <= de * DAY * den).
  { subst tn. unfold DAY. nia. }
  destruct (0 <=? tn) eqn:E.
  - apply day_of_us_between.
    assert (ds * DAY * US <= rhe (tn * US) den <= de * DAY * US).
    { apply rhe_between; [lia|]. unfold US. nia. }
    unfold DAYUS, DAY, US in *. lia.
  - assert (ds * DAY <= Z.quot tn den <= de * DAY) by (apply quot_between; lia).
    unfold DAY in *. split; [apply div_lower|apply div_upper]; lia.
Qed.

Lemma date_between_bounds c s e ds de num den :
  resolve_date c s = Ok ds -> resolve_date c e = Ok de -> 0 <= num < den ->
  (ds <= de -> exists v, date_between c s e (Some num) den = Ok (Some v) /\ ds <= v <= de) /\
  (de < ds -> forall d, date_between c s e d den = Ok None).
Proof.
  intros Hs He Hnum. unfold date_between. rewrite Hs, He. cbn [bind]. split.
  - intros Hle. destruct (de <? ds) eqn:E; [contra|].
    cbn [draw_below]. destruct ((0 <=? num) && (num <? den)) eqn:En; [|contra].
    eexists. split; [reflexivity|]. apply faker_day_of_between; assumption.
  - intros Hlt d. destruct (de <? ds) eqn:E; [reflexivity|contra].
Qed.

(* any draw at all inside the closed interval of timestamps Faker is given (floats included) *)
Lemma date_any_draw_between ds de ts_us :
  ds * DAYUS <= ts_us <= de * DAYUS -> ds <= ts_us / DAYUS <= de.
Proof. apply day_of_us_between. Qed.

(* what each bound denotes: the day as written, today, or today + whole days of the offset *)
Lemma resolve_date_meaning c :
  (forall d, resolve_date c (SDate d) = Ok d) /\
  (forall w o, resolve_date c (SStamp (mkStamp w o)) = Ok (w / DAYUS)) /\
  resolve_date c SToday = Ok (today c) /\ resolve_date c SNow = Ok (today c) /\
  (forall y mo w d h mi s,
      resolve_date c (SRel y mo w d h mi s) = Ok (today c + rel_seconds y mo w d h mi s / DAY)).
Proof. splits; reflexivity. Qed.

Lemma date_between_possible c s e num den v :
  0 <= num < den -> run_fn (FDate c s e) (Some num) den = Ok v -> possible (FDate c s e) v = true.
Proof.
  intros Hnum Hr. cbn [run_fn] in Hr. cbn [possible].
  destruct (date_between c s e (Some num) den) as [r|] eqn:Edb; cbn [bind] in Hr; [|discriminate].
  inversion Hr; subst v; clear Hr.
  unfold date_between in Edb.
  destruct (resolve_date c s) as [ds|] eqn:Es; cbn [bind] in Edb; [|discriminate].
  destruct (resolve_date c e) as [de|] eqn:Ee; cbn [bind] in Edb; [|discriminate].
  destruct (de <? ds) eqn:E.
  - inversion Edb; subst r. reflexivity.
  - cbn [draw_below] in Edb. destruct ((0 <=? num) && (num <? den)); [|discriminate].
    inversion Edb; subst r.
    pose proof (faker_day_of_between ds de num den ltac:(lia) Hnum). lia.
Qed.

(* ------------------------------------------------------------------ datetime_between *)

Lemma floor_sec_bounds us : floor_sec us * US <= us < floor_sec us * US + US.
Proof.
  unfold floor_sec, US.
  pose proof (Z.div_mod us 1000000 ltac:(lia)). pose proof (Z.mod_pos_bound us 1000000 ltac:(lia)).
  lia.
Qed.

Lemma faker_dt_between_coded a b num den :
  a <= b -> 0 <= num < den ->
  a * US <= faker_dt_between a b num den <= Z.max b (a + 1) * US.
Proof.
  intros Hab Hnum. unfold faker_dt_between.
  destruct (b - a <=? 1) eqn:E.
  - assert (a * US <= rhe ((a * den + num) * US) den <= (a + 1) * US).
    { apply rhe_between; [lia|]. unfold US. nia. }
    unfold US in *. lia.
  - assert (a * US <= rhe ((a * den + (b - a) * num) * US) den <= b * US).
    { apply rhe_between; [lia|]. unfold US. nia. }
    unfold US in *. lia.
Qed.

(* when the end lies in a later whole second than the start, the result never passes b *)
Lemma faker_dt_between_closed a b num den :
  a < b -> 0 <= num < den -> a * US <= faker_dt_between a b num den <= b * US.
Proof.
  intros Hab Hnum. pose proof (faker_dt_between_coded a b num den ltac:(lia) Hnum).
  replace (Z.max b (a + 1)) with b in * by lia. assumption.
Qed.

Lemma parse_off_some c sp ps : parse_datetimespec c sp = Ok ps -> exists o, off ps = Some o.
Proof.
  destruct sp as [| |[w [o|]]|d|y mo w d h mi x| |]; cbn [parse_datetimespec off]; intros H;
    inversion H; subst; cbn [off]; eauto.
Qed.

(* normalisation keeps the instant the user wrote, for every specification *)
Lemma datetime_fn_instant c sp ps :
  parse_datetimespec c sp = Ok ps ->
  exists s', datetime_fn c sp = Ok s' /\ instant s' = instant ps /\ off s' = Some 0.
Proof.
  intros H. destruct (parse_off_some c sp ps H) as (o & Ho).
  unfold datetime_fn. rewrite H. cbn [bind]. rewrite Ho.
  eexists. splits; [reflexivity| |reflexivity].
  unfold instant at 1. cbn [wall off]. lia.
Qed.

(* min(max(rc, lo), hi) lies in [lo, hi] whatever Faker returned *)
Lemma clamp_between rc lo hi tz :
  lo <= hi -> lo <= fst (clamp rc lo hi tz) <= hi /\
              (snd (clamp rc lo hi tz) = tz \/ snd (clamp rc lo hi tz) = bound_zone tz).
Proof.
  intros H. unfold clamp.
  destruct (rc <? lo) eqn:E1.
  - destruct (hi <? lo) eqn:E2; [contra|]. cbn [fst snd]. split; [lia|auto].
  - destruct (hi <? rc) eqn:E2; cbn [fst snd]; split; try lia; auto.
Qed.

(* the value is Faker's own whenever that already lies inside the bounds *)
Lemma clamp_id rc lo hi tz : lo <= rc <= hi -> clamp rc lo hi tz = (rc, tz).
Proof.
  intros H. unfold clamp. destruct (rc <? lo) eqn:E1; [contra|].
  destruct (hi <? rc) eqn:E2; [contra|reflexivity].
Qed.

(* THE PROPERTY for datetime_between: every pair of bounds (offsets, fractional seconds, equal),
   every draw, every presentation zone incl. timezone: False: start <= v <= end as the instants
   the user wrote; reversed bounds are a DataGenError *)
Lemma datetime_between_bounds cs ce s e tz num den ps pe :
  parse_datetimespec cs s = Ok ps -> parse_datetimespec ce e = Ok pe -> 0 <= num < den ->
  (instant pe < instant ps ->
     forall d, exists m, datetime_between cs ce s e tz d den = Err (DGE m)) /\
  (instant ps <= instant pe ->
     exists v o, datetime_between cs ce s e tz (Some num) den = Ok (v, o) /\
                 instant ps <= v <= instant pe /\ (o = tz \/ o = bound_zone tz)).
Proof.
  intros Hs He Hnum.
  destruct (datetime_fn_instant cs s ps Hs) as (s' & Hds & His & _).
  destruct (datetime_fn_instant ce e pe He) as (e' & Hde & Hie & _).
  unfold datetime_between. rewrite Hds, Hde. cbn [bind]. rewrite His, Hie. split.
  - intros Hlt d. destruct (instant pe <? instant ps) eqn:E; [|contra]. eexists; reflexivity.
  - intros Hle. destruct (instant pe <? instant ps) eqn:E; [contra|].
    cbn [draw_below]. destruct ((0 <=? num) && (num <? den)) eqn:En; [|contra].
    set (rc := faker_dt_between _ _ _ _).
    destruct (clamp_between rc (instant ps) (instant pe) tz Hle) as (Hb & Ho).
    exists (fst (clamp rc (instant ps) (instant pe) tz)),
           (snd (clamp rc (instant ps) (instant pe) tz)).
    splits; try lia; try assumption.
    rewrite <- surjective_pairing. reflexivity.
Qed.

(* on whole-second starts with the end in a later second the clamp is the identity: the value is
   the one Faker drew *)
Lemma datetime_between_unclamped cs ce s e tz num den ps pe :
  parse_datetimespec cs s = Ok ps -> parse_datetimespec ce e = Ok pe -> 0 <= num < den ->
  instant ps mod US = 0 -> floor_sec (instant ps) < floor_sec (instant pe) ->
  datetime_between cs ce s e tz (Some num) den =
    Ok (faker_dt_between (floor_sec (instant ps)) (floor_sec (instant pe)) num den, tz).
Proof.
  intros Hs He Hnum Hwhole Hlater.
  destruct (datetime_fn_instant cs s ps Hs) as (s' & Hds & His & _).
  destruct (datetime_fn_instant ce e pe He) as (e' & Hde & Hie & _).
  unfold datetime_between. rewrite Hds, Hde. cbn [bind]. rewrite His, Hie.
  pose proof (floor_sec_bounds (instant ps)) as Hbs.
  pose proof (floor_sec_bounds (instant pe)) as Hbe.
  assert (Hstart : floor_sec (instant ps) * US = instant ps).
  { unfold floor_sec, US in *. pose proof (Z.div_mod (instant ps) 1000000 ltac:(lia)). lia. }
  destruct (instant pe <? instant ps) eqn:E.
  { exfalso. apply Z.ltb_lt in E. unfold US in *. lia. }
  cbn [draw_below]. destruct ((0 <=? num) && (num <? den)) eqn:En; [|contra].
  pose proof (faker_dt_between_closed _ _ num den Hlater Hnum).
  rewrite clamp_id; [reflexivity|]. unfold US in *. lia.
Qed.

Lemma datetime_between_possible cs ce s e tz num den v :
  0 <= num < den -> run_fn (FDateTime cs ce s e tz) (Some num) den = Ok v ->
  possible (FDateTime cs ce s e tz) v = true.
Proof.
  intros Hnum Hr. cbn [run_fn] in Hr.
  destruct (datetime_between cs ce s e tz (Some num) den) as [[us o]|] eqn:Edb; cbn [bind] in Hr;
    [|discriminate].
  inversion Hr; subst v; clear Hr. cbn [possible].
  unfold datetime_between in Edb.
  destruct (datetime_fn cs s) as [s'|] eqn:Es; cbn [bind] in Edb; [|discriminate].
  destruct (datetime_fn ce e) as [e'|] eqn:Ee; cbn [bind] in Edb; [|discriminate].
  destruct (instant e' <? instant s') eqn:E; [discriminate|].
  cbn [draw_below] in Edb. destruct ((0 <=? num) && (num <? den)); [|discriminate].
  inversion Edb as [Hc]. clear Edb.
  set (rc := faker_dt_between (floor_sec (instant s')) (floor_sec (instant e')) num den) in Hc.
  unfold clamp in Hc. rewrite E in Hc.
  assert (Hrefl : forall x : option Z, option_eqb Z.eqb x x = true).
  { intros [x|]; cbn [option_eqb]; [apply Z.eqb_refl|reflexivity]. }
  destruct (rc <? instant s') eqn:E1.
  - inversion Hc; subst us o. rewrite Hrefl, (Z.eqb_refl (instant s')). cbn [orb andb].
    rewrite orb_true_r. rewrite !andb_true_iff. splits; lia.
  - destruct (instant e' <? rc) eqn:E2; inversion Hc; subst us o.
    + rewrite (Hrefl (bound_zone tz)), (Z.eqb_refl (instant e')). rewrite !orb_true_r.
      rewrite !andb_true_iff. splits; lia.
    + rewrite Hrefl. cbn [orb]. rewrite !andb_true_iff. splits; lia.
Qed.

(* what each datetime bound denotes: the instant as written, midnight (UTC) of the day, the clock
   reading, or the clock reading plus the relative offset (years = 365.24 d, months = 30.42 d) *)
Lemma parse_datetimespec_meaning c :
  (forall w o, exists ps, parse_datetimespec c (SStamp (mkStamp w o)) = Ok ps /\
                          instant ps = instant (mkStamp w o)) /\
  (forall d, exists ps, parse_datetimespec c (SDate d) = Ok ps /\ instant ps = d * DAYUS) /\
  (exists ps, parse_datetimespec c SToday = Ok ps /\ instant ps = today c * DAYUS) /\
  (exists ps, parse_datetimespec c SNow = Ok ps /\ instant ps = now_us c) /\
  (forall y mo w d h mi s, exists ps,
      parse_datetimespec c (SRel y mo w d h mi s) = Ok ps /\
      instant ps = now_us c + rel_seconds y mo w d h mi s * US).
Proof.
  splits.
  - intros w [o|]; eexists; (split; [reflexivity|]); unfold instant; cbn [wall off]; lia.
  - intros d. eexists. split; [reflexivity|]. unfold instant; cbn [wall off]; lia.
  - eexists. split; [reflexivity|]. unfold instant; cbn [wall off]; lia.
  - eexists. split; [reflexivity|]. unfold instant; cbn [wall off]; lia.
  - intros. eexists. split; [reflexivity|]. unfold instant; cbn [wall off]; lia.
Qed.

(* relative bounds spelled out: both bounds relative to (possibly different) clock readings *)
Lemma datetime_between_relative cs ce y1 mo1 w1 d1 h1 mi1 s1 y2 mo2 w2 d2 h2 mi2 s2 tz num den :
  0 <= num < den ->
  let a := now_us cs + rel_seconds y1 mo1 w1 d1 h1 mi1 s1 * US in
  let b := now_us ce + rel_seconds y2 mo2 w2 d2 h2 mi2 s2 * US in
  (b < a -> forall d, exists m,
      datetime_between cs ce (SRel y1 mo1 w1 d1 h1 mi1 s1) (SRel y2 mo2 w2 d2 h2 mi2 s2) tz d den
      = Err (DGE m)) /\
  (a <= b -> exists v o,
      datetime_between cs ce (SRel y1 mo1 w1 d1 h1 mi1 s1) (SRel y2 mo2 w2 d2 h2 mi2 s2) tz
                       (Some num) den = Ok (v, o) /\ a <= v <= b).
Proof.
  intros Hnum a b.
  destruct (datetime_between_bounds cs ce (SRel y1 mo1 w1 d1 h1 mi1 s1) (SRel y2 mo2 w2 d2 h2 mi2 s2)
              tz num den _ _ eq_refl eq_refl Hnum) as (Hrev & Hok).
  assert (Ha : instant (mkStamp a (Some 0)) = a) by (unfold instant; cbn [wall off]; lia).
  assert (Hb : instant (mkStamp b (Some 0)) = b) by (unfold instant; cbn [wall off]; lia).
  fold a in Hrev, Hok. fold b in Hrev, Hok. rewrite Ha, Hb in Hrev, Hok. split.
  - exact Hrev.
  - intros Hle. destruct (Hok Hle) as (v & o & Hr & Hv & _). exists v, o. split; assumption.
Qed.

(* ------------------------------------------------------------------ regressions: the witnesses of
   the repaired defects K4, K10, K11, K12 now satisfy the property *)

(* 2023-01-01T10:00:00 as microseconds of wall clock *)
Definition w_10h : Z := 1672567200000000.

(* K4: start 10:00:00-05:00 (15:00Z), end 18:00Z: lowest and highest draw inside the bounds *)
Lemma regression_offset :
  let c := mkClock 0 0 in
  let s := mkStamp w_10h (Some (-18000)) in
  let e := mkStamp (w_10h + 8 * 3600 * US) (Some 0) in
  datetime_between c c (SStamp s) (SStamp e) (Some 0) (Some 0) 1024 = Ok (instant s, Some 0) /\
  datetime_between c c (SStamp s) (SStamp e) (Some 0) (Some 1023) 1024
    = Ok (instant e - 10546875, Some 0).
Proof. cbv zeta. split; vm_compute; reflexivity. Qed.

(* K4: start 10:00+05:00 (05:00Z), end 06:00Z is accepted *)
Lemma regression_offset_valid_range_accepted :
  let c := mkClock 0 0 in
  let s := mkStamp w_10h (Some 18000) in
  let e := mkStamp (w_10h - 4 * 3600 * US) (Some 0) in
  datetime_between c c (SStamp s) (SStamp e) (Some 0) (Some 512) 1024
    = Ok (instant s + 1800 * US, Some 0).
Proof. cbv zeta. vm_compute. reflexivity. Qed.

(* K10: equal bounds: the only possible value *)
Lemma regression_equal_bounds :
  let c := mkClock 0 0 in
  let s := mkStamp w_10h None in
  datetime_between c c (SStamp s) (SStamp s) (Some 0) (Some 512) 1024 = Ok (instant s, Some 0).
Proof. cbv zeta. vm_compute. reflexivity. Qed.

(* K11: start 10:00:00.9: the lowest draw is clamped to the start *)
Lemma regression_subsecond_start :
  let c := mkClock 0 0 in
  let s := mkStamp (w_10h + 900000) None in
  let e := mkStamp (w_10h + 5 * US) None in
  datetime_between c c (SStamp s) (SStamp e) (Some 0) (Some 0) 1024 = Ok (instant s, Some 0).
Proof. cbv zeta. vm_compute. reflexivity. Qed.

(* K12: probabilities 0% and 50: option 2 for the lowest and the highest draw *)
Lemma regression_zero_probability :
  random_choice (RCChoices [(Some 0, 1); (Some 200, 2)]) (Some 0) 1024 = Ok 2 /\
  random_choice (RCChoices [(Some 0, 1); (Some 200, 2)]) (Some 1023) 1024 = Ok 2.
Proof. split; vm_compute; reflexivity. Qed.

(* K13: 10:00:00.9 .. 10:00:03 with timezone: False: a naive value inside the bounds; the lowest
   draw is the (naive) start itself *)
Lemma regression_timezone_false :
  let c := mkClock 0 0 in
  let s := mkStamp (w_10h + 900000) None in
  let e := mkStamp (w_10h + 3 * US) None in
  datetime_between c c (SStamp s) (SStamp e) None (Some 0) 1024 = Ok (instant s, None) /\
  datetime_between c c (SStamp s) (SStamp e) None (Some 512) 1024 = Ok (w_10h + 1500000, None).
Proof. cbv zeta. split; vm_compute; reflexivity. Qed.

(* ================================================================== round 3: the text of the arguments,
   blocks rendered row by row, calendar arithmetic *)

(* ------------------------------------------------------------------ scale invariance *)

Lemma psums_scale k acc zs : psums (k * acc) (map (Z.mul k) zs) = map (Z.mul k) (psums acc zs).
Proof.
  revert acc; induction zs as [|z r IH]; intros acc; cbn [map psums]; [reflexivity|].
  replace (k * acc + k * z) with (k * (acc + z)) by lia. rewrite IH. reflexivity.
Qed.

Lemma last_opt_map {A B} (f : A -> B) l : last_opt (map f l) = option_map f (last_opt l).
Proof.
  induction l as [|x r IH]; [reflexivity|]. destruct r as [|y r']; [reflexivity|].
  change (map f (x :: y :: r')) with (f x :: map f (y :: r')).
  change (last_opt (f x :: map f (y :: r'))) with (last_opt (map f (y :: r'))).
  rewrite IH. reflexivity.
Qed.

Lemma lt_at_scale k cum xn den i :
  0 < k -> lt_at (map (Z.mul k) cum) (k * xn) den i = lt_at cum xn den i.
Proof.
  intros Hk. unfold lt_at. rewrite nth_error_map.
  destruct (nth_error cum (Z.to_nat i)) as [c|]; cbn [option_map]; [|reflexivity].
  f_equal. destruct (xn <? c * den) eqn:E.
  - apply Z.ltb_lt in E. apply Z.ltb_lt. nia.
  - apply Z.ltb_ge in E. apply Z.ltb_ge. nia.
Qed.

Lemma bisect_scale k fuel cum xn den lo hi :
  0 < k -> bisect_right fuel (map (Z.mul k) cum) (k * xn) den lo hi = bisect_right fuel cum xn den lo hi.
Proof.
  intros Hk. revert lo hi; induction fuel as [|f IH]; intros lo hi; cbn [bisect_right]; [reflexivity|].
  destruct (lo <? hi); [|reflexivity].
  rewrite lt_at_scale by assumption.
  destruct (lt_at cum xn den ((lo + hi) / 2)) as [[|]|]; cbn [bind]; auto.
Qed.

Lemma weighted_choice_scale k ws opts d den :
  0 < k -> weighted_choice (map (option_map (Z.mul k)) ws) opts d den = weighted_choice ws opts d den.
Proof.
  intros Hk. unfold weighted_choice.
  destruct (in_dec (fun a b : option Z => ltac:(decide equality; apply Z.eq_dec)) None ws) as [Hin|Hnot].
  - rewrite !accumulate_none; [reflexivity|assumption|].
    apply in_map_iff. exists None. split; [reflexivity|assumption].
  - assert (Hzs : exists zs, ws = map Some zs).
    { clear -Hnot. induction ws as [|[w|] r IH].
      - exists []. reflexivity.
      - destruct IH as (zs & ->); [intros H; apply Hnot; right; assumption|].
        exists (w :: zs). reflexivity.
      - exfalso. apply Hnot. left. reflexivity. }
    destruct Hzs as (zs & ->).
    rewrite map_map. cbn [option_map].
    replace (map (fun x : Z => Some (k * x)) zs) with (map Some (map (Z.mul k) zs)) by (rewrite map_map; reflexivity).
    rewrite !accumulate_some. cbn [bind].
    assert (Hps : psums 0 (map (Z.mul k) zs) = map (Z.mul k) (psums 0 zs)).
    { rewrite <- psums_scale. f_equal. lia. }
    rewrite Hps.
    rewrite last_opt_map. destruct (last_opt (psums 0 zs)) as [total|]; cbn [option_map]; [|reflexivity].
    destruct (total <=? 0) eqn:E.
    + replace (k * total <=? 0) with true by (symmetry; apply Z.leb_le; apply Z.leb_le in E; nia). reflexivity.
    + replace (k * total <=? 0) with false by (symmetry; apply Z.leb_gt; apply Z.leb_gt in E; nia).
      unfold draw_below. destruct d as [v|]; [|reflexivity].
      destruct ((0 <=? v) && (v <? den)); [|reflexivity].
      rewrite map_length. replace (v * (k * total)) with (k * (v * total)) by lia.
      rewrite bisect_scale by assumption. reflexivity.
Qed.

(* ------------------------------------------------------------------ decimals on a common denominator *)

Lemma pow10_pos n : 0 < pow10 n.
Proof. unfold pow10. apply Z.pow_pos_nonneg; lia. Qed.

Lemma scale_to_sign P d :
  (0 < scale_to P d <-> 0 < dnum d) /\ (0 <= scale_to P d <-> 0 <= dnum d).
Proof. unfold scale_to. pose proof (pow10_pos (P - dplaces d)). split; split; nia. Qed.

Definition scale_with (P : nat) (ws : list (option dec)) : list (option Z) :=
  map (option_map (scale_to P)) ws.

Lemma max_places_ge ws d : In (Some d) ws -> (dplaces d <= max_places ws)%nat.
Proof.
  induction ws as [|[x|] r IH]; intros H; [destruct H| |]; cbn [max_places].
  - destruct H as [H|H]; [inversion H; subst; lia|]. specialize (IH H). lia.
  - destruct H as [H|H]; [discriminate|]. auto.
Qed.

Lemma scale_with_more P Q ws :
  (max_places ws <= P)%nat -> (P <= Q)%nat ->
  scale_with Q ws = map (option_map (Z.mul (pow10 (Q - P)))) (scale_with P ws).
Proof.
  intros HP HQ. unfold scale_with. rewrite map_map. apply map_ext_in.
  intros [d|] Hin; cbn [option_map]; [|reflexivity]. f_equal.
  pose proof (max_places_ge ws d Hin) as Hd. unfold scale_to, pow10.
  replace (Z.of_nat (Q - dplaces d)) with (Z.of_nat (Q - P) + Z.of_nat (P - dplaces d)) by lia.
  rewrite Z.pow_add_r by lia. lia.
Qed.

(* any common denominator gives the same choice *)
Lemma common_denominator_irrelevant ws Q opts d den :
  (max_places ws <= Q)%nat ->
  weighted_choice (scale_with Q ws) opts d den = weighted_choice (scale_weights ws) opts d den.
Proof.
  intros HQ. rewrite (scale_with_more (max_places ws) Q ws) by lia.
  rewrite weighted_choice_scale by apply pow10_pos. reflexivity.
Qed.

(* ------------------------------------------------------------------ blocks rendered per row *)

Definition tok_parsed (t : option wtok) (w : option dec) : Prop :=
  match t, w with
  | None, None => True
  | Some t, Some d => parse_weight_str t = Ok d
  | _, _ => False
  end.

Lemma parse_weights_forall2 ts ws : parse_weights ts = Ok ws -> Forall2 tok_parsed ts ws.
Proof.
  revert ws; induction ts as [|[t|] r IH]; intros ws H; cbn [parse_weights] in H.
  - inversion H. constructor.
  - destruct (parse_weight_str t) as [w|] eqn:Et; cbn [bind] in H; [|discriminate].
    destruct (parse_weights r) as [ws'|] eqn:Er; cbn [bind] in H; [|discriminate].
    inversion H; subst ws. constructor; [exact Et|auto].
  - destruct (parse_weights r) as [ws'|] eqn:Er; cbn [bind] in H; [|discriminate].
    inversion H; subst ws. constructor; [exact I|auto].
Qed.

Lemma forall2_nth {A B} (R : A -> B -> Prop) l1 l2 i b :
  Forall2 R l1 l2 -> nth_error l2 i = Some b -> exists a, nth_error l1 i = Some a /\ R a b.
Proof.
  intros H; revert i; induction H as [|x y l1 l2 Hxy H IH]; intros i Hi.
  - destruct i; discriminate.
  - destruct i as [|i]; cbn [nth_error] in *; [inversion Hi; subst; eauto|auto].
Qed.

Lemma forall2_length {A B} (R : A -> B -> Prop) l1 l2 : Forall2 R l1 l2 -> length l1 = length l2.
Proof. induction 1; cbn [length]; congruence. Qed.

Lemma map_fst_combine {A B} (l1 : list A) (l2 : list B) :
  length l1 = length l2 -> map fst (combine l1 l2) = l1 /\ map snd (combine l1 l2) = l2.
Proof.
  revert l2; induction l1 as [|a r IH]; intros [|b r2] H; cbn [length] in H; try discriminate.
  - split; reflexivity.
  - cbn [combine map fst snd]. destruct (IH r2 ltac:(lia)) as (H1 & H2). rewrite H1, H2. split; reflexivity.
Qed.

Lemma zsum_pos_exists zs : Forall (fun z => 0 <= z) zs -> Exists (fun z => 0 < z) zs -> 0 < zsum zs.
Proof.
  intros Hall Hex. induction Hex as [z r Hz|z r Hex IH]; inversion Hall; subst; cbn [zsum fold_right].
  - assert (0 <= zsum r); [|unfold zsum in *; lia].
    clear -H2. induction H2; cbn [zsum fold_right]; [lia|]. unfold zsum in *. lia.
  - specialize (IH H2). unfold zsum in *. lia.
Qed.

(* THE statement for a block: whatever the row (key k) and the draw, the pick is the item at some
   position i whose probability text, as evaluated FOR THIS ROW, parses to a positive number *)
Lemma block_row_support (b : block) k ds num den :
  parse_weights (block_toks k b) = Ok (map Some ds) ->
  Forall (fun d => 0 <= dnum d) ds -> Exists (fun d => 0 < dnum d) ds -> 0 <= num < den ->
  exists i it e d o,
    run_block b k (Some num) den = Ok o /\ nth_error b i = Some it /\ o = eval_pexpr k (snd it) /\
    fst it = Some e /\ parse_weight_str (eval_wexpr k e) = Ok d /\ nth_error ds i = Some d /\ 0 < dnum d.
Proof.
  intros Hp Hall Hex Hnum.
  pose proof (parse_weights_forall2 _ _ Hp) as HF.
  pose proof (forall2_length _ _ _ HF) as Hlen.
  unfold block_toks in Hlen. rewrite !map_length in Hlen.
  unfold run_block, render_block. rewrite Hp. cbn [bind].
  set (P := max_places (map Some ds)).
  set (zs := map (scale_to P) ds).
  assert (Hsw : scale_weights (map Some ds) = map Some zs).
  { unfold scale_weights. fold P. subst zs. rewrite !map_map. reflexivity. }
  rewrite Hsw.
  set (labs := block_labels k b).
  assert (Hl2 : length (map Some zs) = length labs).
  { subst zs labs. unfold block_labels. rewrite !map_length. lia. }
  destruct (map_fst_combine (map Some zs) labs Hl2) as (Hfst & Hsnd).
  destruct (random_choice_support (RCChoices (combine (map Some zs) labs)) zs num den) as
      (i & o & w & Hr & Ho & Hw & Hw0); try exact I; try assumption.
  - cbn [rc_weights]. rewrite <- Hfst at 2. apply map_ext. intros [[p|] l]; reflexivity.
  - subst zs. rewrite Forall_map. eapply Forall_impl; [|exact Hall].
    intros d Hd. apply (scale_to_sign P d). assumption.
  - apply zsum_pos_exists.
    + subst zs. rewrite Forall_map. eapply Forall_impl; [|exact Hall].
      intros d Hd. apply (scale_to_sign P d). assumption.
    + subst zs. apply Exists_exists in Hex. destruct Hex as (d & Hin & Hd).
      apply Exists_exists. exists (scale_to P d). split; [apply in_map; assumption|].
      apply (scale_to_sign P d). assumption.
  - cbn [rc_options] in Ho. rewrite Hsnd in Ho. subst labs. unfold block_labels in Ho.
    rewrite nth_error_map in Ho.
    destruct (nth_error b i) as [it|] eqn:Eit; cbn [option_map] in Ho; [|discriminate].
    inversion Ho; subst o; clear Ho.
    subst zs. rewrite nth_error_map in Hw.
    destruct (nth_error ds i) as [d|] eqn:Ed; cbn [option_map] in Hw; [|discriminate].
    inversion Hw; subst w; clear Hw.
    assert (Hsd : nth_error (map Some ds) i = Some (Some d)) by (rewrite nth_error_map, Ed; reflexivity).
    destruct (forall2_nth _ _ _ _ _ HF Hsd) as (t & Ht & Hpt).
    unfold block_toks in Ht. rewrite nth_error_map, Eit in Ht. cbn [option_map] in Ht.
    inversion Ht as [Ht']; clear Ht.
    destruct (fst it) as [e|] eqn:Ee; cbn [option_map] in Ht'; subst t; cbn [tok_parsed] in Hpt; [|destruct Hpt].
    exists i, it, e, d, (eval_pexpr k (snd it)).
    repeat split; try assumption; try reflexivity.
    apply (scale_to_sign P d). assumption.
Qed.

(* all the weight of the row on one item: that item's pick, for every draw *)
Lemma block_row_single (b : block) k ds num den i0 :
  parse_weights (block_toks k b) = Ok (map Some ds) ->
  Forall (fun d => 0 <= dnum d) ds -> 0 <= num < den ->
  (exists d, nth_error ds i0 = Some d /\ 0 < dnum d) ->
  (forall j d, nth_error ds j = Some d -> 0 < dnum d -> j = i0) ->
  exists it, nth_error b i0 = Some it /\ run_block b k (Some num) den = Ok (eval_pexpr k (snd it)).
Proof.
  intros Hp Hall Hnum (d0 & Hd0 & Hpos0) Huniq.
  destruct (block_row_support b k ds num den Hp Hall) as (i & it & e & d & o & Hr & Hit & Ho & _ & _ & Hd & Hpos);
    try assumption.
  - apply Exists_exists. exists d0. split; [eapply nth_error_In; eassumption|assumption].
  - rewrite (Huniq i d Hd Hpos) in Hit. exists it. split; [assumption|]. rewrite Hr, Ho. reflexivity.
Qed.

(* a literal probability is the same in every row; a formula is its table entry for the row *)
Lemma eval_wexpr_literal k k' t : eval_wexpr k (WLit t) = eval_wexpr k' (WLit t).
Proof. reflexivity. Qed.

(* ------------------------------------------------------------------ the text of a weight *)

Ltac ascii_cases c := destruct c as [[] [] [] [] [] [] [] []].

Lemma digit_char_facts c :
  is_digit c = true ->
  sign_of c = None /\ is_blank c = false /\ is_pct c = false /\ is_point c = false /\
  weight_char c = true /\ exists v, digit_val c = Some v /\ 0 <= v <= 9.
Proof.
  unfold is_digit. ascii_cases c; cbn; intros H; try discriminate H;
    (repeat split; try reflexivity; eexists; split; [reflexivity|lia]).
Qed.

Lemma take_digits_app ds rest acc n :
  all_digits ds = true ->
  match rest with [] => True | c :: _ => is_digit c = false end ->
  take_digits (ds ++ rest) acc n = (dval acc ds, (n + length ds)%nat, rest).
Proof.
  revert acc n; induction ds as [|c r IH]; intros acc n Hd Hrest.
  - cbn [app dval length]. replace (n + 0)%nat with n by lia.
    destruct rest as [|c r]; [reflexivity|]. cbn [take_digits]. unfold is_digit in Hrest.
    destruct (digit_val c); [discriminate|reflexivity].
  - cbn [all_digits forallb] in Hd. apply andb_true_iff in Hd. destruct Hd as (Hc & Hr).
    cbn [app take_digits dval length]. unfold is_digit in Hc.
    destruct (digit_val c) as [v|]; [|discriminate].
    rewrite IH by assumption. f_equal. f_equal. lia.
Qed.

Lemma dval_app acc a b : all_digits a = true -> dval acc (a ++ b) = dval (dval acc a) b.
Proof.
  revert acc; induction a as [|c r IH]; intros acc H; [reflexivity|].
  cbn [all_digits forallb] in H. apply andb_true_iff in H. destruct H as (Hc & Hr).
  cbn [app dval]. unfold is_digit in Hc. destruct (digit_val c); [|discriminate]. apply IH. assumption.
Qed.

Lemma dval_nonneg acc cs : 0 <= acc -> 0 <= dval acc cs.
Proof.
  revert acc; induction cs as [|c r IH]; intros acc H; cbn [dval]; [assumption|].
  destruct (digit_val c) as [v|] eqn:E; [|assumption]. apply IH.
  assert (0 <= v).
  { assert (Hd : is_digit c = true) by (unfold is_digit; rewrite E; reflexivity).
    destruct (digit_char_facts c Hd) as (_ & _ & _ & _ & _ & v' & Hv' & Hb). rewrite E in Hv'. inversion Hv'. lia. }
  lia.
Qed.

Lemma drop_while_all p t m : forallb p t = true -> drop_while p (t ++ m) = drop_while p m.
Proof. induction t as [|c r IH]; intros H; [reflexivity|]. cbn [forallb] in H. apply andb_true_iff in H.
  destruct H as (Hc & Hr). cbn [app drop_while]. rewrite Hc. auto. Qed.

Lemma drop_while_none p m : forallb (fun c => negb (p c)) m = true -> drop_while p m = m.
Proof. destruct m as [|c r]; [reflexivity|]. cbn [forallb drop_while]. intros H. apply andb_true_iff in H.
  destruct H as (Hc & _). destruct (p c); [discriminate|reflexivity]. Qed.

Lemma forallb_rev {A} (f : A -> bool) l : forallb f (rev l) = forallb f l.
Proof.
  induction l as [|x r IH]; [reflexivity|]. cbn [rev forallb]. rewrite forallb_app, IH. cbn [forallb].
  rewrite andb_true_r. apply andb_comm.
Qed.

(* trailing p-characters go, the rest (which has none) stays *)
Lemma rstrip_tail p l t :
  forallb (fun c => negb (p c)) l = true -> forallb p t = true -> rstrip_chars p (l ++ t) = l.
Proof.
  intros Hl Ht. unfold rstrip_chars. rewrite rev_app_distr.
  rewrite drop_while_all by (rewrite forallb_rev; assumption).
  rewrite drop_while_none by (rewrite forallb_rev; assumption). apply rev_involutive.
Qed.

Lemma forallb_repeat {A} (f : A -> bool) x n : f x = true -> forallb f (repeat x n) = true.
Proof. intros H. induction n; cbn [repeat forallb]; [reflexivity|]. rewrite H. assumption. Qed.

Lemma forallb_impl {A} (f g : A -> bool) l : (forall x, f x = true -> g x = true) -> forallb f l = true -> forallb g l = true.
Proof. intros H. induction l as [|x r IH]; cbn [forallb]; [auto|]. intros Hf. apply andb_true_iff in Hf.
  destruct Hf as (Hx & Hr). rewrite (H x Hx). auto. Qed.

(* the body of a decimal numeral: optional sign, integer digits, optionally a point and fraction digits *)
Definition sign_text (sg : option bool) : list ascii :=
  match sg with None => [] | Some true => ["+"%char] | Some false => ["-"%char] end.
Definition sign_val (sg : option bool) : Z := match sg with Some false => -1 | _ => 1 end.
Definition decimal_text (sg : option bool) (ip : list ascii) (fp : option (list ascii)) : list ascii :=
  sign_text sg ++ ip ++ match fp with None => [] | Some f => "."%char :: f end.
Definition fraction_digits (fp : option (list ascii)) : list ascii := match fp with None => [] | Some f => f end.

Definition decimal_ok (ip : list ascii) (fp : option (list ascii)) : Prop :=
  all_digits ip = true /\ all_digits (fraction_digits fp) = true /\ (ip ++ fraction_digits fp) <> [].

Lemma decimal_text_chars sg ip fp :
  decimal_ok ip fp ->
  forallb weight_char (decimal_text sg ip fp) = true /\
  forallb (fun c => negb (is_blank c)) (decimal_text sg ip fp) = true /\
  forallb (fun c => negb (is_pct c)) (decimal_text sg ip fp) = true.
Proof.
  intros (Hi & Hf & _). unfold decimal_text.
  assert (Hd : forall l, all_digits l = true ->
             forallb weight_char l = true /\ forallb (fun c => negb (is_blank c)) l = true /\
             forallb (fun c => negb (is_pct c)) l = true).
  { intros l Hl. repeat split; (eapply forallb_impl; [|exact Hl]); intros c Hc;
      destruct (digit_char_facts c Hc) as (_ & Hb & Hp & _ & Hw & _); rewrite ?Hb, ?Hp; auto. }
  destruct (Hd ip Hi) as (A1 & A2 & A3). destruct (Hd _ Hf) as (B1 & B2 & B3).
  rewrite !forallb_app, A1, A2, A3.
  destruct sg as [[|]|], fp as [f|]; cbn [sign_text forallb fraction_digits] in *; rewrite ?B1, ?B2, ?B3; repeat split; reflexivity.
Qed.

Lemma parse_decimal_text a b sg ip fp :
  decimal_ok ip fp ->
  parse_decimal (repeat " "%char a ++ decimal_text sg ip fp ++ repeat " "%char b)
  = Ok (mkDec (sign_val sg * dval 0 (ip ++ fraction_digits fp)) (length (fraction_digits fp))).
Proof.
  intros Hok. destruct (decimal_text_chars sg ip fp Hok) as (Hw & Hnb & _).
  destruct Hok as (Hi & Hf & Hne).
  unfold parse_decimal.
  assert (Hall : forallb weight_char (repeat " "%char a ++ decimal_text sg ip fp ++ repeat " "%char b) = true).
  { rewrite !forallb_app, Hw, !forallb_repeat by reflexivity. reflexivity. }
  rewrite Hall. cbn [negb].
  rewrite drop_while_all by (apply forallb_repeat; reflexivity).
  assert (Hhead : drop_while is_blank (decimal_text sg ip fp ++ repeat " "%char b)
                  = decimal_text sg ip fp ++ repeat " "%char b).
  { destruct (decimal_text sg ip fp) as [|c r] eqn:E.
    - exfalso. unfold decimal_text in E. destruct sg as [[|]|]; cbn [sign_text app] in E; try discriminate E.
      destruct ip as [|x ip']; [|discriminate E]. destruct fp as [f|]; [discriminate E|].
      cbn [fraction_digits app] in Hne. congruence.
    - cbn [forallb] in Hnb. apply andb_true_iff in Hnb. destruct Hnb as (Hc & _).
      cbn [app drop_while]. destruct (is_blank c); [discriminate|reflexivity]. }
  rewrite Hhead.
  rewrite rstrip_tail by (try assumption; apply forallb_repeat; reflexivity).
  assert (Hbody : forall acc, take_digits (ip ++ match fp with None => [] | Some f => "."%char :: f end) acc 0
                  = (dval acc ip, length ip, match fp with None => [] | Some f => "."%char :: f end)).
  { intros acc. rewrite take_digits_app; [reflexivity|assumption|]. destruct fp; [reflexivity|exact I]. }
  assert (Hfin : (let '(ip0, ni, r1) := take_digits (ip ++ match fp with None => [] | Some f => "."%char :: f end) 0 0 in
           match r1 with
           | [] => match ni with O => value_error | S _ => Ok (mkDec (sign_val sg * ip0) 0) end
           | c :: r2 =>
             if is_point c then
               let '(fp0, nf, r3) := take_digits r2 ip0 0 in
               match r3 with
               | [] => match (ni + nf)%nat with O => value_error | S _ => Ok (mkDec (sign_val sg * fp0) nf) end
               | _ :: _ => value_error
               end
             else value_error
           end) = Ok (mkDec (sign_val sg * dval 0 (ip ++ fraction_digits fp)) (length (fraction_digits fp)))).
  { rewrite Hbody. destruct fp as [f|]; cbn [fraction_digits] in *.
    - cbn [is_point]. replace f with (f ++ []) at 1 by apply app_nil_r.
      rewrite take_digits_app by (try assumption; exact I). cbn [Nat.add].
      rewrite dval_app by assumption.
      destruct (length ip + length f)%nat eqn:El; [|reflexivity].
      exfalso. apply Hne. destruct ip; [|cbn in El; lia]. destruct f; [|cbn in El; lia]. reflexivity.
    - rewrite app_nil_r in *. destruct ip as [|c r]; [congruence|]. reflexivity. }
  unfold decimal_text.
  destruct sg as [[|]|]; cbn [sign_text app sign_of sign_val] in *; try exact Hfin.
  (* no sign: the first character is a digit or the point *)
  destruct ip as [|c r].
  - destruct fp as [f|]; [|cbn [fraction_digits app] in Hne; congruence]. cbn [app sign_of]. exact Hfin.
  - cbn [all_digits forallb] in Hi. apply andb_true_iff in Hi. destruct Hi as (Hc & _).
    destruct (digit_char_facts c Hc) as (Hs & _). cbn [app]. rewrite Hs. exact Hfin.
Qed.

(* probability written as a string: trailing '%' characters are dropped (rstrip), blanks around the
   numeral are accepted by float() *)
Lemma parse_weight_str_text a b k sg ip fp :
  decimal_ok ip fp ->
  parse_weight_str (WStr (string_of_list_ascii
     (repeat " "%char a ++ decimal_text sg ip fp ++ repeat " "%char b ++ repeat "%"%char k)))
  = Ok (mkDec (sign_val sg * dval 0 (ip ++ fraction_digits fp)) (length (fraction_digits fp))).
Proof.
  intros Hok. cbn [parse_weight_str]. unfold chars. rewrite list_ascii_of_string_of_list_ascii.
  replace (repeat " "%char a ++ decimal_text sg ip fp ++ repeat " "%char b ++ repeat "%"%char k)
    with ((repeat " "%char a ++ decimal_text sg ip fp ++ repeat " "%char b) ++ repeat "%"%char k)
    by (rewrite <- !app_assoc; reflexivity).
  rewrite rstrip_tail.
  - apply parse_decimal_text. assumption.
  - destruct (decimal_text_chars sg ip fp Hok) as (_ & _ & Hp).
    rewrite !forallb_app, Hp, !forallb_repeat by reflexivity. reflexivity.
  - apply forallb_repeat. reflexivity.
Qed.

(* written as a YAML / Python float *)
Lemma parse_weight_flt_text sg ip fp :
  decimal_ok ip fp ->
  parse_weight_str (WFlt (string_of_list_ascii (decimal_text sg ip fp)))
  = Ok (mkDec (sign_val sg * dval 0 (ip ++ fraction_digits fp)) (length (fraction_digits fp))).
Proof.
  intros Hok. cbn [parse_weight_str]. unfold chars. rewrite list_ascii_of_string_of_list_ascii.
  pose proof (parse_decimal_text 0 0 sg ip fp Hok) as H. cbn [repeat app] in H. rewrite app_nil_r in H. exact H.
Qed.

(* ------------------------------------------------------------------ relative bounds: -30d, +1y, -2w+3h *)

(* the text of one group: sign, digits, unit letter *)
Definition group_text (neg : bool) (ds : list ascii) (u : ascii) : list ascii :=
  (if neg then "-"%char else "+"%char) :: ds ++ [u].
Definition group_val (neg : bool) (ds : list ascii) : Z := (if neg then -1 else 1) * dval 0 ds.

(* one optional group per unit: None = absent *)
Definition group_slot := option (bool * list ascii).
Definition slot_ok (g : group_slot) : Prop :=
  match g with None => True | Some (_, ds) => all_digits ds = true /\ ds <> [] end.
Fixpoint rel_text (us : list ascii) (gs : list group_slot) : list ascii :=
  match us, gs with
  | u :: us', Some (neg, ds) :: gs' => group_text neg ds u ++ rel_text us' gs'
  | _ :: us', None :: gs' => rel_text us' gs'
  | _, _ => []
  end.
Definition slot_val (g : group_slot) : option Z :=
  match g with None => None | Some (neg, ds) => Some (group_val neg ds) end.

Lemma rel_group_match u neg ds rest :
  all_digits ds = true -> ds <> [] -> is_digit u = false ->
  rel_group u (group_text neg ds u ++ rest) = (Some (group_val neg ds), rest).
Proof.
  intros Hd Hne Hu. unfold group_text, rel_group. cbn [app].
  replace (sign_of (if neg then "-"%char else "+"%char)) with (Some (if neg then -1 else 1))
    by (destruct neg; reflexivity).
  rewrite <- app_assoc. rewrite take_digits_app by (try assumption; exact Hu).
  destruct ds as [|c r]; [congruence|]. cbn [length Nat.add app].
  rewrite Ascii.eqb_refl. reflexivity.
Qed.

Lemma rel_group_other u neg ds u' rest :
  all_digits ds = true -> is_digit u' = false -> u' <> u ->
  rel_group u (group_text neg ds u' ++ rest) = (None, group_text neg ds u' ++ rest).
Proof.
  intros Hd Hu' Hneq. unfold group_text, rel_group. cbn [app].
  replace (sign_of (if neg then "-"%char else "+"%char)) with (Some (if neg then -1 else 1))
    by (destruct neg; reflexivity).
  rewrite <- app_assoc. rewrite take_digits_app by (try assumption; exact Hu').
  destruct (0 + length ds)%nat; [reflexivity|]. cbn [app].
  destruct (Ascii.eqb u' u) eqn:E; [apply Ascii.eqb_eq in E; congruence|reflexivity].
Qed.

(* the text of the remaining groups is empty or starts with the group of one of the remaining units *)
Lemma rel_text_head us gs :
  Forall slot_ok gs ->
  rel_text us gs = [] \/
  exists neg ds u rest, In u us /\ all_digits ds = true /\ rel_text us gs = group_text neg ds u ++ rest.
Proof.
  revert gs; induction us as [|u us' IH]; intros gs Hok; [left; destruct gs; reflexivity|].
  destruct gs as [|[[neg ds]|] gs']; [left; reflexivity| |]; inversion Hok; subst; cbn [rel_text].
  - right. exists neg, ds, u, (rel_text us' gs'). destruct H1. repeat split; [left; reflexivity|assumption].
  - destruct (IH gs' H2) as [H|(neg & ds & u' & rest & Hin & Hd & Ht)]; [left; assumption|].
    right. exists neg, ds, u', rest. repeat split; [right; assumption|assumption|assumption].
Qed.

Lemma rel_groups_text us gs :
  NoDup us -> Forall (fun u => is_digit u = false) us -> Forall slot_ok gs -> length gs = length us ->
  rel_groups us (rel_text us gs) = (map slot_val gs, []).
Proof.
  revert gs; induction us as [|u us' IH]; intros gs Hnd Hus Hok Hlen.
  - destruct gs; [reflexivity|discriminate].
  - destruct gs as [|g gs']; [discriminate|]. cbn [length] in Hlen.
    inversion Hnd; subst. inversion Hus; subst. inversion Hok; subst.
    cbn [rel_groups map]. destruct g as [[neg ds]|]; cbn [rel_text slot_val].
    + destruct H5 as (Hd & Hne). rewrite rel_group_match by assumption.
      rewrite IH by (try assumption; lia). reflexivity.
    + assert (Hskip : rel_group u (rel_text us' gs') = (None, rel_text us' gs')).
      { destruct (rel_text_head us' gs' H6) as [->|(neg & ds & u' & rest & Hin & Hd & ->)]; [reflexivity|].
        apply rel_group_other; [assumption| |intros ->; contradiction].
        rewrite Forall_forall in H4. apply H4. assumption. }
      rewrite Hskip. rewrite IH by (try assumption; lia). reflexivity.
Qed.

Lemma rel_units_facts : NoDup rel_units /\ Forall (fun u => is_digit u = false) rel_units.
Proof.
  split.
  - unfold rel_units. repeat constructor; cbn [In]; intros H;
      repeat (destruct H as [H|H]; [discriminate H|]); exact H.
  - unfold rel_units. repeat constructor.
Qed.

(* regex.fullmatch on a well-formed relative bound: every written group is read as sign * digits *)
Lemma parse_rel_text gs :
  Forall slot_ok gs -> length gs = 7%nat -> parse_rel (rel_text rel_units gs) = Some (map slot_val gs).
Proof.
  intros Hok Hlen. unfold parse_rel. destruct rel_units_facts as (Hnd & Hus).
  rewrite rel_groups_text by assumption. reflexivity.
Qed.

Definition slot_z (g : group_slot) : Z := match slot_val g with Some v => v | None => 0 end.

Lemma spec_of_text_relative g0 g1 g2 g3 g4 g5 g6 :
  Forall slot_ok [g0; g1; g2; g3; g4; g5; g6] ->
  rel_text rel_units [g0; g1; g2; g3; g4; g5; g6] <> [] ->
  spec_of_text (string_of_list_ascii (rel_text rel_units [g0; g1; g2; g3; g4; g5; g6]))
  = SRel (slot_z g0) (slot_z g1) (slot_z g2) (slot_z g3) (slot_z g4) (slot_z g5) (slot_z g6).
Proof.
  intros Hok Hne. unfold spec_of_text, chars. rewrite list_ascii_of_string_of_list_ascii.
  pose proof (parse_rel_text _ Hok eq_refl) as Hp.
  destruct (rel_text_head rel_units _ Hok) as [H|(neg & ds & u & rest & _ & _ & Ht)]; [congruence|].
  rewrite Ht in Hp |- *. unfold group_text in Hp |- *. cbn [app] in Hp |- *.
  assert (Hnow : forall t, String.eqb (string_of_list_ascii ((if neg then "-"%char else "+"%char) :: t)) "now" = false)
    by (intros t; destruct neg; reflexivity).
  assert (Htoday : forall t, String.eqb (string_of_list_ascii ((if neg then "-"%char else "+"%char) :: t)) "today" = false)
    by (intros t; destruct neg; reflexivity).
  rewrite Hnow, Htoday, Hp. reflexivity.
Qed.

(* monotone: a larger count of any unit is a later instant / day (years = 365.24 d, months = 30.42 d) *)
Lemma rel_seconds_mono y mo w d h mi s y' mo' w' d' h' mi' s' :
  y <= y' -> mo <= mo' -> w <= w' -> d <= d' -> h <= h' -> mi <= mi' -> s <= s' ->
  rel_seconds y mo w d h mi s <= rel_seconds y' mo' w' d' h' mi' s' /\
  rel_days y mo w d h mi s <= rel_days y' mo' w' d' h' mi' s'.
Proof.
  intros. assert (rel_seconds y mo w d h mi s <= rel_seconds y' mo' w' d' h' mi' s') by (unfold rel_seconds; lia).
  split; [assumption|]. unfold rel_days, DAY. apply Z.div_le_mono; lia.
Qed.

(* ------------------------------------------------------------------ calendar days *)

Definition leaps (y : Z) : Z := y / 4 - y / 100 + y / 400.

Lemma leaps_step y :
  leaps (y + 1) - leaps y = if is_leap (y + 1) then 1 else 0.
Proof.
  unfold leaps, is_leap.
  destruct ((y + 1) mod 4 =? 0) eqn:E4; destruct ((y + 1) mod 100 =? 0) eqn:E100;
    destruct ((y + 1) mod 400 =? 0) eqn:E400; cbn [negb andb orb];
    rewrite ?Z.eqb_eq, ?Z.eqb_neq in *; Z.div_mod_to_equations; lia.
Qed.

Lemma leaps_mono a b : a <= b -> leaps a <= leaps b.
Proof.
  intros H. replace b with (a + Z.of_nat (Z.to_nat (b - a))) by lia.
  induction (Z.to_nat (b - a)) as [|n IH]; [replace (a + Z.of_nat 0) with a by lia; lia|].
  replace (a + Z.of_nat (S n)) with (a + Z.of_nat n + 1) by lia.
  pose proof (leaps_step (a + Z.of_nat n)) as Hs.
  destruct (is_leap (a + Z.of_nat n + 1)); lia.
Qed.

(* first day-of-year (counted from 1 March) of each month *)
Definition month_start (m : Z) : Z := (153 * ((m + 9) mod 12) + 2) / 5.
Definition march_year (y m : Z) : Z := if m <=? 2 then y - 1 else y.

Lemma days_of_civil_formula y m d :
  days_of_civil y m d = 365 * march_year y m + leaps (march_year y m) + month_start m + d - 719469.
Proof.
  unfold days_of_civil, month_start, march_year, leaps.
  set (y' := if m <=? 2 then y - 1 else y). clearbody y'.
  set (g := (153 * ((m + 9) mod 12) + 2) / 5). clearbody g.
  Z.div_mod_to_equations. lia.
Qed.

Definition valid_md (y m d : Z) : Prop := 1 <= m <= 12 /\ 1 <= d <= days_in_month y m.

Lemma month_cases m : 1 <= m <= 12 ->
  m = 1 \/ m = 2 \/ m = 3 \/ m = 4 \/ m = 5 \/ m = 6 \/ m = 7 \/ m = 8 \/ m = 9 \/ m = 10 \/ m = 11 \/ m = 12.
Proof. lia. Qed.

Ltac month_split H :=
  let H' := fresh in
  pose proof (month_cases _ H) as H';
  repeat (destruct H' as [H'|H']; [subst|]); [..|subst].

(* evaluate the month-dependent parts for a concrete month, leaving the year alone *)
Ltac closed_month :=
  repeat match goal with
  | |- context [month_start ?m] =>
    let v := eval vm_compute in (month_start m) in change (month_start m) with v
  | |- context [march_year ?y ?m] =>
    let b := eval vm_compute in (m <=? 2) in
    match b with
    | true => change (march_year y m) with (y - 1)
    | false => change (march_year y m) with y
    end
  | |- context [days_in_month ?y ?m] =>
    let b := eval vm_compute in (m =? 2) in
    match b with
    | true => change (days_in_month y m) with (if is_leap y then 29 else 28)
    | false => let v := eval vm_compute in (days_in_month 0 m) in change (days_in_month y m) with v
    end
  end.

(* the next day of the calendar is the next day number *)
Lemma days_of_civil_next y m d :
  valid_md y m d ->
  (d < days_in_month y m -> days_of_civil y m (d + 1) = days_of_civil y m d + 1) /\
  (d = days_in_month y m -> m < 12 -> days_of_civil y (m + 1) 1 = days_of_civil y m d + 1) /\
  (d = days_in_month y m -> m = 12 -> days_of_civil (y + 1) 1 1 = days_of_civil y m d + 1).
Proof.
  intros (Hm & Hd). rewrite !days_of_civil_formula. split; [|split].
  - intros _. lia.
  - intros -> Hlt. clear Hd.
    pose proof (leaps_step (y - 1)) as Hs. replace (y - 1 + 1) with y in Hs by lia.
    month_split Hm; try lia; closed_month; try lia; destruct (is_leap y); lia.
  - intros -> ->. closed_month. replace (y + 1 - 1) with y by lia. lia.
Qed.

Definition ymd_lt (y m d y' m' d' : Z) : Prop :=
  y < y' \/ (y = y' /\ (m < m' \/ (m = m' /\ d < d'))).

Lemma days_in_month_bounds y m : 28 <= days_in_month y m <= 31.
Proof. unfold days_in_month. destruct (m =? 2); [destruct (is_leap y); lia|].
  destruct ((m =? 4) || (m =? 6) || (m =? 9) || (m =? 11)); lia. Qed.

(* within one year *)
Lemma days_of_civil_mono_year y m d m' d' :
  valid_md y m d -> valid_md y m' d' -> m < m' -> days_of_civil y m d < days_of_civil y m' d'.
Proof.
  intros (Hm & Hd) (Hm' & Hd') Hlt. rewrite !days_of_civil_formula.
  pose proof (leaps_step (y - 1)) as Hs. replace (y - 1 + 1) with y in Hs by lia.
  assert (Hd1 : 1 <= d') by lia. clear Hd'.
  month_split Hm; month_split Hm'; try lia; closed_month; revert Hd; closed_month; intros Hd;
    try lia; destruct (is_leap y); lia.
Qed.

Lemma days_of_civil_year_bounds y m d :
  valid_md y m d -> days_of_civil y 1 1 <= days_of_civil y m d < days_of_civil (y + 1) 1 1.
Proof.
  intros Hv. assert (Hjan : valid_md y 1 1) by (split; [lia|pose proof (days_in_month_bounds y 1); lia]).
  split.
  - destruct Hv as (Hm & Hd). destruct (Z.eq_dec m 1) as [->|Hne].
    + rewrite !days_of_civil_formula. lia.
    + apply Z.lt_le_incl. apply days_of_civil_mono_year; try assumption; [split; assumption|lia].
  - assert (Hdec : valid_md y 12 31) by (split; [lia|closed_month; lia]).
    destruct (days_of_civil_next y 12 31 Hdec) as (_ & _ & Hn).
    rewrite (Hn eq_refl eq_refl).
    destruct Hv as (Hm & Hd). destruct (Z.eq_dec m 12) as [->|Hne].
    + rewrite !days_of_civil_formula. revert Hd. closed_month. lia.
    + assert (days_of_civil y m d < days_of_civil y 12 31); [|lia].
      apply days_of_civil_mono_year; try assumption; [split; assumption|lia].
Qed.

Lemma days_of_civil_jan1_mono y y' : y <= y' -> days_of_civil y 1 1 <= days_of_civil y' 1 1.
Proof.
  intros H. rewrite !days_of_civil_formula. closed_month.
  pose proof (leaps_mono (y - 1) (y' - 1) ltac:(lia)). lia.
Qed.

(* the day number is strictly increasing in the calendar order of valid dates (any year) *)
Lemma days_of_civil_mono y m d y' m' d' :
  valid_md y m d -> valid_md y' m' d' -> ymd_lt y m d y' m' d' ->
  days_of_civil y m d < days_of_civil y' m' d'.
Proof.
  intros Hv Hv' [Hy|(-> & [Hm|(-> & Hd)])].
  - pose proof (days_of_civil_year_bounds y m d Hv). pose proof (days_of_civil_year_bounds y' m' d' Hv').
    pose proof (days_of_civil_jan1_mono (y + 1) y' ltac:(lia)). lia.
  - apply days_of_civil_mono_year; assumption.
  - rewrite !days_of_civil_formula. lia.
Qed.

Lemma days_of_civil_epoch : days_of_civil 1970 1 1 = 0 /\ days_of_civil 2000 3 1 = 11017 /\ days_of_civil 1 1 1 = -719162.
Proof. vm_compute. repeat split. Qed.

(* ------------------------------------------------------------------ ISO 8601 texts *)

Lemma take_n_digits_app n ds rest acc :
  all_digits ds = true -> length ds = n -> take_n_digits n (ds ++ rest) acc = Some (dval acc ds, rest).
Proof.
  revert ds acc; induction n as [|n IH]; intros ds acc Hd Hl.
  - destruct ds; [reflexivity|discriminate].
  - destruct ds as [|c r]; [discriminate|]. cbn [length] in Hl.
    cbn [all_digits forallb] in Hd. apply andb_true_iff in Hd. destruct Hd as (Hc & Hr).
    cbn [app take_n_digits dval]. unfold is_digit in Hc. destruct (digit_val c); [|discriminate].
    apply IH; [assumption|lia].
Qed.

Lemma expect_char_hit c r : expect_char c (c :: r) = Some r.
Proof. unfold expect_char. rewrite Ascii.eqb_refl. reflexivity. Qed.

(* YYYY-MM-DD followed by tail *)
Definition iso_date_text (y4 m2 d2 tail : list ascii) : list ascii :=
  y4 ++ "-"%char :: m2 ++ "-"%char :: d2 ++ tail.

Definition fields_ok (l : list (list ascii * nat)) : Prop :=
  Forall (fun p => all_digits (fst p) = true /\ length (fst p) = snd p) l.

Lemma parse_iso_date y4 m2 d2 :
  fields_ok [(y4, 4%nat); (m2, 2%nat); (d2, 2%nat)] ->
  parse_iso (iso_date_text y4 m2 d2 [])
  = if valid_date (dval 0 y4) (dval 0 m2) (dval 0 d2)
    then IsoD (days_of_civil (dval 0 y4) (dval 0 m2) (dval 0 d2)) else IsoBad.
Proof.
  intros H. inversion H as [|? ? (Hy & Hyl) H1]; subst. inversion H1 as [|? ? (Hm & Hml) H2]; subst.
  inversion H2 as [|? ? (Hd & Hdl) _]; subst. cbn [fst snd] in *.
  unfold parse_iso, iso_date_text.
  rewrite (take_n_digits_app 4 y4) by assumption. cbn [obind]. rewrite expect_char_hit. cbn [obind].
  rewrite (take_n_digits_app 2 m2) by assumption. cbn [obind]. rewrite expect_char_hit. cbn [obind].
  rewrite (take_n_digits_app 2 d2) by assumption. cbn [obind]. reflexivity.
Qed.

(* the fraction of a second and the zone as they may follow HH:MM:SS *)
Inductive zone_spec := ZNone | ZZulu | ZOff (neg : bool) (h2 m2 : list ascii).
Definition zone_text (z : zone_spec) : list ascii :=
  match z with
  | ZNone => []
  | ZZulu => ["Z"%char]
  | ZOff neg h2 m2 => (if neg then "-"%char else "+"%char) :: h2 ++ ":"%char :: m2
  end.
Definition zone_val (z : zone_spec) : option Z :=
  match z with
  | ZNone => None
  | ZZulu => Some 0
  | ZOff neg h2 m2 => Some ((if neg then -1 else 1) * (dval 0 h2 * 3600 + dval 0 m2 * 60))
  end.
Definition zone_ok (z : zone_spec) : Prop :=
  match z with
  | ZOff _ h2 m2 => fields_ok [(h2, 2%nat); (m2, 2%nat)] /\ dval 0 h2 < 24 /\ dval 0 m2 < 60
  | _ => True
  end.
Definition frac_text (f : option (list ascii)) : list ascii :=
  match f with None => [] | Some ds => "."%char :: ds end.
Definition frac_val (f : option (list ascii)) : Z :=
  match f with None => 0 | Some ds => dval 0 ds * pow10 (6 - length ds) end.
Definition frac_ok (f : option (list ascii)) : Prop :=
  match f with None => True | Some ds => all_digits ds = true /\ (1 <= length ds <= 6)%nat end.

Lemma zone_text_head z : match zone_text z with [] => True | c :: _ => is_digit c = false /\ is_point c = false end.
Proof. destruct z as [| |[|] h m]; cbn; auto. Qed.

Lemma parse_zone_text z : zone_ok z -> parse_zone (zone_text z) = Some (zone_val z).
Proof.
  destruct z as [| |neg h2 m2]; [reflexivity|reflexivity|]. intros (Hf & Hh & Hm).
  inversion Hf as [|? ? (Hhd & Hhl) H1]; subst. inversion H1 as [|? ? (Hmd & Hml) _]; subst. cbn [fst snd] in *.
  unfold zone_text, zone_val, parse_zone.
  assert (Hs : sign_of (if neg then "-"%char else "+"%char) = Some (if neg then -1 else 1)) by (destruct neg; reflexivity).
  assert (Hz : forall (A : Type) (r : list ascii) (x y : A),
             match (if neg then "-"%char else "+"%char) :: r with ["Z"%char] => x | _ => y end = y).
  { intros A r x y. destruct neg; reflexivity. }
  destruct neg.
  - cbn [sign_of obind]. rewrite (take_n_digits_app 2 h2) by assumption. cbn [obind].
    rewrite expect_char_hit. cbn [obind].
    replace m2 with (m2 ++ []) at 1 by apply app_nil_r.
    rewrite (take_n_digits_app 2 m2) by assumption. cbn [obind].
    replace ((dval 0 h2 <? 24) && (dval 0 m2 <? 60)) with true by lia. reflexivity.
  - cbn [sign_of obind]. rewrite (take_n_digits_app 2 h2) by assumption. cbn [obind].
    rewrite expect_char_hit. cbn [obind].
    replace m2 with (m2 ++ []) at 1 by apply app_nil_r.
    rewrite (take_n_digits_app 2 m2) by assumption. cbn [obind].
    replace ((dval 0 h2 <? 24) && (dval 0 m2 <? 60)) with true by lia. reflexivity.
Qed.

Lemma parse_fraction_text f z :
  frac_ok f -> parse_fraction (frac_text f ++ zone_text z) = Some (frac_val f, zone_text z).
Proof.
  destruct f as [ds|]; cbn [frac_text frac_val frac_ok app].
  - intros (Hd & Hl). unfold parse_fraction. cbn [is_point].
    rewrite take_digits_app; [|assumption|].
    + cbn [Nat.add]. replace ((1 <=? length ds)%nat && (length ds <=? 6)%nat) with true; [reflexivity|].
      symmetry. apply andb_true_iff. split; apply Nat.leb_le; lia.
    + pose proof (zone_text_head z). destruct (zone_text z); [exact I|tauto].
  - intros _. unfold parse_fraction. pose proof (zone_text_head z) as H.
    destruct (zone_text z) as [|c r]; [reflexivity|]. destruct H as (_ & ->). reflexivity.
Qed.

Definition iso_time_text (sep : ascii) (h2 mi2 s2 : list ascii) (f : option (list ascii)) (z : zone_spec) : list ascii :=
  sep :: h2 ++ ":"%char :: mi2 ++ ":"%char :: s2 ++ frac_text f ++ zone_text z.

(* a full date-time: the reading is the civil day number and the time of day, the offset as written *)
Lemma parse_iso_datetime y4 m2 d2 sep h2 mi2 s2 f z :
  fields_ok [(y4, 4%nat); (m2, 2%nat); (d2, 2%nat); (h2, 2%nat); (mi2, 2%nat); (s2, 2%nat)] ->
  is_sep sep = true -> frac_ok f -> zone_ok z ->
  parse_iso (iso_date_text y4 m2 d2 (iso_time_text sep h2 mi2 s2 f z))
  = if valid_date (dval 0 y4) (dval 0 m2) (dval 0 d2) && valid_time (dval 0 h2) (dval 0 mi2) (dval 0 s2)
    then IsoS (mkStamp ((days_of_civil (dval 0 y4) (dval 0 m2) (dval 0 d2) * DAY
                         + dval 0 h2 * 3600 + dval 0 mi2 * 60 + dval 0 s2) * US + frac_val f) (zone_val z))
    else IsoBad.
Proof.
  intros H Hsep Hf Hz.
  inversion H as [|? ? (Hy & Hyl) H1]; subst. inversion H1 as [|? ? (Hm & Hml) H2]; subst.
  inversion H2 as [|? ? (Hd & Hdl) H3]; subst. inversion H3 as [|? ? (Hh & Hhl) H4]; subst.
  inversion H4 as [|? ? (Hmi & Hmil) H5]; subst. inversion H5 as [|? ? (Hs & Hsl) _]; subst.
  cbn [fst snd] in *.
  unfold parse_iso, iso_date_text, iso_time_text.
  rewrite (take_n_digits_app 4 y4) by assumption. cbn [obind]. rewrite expect_char_hit. cbn [obind].
  rewrite (take_n_digits_app 2 m2) by assumption. cbn [obind]. rewrite expect_char_hit. cbn [obind].
  rewrite (take_n_digits_app 2 d2) by assumption. cbn [obind].
  rewrite Hsep. cbn [negb].
  rewrite (take_n_digits_app 2 h2) by assumption. cbn [obind]. rewrite expect_char_hit. cbn [obind].
  rewrite (take_n_digits_app 2 mi2) by assumption. cbn [obind]. rewrite expect_char_hit. cbn [obind].
  rewrite (take_n_digits_app 2 s2) by assumption. cbn [obind].
  rewrite parse_fraction_text by assumption. cbn [obind].
  rewrite parse_zone_text by assumption. cbn [obind]. reflexivity.
Qed.

Lemma digit_not_keyword c r :
  is_digit c = true ->
  String.eqb (string_of_list_ascii (c :: r)) "now" = false /\
  String.eqb (string_of_list_ascii (c :: r)) "today" = false.
Proof.
  intros H. cbn [string_of_list_ascii]. unfold is_digit in H.
  ascii_cases c; cbn in H; try discriminate H; split; reflexivity.
Qed.

Lemma rel_groups_no_sign us c r : sign_of c = None -> rel_groups us (c :: r) = (map (fun _ => None) us, c :: r).
Proof.
  intros Hs. induction us as [|u us' IH]; [reflexivity|].
  cbn [rel_groups map]. unfold rel_group at 1. rewrite Hs. rewrite IH. reflexivity.
Qed.

Lemma parse_rel_digit_first c r : is_digit c = true -> parse_rel (c :: r) = None.
Proof.
  intros H. destruct (digit_char_facts c H) as (Hs & _).
  unfold parse_rel. rewrite rel_groups_no_sign by assumption. reflexivity.
Qed.

Lemma spec_of_text_digit_first c r :
  is_digit c = true ->
  spec_of_text (string_of_list_ascii (c :: r))
  = match parse_iso (c :: r) with IsoD d => SDate d | IsoS s => SStamp s | IsoBad => SBad | IsoUnsup => SUnsup end.
Proof.
  intros H. unfold spec_of_text. destruct (digit_not_keyword c r H) as (-> & ->).
  unfold chars. rewrite list_ascii_of_string_of_list_ascii. rewrite parse_rel_digit_first by assumption.
  reflexivity.
Qed.

Lemma iso_date_text_head y4 m2 d2 tail :
  all_digits y4 = true -> length y4 = 4%nat ->
  exists c r, iso_date_text y4 m2 d2 tail = c :: r /\ is_digit c = true.
Proof.
  intros Hd Hl. destruct y4 as [|c r]; [discriminate|]. exists c, (r ++ "-"%char :: m2 ++ "-"%char :: d2 ++ tail).
  split; [reflexivity|]. cbn [all_digits forallb] in Hd. apply andb_true_iff in Hd. tauto.
Qed.

(* a date bound written YYYY-MM-DD denotes that day of the calendar *)
Lemma spec_of_text_date y4 m2 d2 :
  fields_ok [(y4, 4%nat); (m2, 2%nat); (d2, 2%nat)] ->
  valid_date (dval 0 y4) (dval 0 m2) (dval 0 d2) = true ->
  spec_of_text (string_of_list_ascii (iso_date_text y4 m2 d2 []))
  = SDate (days_of_civil (dval 0 y4) (dval 0 m2) (dval 0 d2)).
Proof.
  intros H Hv. pose proof (parse_iso_date y4 m2 d2 H) as Hp.
  inversion H as [|? ? (Hy & Hyl) _]; subst. cbn [fst snd] in *.
  destruct (iso_date_text_head y4 m2 d2 [] Hy Hyl) as (c & r & Ht & Hc).
  rewrite Ht in *. rewrite spec_of_text_digit_first by assumption. rewrite Hp, Hv. reflexivity.
Qed.

(* a datetime bound written in ISO form denotes that reading of the clock at that UTC offset *)
Lemma spec_of_text_datetime y4 m2 d2 sep h2 mi2 s2 f z :
  fields_ok [(y4, 4%nat); (m2, 2%nat); (d2, 2%nat); (h2, 2%nat); (mi2, 2%nat); (s2, 2%nat)] ->
  is_sep sep = true -> frac_ok f -> zone_ok z ->
  valid_date (dval 0 y4) (dval 0 m2) (dval 0 d2) = true ->
  valid_time (dval 0 h2) (dval 0 mi2) (dval 0 s2) = true ->
  spec_of_text (string_of_list_ascii (iso_date_text y4 m2 d2 (iso_time_text sep h2 mi2 s2 f z)))
  = SStamp (mkStamp ((days_of_civil (dval 0 y4) (dval 0 m2) (dval 0 d2) * DAY
                      + dval 0 h2 * 3600 + dval 0 mi2 * 60 + dval 0 s2) * US + frac_val f) (zone_val z)).
Proof.
  intros H Hsep Hf Hz Hv Ht.
  pose proof (parse_iso_datetime y4 m2 d2 sep h2 mi2 s2 f z H Hsep Hf Hz) as Hp.
  inversion H as [|? ? (Hy & Hyl) _]; subst. cbn [fst snd] in *.
  destruct (iso_date_text_head y4 m2 d2 (iso_time_text sep h2 mi2 s2 f z) Hy Hyl) as (c & r & Hx & Hc).
  rewrite Hx in *. rewrite spec_of_text_digit_first by assumption. rewrite Hp, Hv, Ht. reflexivity.
Qed.

(* the instant such a bound denotes for datetime_between: reading minus offset; naive = UTC *)
Lemma datetime_text_instant c y4 m2 d2 sep h2 mi2 s2 f z :
  fields_ok [(y4, 4%nat); (m2, 2%nat); (d2, 2%nat); (h2, 2%nat); (mi2, 2%nat); (s2, 2%nat)] ->
  is_sep sep = true -> frac_ok f -> zone_ok z ->
  valid_date (dval 0 y4) (dval 0 m2) (dval 0 d2) = true ->
  valid_time (dval 0 h2) (dval 0 mi2) (dval 0 s2) = true ->
  exists ps,
    parse_datetimespec c (spec_of_text (string_of_list_ascii
       (iso_date_text y4 m2 d2 (iso_time_text sep h2 mi2 s2 f z)))) = Ok ps /\
    instant ps = (days_of_civil (dval 0 y4) (dval 0 m2) (dval 0 d2) * DAY
                  + dval 0 h2 * 3600 + dval 0 mi2 * 60 + dval 0 s2) * US + frac_val f
                 - match zone_val z with Some o => o * US | None => 0 end.
Proof.
  intros. rewrite spec_of_text_datetime by assumption.
  destruct (parse_datetimespec_meaning c) as (Hs & _).
  destruct (Hs ((days_of_civil (dval 0 y4) (dval 0 m2) (dval 0 d2) * DAY + dval 0 h2 * 3600 + dval 0 mi2 * 60 + dval 0 s2) * US + frac_val f) (zone_val z))
    as (ps & Hps & Hi).
  exists ps. split; [assumption|]. rewrite Hi. unfold instant. cbn [wall off]. reflexivity.
Qed.

(* ------------------------------------------------------------------ round 5: the source of the draws *)

(* value equality across processes IS draw equality: random_number is injective in the draw *)
Lemma stuck_values_iff_stuck_draws mn mx step draw es :
  mn <= mx -> 1 <= step ->
  (forall e, In e es -> 0 <= draw e < (mx - mn) / step + 1) ->
  (stuck (number_at mn mx step draw) es <-> stuck draw es).
Proof.
  intros H Hs Hr.
  destruct (random_number_lattice mn mx step H Hs) as (n & _ & Hn & _ & Hk). subst n.
  split; intros St e e' He He'.
  - specialize (St e e' He He'). unfold number_at in St.
    destruct (Hk (draw e) (Hr e He)) as (E1 & _). destruct (Hk (draw e') (Hr e' He')) as (E2 & _).
    rewrite E1, E2 in St. injection St as St. nia.
  - unfold number_at. rewrite (St e e' He He'). reflexivity.
Qed.

(* a position whose draw is the same in every process shows ONE lattice point: with at least two
   points on the lattice, the two ends are not both produced, however many processes are run *)
Lemma reseeded_source_misses_an_end mn mx step draw es :
  mn + step <= mx -> 1 <= step -> stuck draw es ->
  ~ (In (Ok mn) (values_over mn mx step draw es) /\
     In (Ok (mx - (mx - mn) mod step)) (values_over mn mx step draw es)).
Proof.
  intros H Hs St (I1 & I2). unfold values_over in *.
  apply in_map_iff in I1. destruct I1 as (e1 & E1 & He1).
  apply in_map_iff in I2. destruct I2 as (e2 & E2 & He2).
  unfold number_at in *. rewrite (St e1 e2 He1 He2) in E1. rewrite E1 in E2.
  injection E2 as E2.
  pose proof (Z.mod_pos_bound (mx - mn) step ltac:(lia)). lia.
Qed.

(* ... whereas two processes whose draws are the lowest and the highest one show both ends *)
Lemma free_source_reaches_both_ends mn mx step draw e0 e1 :
  mn <= mx -> 1 <= step -> draw e0 = 0 -> draw e1 = (mx - mn) / step ->
  values_over mn mx step draw [e0; e1] = [Ok mn; Ok (mx - (mx - mn) mod step)].
Proof.
  intros H Hs D0 D1.
  destruct (random_number_lattice mn mx step H Hs) as (n & _ & Hn & _ & Hk). subst n.
  assert (Hq : 0 <= (mx - mn) / step) by (apply Z.div_pos; lia).
  unfold values_over, number_at. cbn [map]. rewrite D0, D1.
  destruct (Hk 0 ltac:(lia)) as (E0 & _). destruct (Hk ((mx - mn) / step) ltac:(lia)) as (E1 & _).
  rewrite E0, E1. f_equal; [f_equal; lia |]. f_equal. f_equal.
  pose proof (Z.div_mod (mx - mn) step ltac:(lia)). lia.
Qed.
