(* StoppingP.v — proofs about theories/Stopping.v (property C07). *)
From Coq Require Import Lia ZifyBool.
From SFV Require Import Base Stopping.
Import ListNotations. Open Scope Z_scope.

Ltac splits := repeat match goal with |- _ /\ _ => split end.

(* ------------------------------------------------------------------ lists *)

Lemma zsum_nil : zsum [] = 0.
Proof. reflexivity. Qed.

Lemma zsum_cons r l : zsum (r :: l) = r + zsum l.
Proof. reflexivity. Qed.

Lemma zsum_app l1 l2 : zsum (l1 ++ l2) = zsum l1 + zsum l2.
Proof.
  induction l1 as [|x l1 IH]; cbn [List.app].
  - rewrite zsum_nil. lia.
  - rewrite !zsum_cons, IH. lia.
Qed.

Lemma firstn_S_cons {A} (x : A) l i : firstn (S i) (x :: l) = x :: firstn i l.
Proof. reflexivity. Qed.

Lemma zsum_nonneg l : Forall (fun r => 0 <= r) l -> 0 <= zsum l.
Proof.
  induction 1 as [|x l Hx _ IH].
  - rewrite zsum_nil. lia.
  - rewrite zsum_cons. lia.
Qed.

(* ------------------------------------------------------------------ the three shapes of the loop *)

(* row-count criterion with progress check: s = starting_id, L = last used id, tid = target id *)
Fixpoint tloop (rs : list Z) (j : nat) (s L tid : Z) : outcome :=
  match rs with
  | [] => Exhausted j
  | r :: rest =>
    if L + r =? s then Failed (S j) runtime_error
    else if tid <=? L + r then Stopped (S j) (L + r)
    else tloop rest (S j) (L + r) (L + r) tid
  end.

(* repetition criterion: c = rep_count, k = count *)
Fixpoint rloop (rs : list Z) (j : nat) (c k L : Z) : outcome :=
  match rs with
  | [] => Exhausted j
  | r :: rest =>
    if k <=? c + 1 then Stopped (S j) (L + r)
    else rloop rest (S j) (c + 1) k (L + r)
  end.

Lemma proper_eqb T : proper_table T -> String.eqb T COUNT_REPS = false.
Proof. intros H. apply String.eqb_neq; assumption. Qed.

(* the reference id of the progress check *)
Definition eff_s (a : app) (m : idm) : Z :=
  if a_rep_count a =? 0 then start_of m - 1 else a_starting_id a.

Lemma target_id_step a m r s c :
  target_id (mkApp (a_crit a) s c) (generate_ids m r) = target_id a m.
Proof. reflexivity. Qed.

Lemma loop_cons_target T r rest j a m : proper_table T -> c_table (a_crit a) = T ->
  loop (r :: rest) j a m =
  if m_last m + r =? eff_s a m then Failed (S j) runtime_error
  else if target_id a m <=? m_last m + r then Stopped (S j) (m_last m + r)
  else loop rest (S j) (mkApp (a_crit a) (m_last m + r) (a_rep_count a + 1)) (generate_ids m r).
Proof.
  intros HT Ha. pose proof (proper_eqb T HT) as E1.
  cbn [loop]. unfold ensure_progress, stopping_tablename. rewrite Ha, E1.
  change (start_of (generate_ids m r)) with (start_of m).
  change (m_last (generate_ids m r)) with (m_last m + r).
  fold (eff_s a m).
  destruct (m_last m + r =? eff_s a m) eqn:Es; [reflexivity|].
  unfold check_finished. cbn [a_crit a_starting_id a_rep_count]. rewrite Ha, E1.
  rewrite target_id_step. change (m_last (generate_ids m r)) with (m_last m + r).
  destruct (target_id a m <=? m_last m + r) eqn:Et; reflexivity.
Qed.

Lemma loop_is_tloop T rs : proper_table T -> forall j a m,
  c_table (a_crit a) = T -> 0 <= a_rep_count a ->
  loop rs j a m = tloop rs j (eff_s a m) (m_last m) (target_id a m).
Proof.
  intros HT.
  induction rs as [|r rest IH]; intros j a m Ha Hc; [reflexivity|].
  rewrite (loop_cons_target T) by assumption. cbn [tloop].
  destruct (m_last m + r =? eff_s a m) eqn:Es; [reflexivity|].
  destruct (target_id a m <=? m_last m + r) eqn:Et; [reflexivity|].
  rewrite IH; [| cbn [a_crit]; exact Ha | cbn [a_rep_count]; lia].
  rewrite target_id_step. unfold eff_s at 1. cbn [a_rep_count a_starting_id].
  destruct (a_rep_count a + 1 =? 0) eqn:E0; [lia|]. reflexivity.
Qed.

Lemma loop_cons_reps r rest j a m : c_table (a_crit a) = COUNT_REPS ->
  loop (r :: rest) j a m =
  if c_count (a_crit a) <=? a_rep_count a + 1 then Stopped (S j) (m_last m + r)
  else loop rest (S j) (mkApp (a_crit a) (a_starting_id a) (a_rep_count a + 1)) (generate_ids m r).
Proof.
  intros Ha.
  cbn [loop]. unfold ensure_progress, stopping_tablename. rewrite Ha.
  rewrite String.eqb_refl.
  unfold check_finished. rewrite Ha, String.eqb_refl.
  cbn [a_crit a_rep_count]. change (m_last (generate_ids m r)) with (m_last m + r).
  destruct (c_count (a_crit a) <=? a_rep_count a + 1) eqn:Ek; reflexivity.
Qed.

Lemma loop_is_rloop rs : forall j a m,
  c_table (a_crit a) = COUNT_REPS ->
  loop rs j a m = rloop rs j (a_rep_count a) (c_count (a_crit a)) (m_last m).
Proof.
  induction rs as [|r rest IH]; intros j a m Ha; [reflexivity|].
  rewrite loop_cons_reps by assumption. cbn [rloop].
  destruct (c_count (a_crit a) <=? a_rep_count a + 1) eqn:Ek; [reflexivity|].
  rewrite IH by (cbn [a_crit]; exact Ha). reflexivity.
Qed.

(* ------------------------------------------------------------------ tloop: forward lemmas *)

Lemma tloop_stop : forall pre x rest j s L tid,
  s <= L -> Forall (fun r => 1 <= r) pre ->
  (forall i, (i <= length pre)%nat -> L + zsum (firstn i pre) < tid) ->
  tid <= L + zsum pre + x ->
  tloop (pre ++ x :: rest) j s L tid = Stopped (j + length pre + 1) (L + zsum pre + x).
Proof.
  induction pre as [|r pre IH]; intros x rest j s L tid Hs Hp Hb Ht.
  - cbn [List.app tloop length]. rewrite zsum_nil in *.
    pose proof (Hb 0%nat (Nat.le_0_l _)) as H0. cbn [firstn] in H0. rewrite zsum_nil in H0.
    destruct (L + x =? s) eqn:E1; [lia|].
    destruct (tid <=? L + x) eqn:E2; [|lia].
    f_equal; lia.
  - cbn [List.app tloop length]. inversion Hp as [|? ? Hr Hp']; subst.
    pose proof (Hb 1%nat ltac:(cbn [length]; lia)) as H1.
    rewrite firstn_S_cons in H1. cbn [firstn] in H1. rewrite zsum_cons, zsum_nil in H1.
    destruct (L + r =? s) eqn:E1; [lia|].
    destruct (tid <=? L + r) eqn:E2; [lia|].
    rewrite zsum_cons in Ht.
    assert (Hb' : forall i, (i <= length pre)%nat -> L + r + zsum (firstn i pre) < tid).
    { intros i Hi. pose proof (Hb (S i) ltac:(cbn [length]; lia)) as Hi'.
      rewrite firstn_S_cons, zsum_cons in Hi'. lia. }
    rewrite (IH x rest (S j) (L + r) (L + r) tid (Z.le_refl _) Hp' Hb' ltac:(lia)).
    rewrite zsum_cons. f_equal; lia.
Qed.

Lemma tloop_fail : forall pre rest j s L tid,
  s <= L -> (pre = [] -> s = L) -> Forall (fun r => 1 <= r) pre ->
  (forall i, (i <= length pre)%nat -> L + zsum (firstn i pre) < tid) ->
  tloop (pre ++ 0 :: rest) j s L tid = Failed (j + length pre + 1) runtime_error.
Proof.
  induction pre as [|r pre IH]; intros rest j s L tid Hs He Hp Hb.
  - cbn [List.app tloop length]. specialize (He eq_refl).
    destruct (L + 0 =? s) eqn:E1; [|lia]. f_equal; lia.
  - cbn [List.app tloop length]. inversion Hp as [|? ? Hr Hp']; subst.
    pose proof (Hb 1%nat ltac:(cbn [length]; lia)) as H1.
    rewrite firstn_S_cons in H1. cbn [firstn] in H1. rewrite zsum_cons, zsum_nil in H1.
    destruct (L + r =? s) eqn:E1; [lia|].
    destruct (tid <=? L + r) eqn:E2; [lia|].
    assert (Hb' : forall i, (i <= length pre)%nat -> L + r + zsum (firstn i pre) < tid).
    { intros i Hi. pose proof (Hb (S i) ltac:(cbn [length]; lia)) as Hi'.
      rewrite firstn_S_cons, zsum_cons in Hi'. lia. }
    rewrite (IH rest (S j) (L + r) (L + r) tid (Z.le_refl _) (fun _ => eq_refl) Hp' Hb').
    f_equal; lia.
Qed.

(* ------------------------------------------------------------------ tloop: inversion lemmas *)

Lemma tloop_stopped_inv : forall rs j s L tid j' L',
  tloop rs j s L tid = Stopped j' L' ->
  exists n, j' = (j + n)%nat /\ (1 <= n <= length rs)%nat /\
            L' = L + zsum (firstn n rs) /\ tid <= L' /\
            forall i, (1 <= i < n)%nat -> L + zsum (firstn i rs) < tid.
Proof.
  induction rs as [|r rest IH]; intros j s L tid j' L' H; cbn [tloop] in H; [discriminate|].
  destruct (L + r =? s) eqn:E1; [discriminate|].
  destruct (tid <=? L + r) eqn:E2.
  - inversion H; subst. exists 1%nat. cbn [length]. rewrite firstn_S_cons. cbn [firstn].
    rewrite zsum_cons, zsum_nil. splits; try lia.
  - apply IH in H. destruct H as (n & Hj & Hn & HL & Ht & Hb).
    exists (S n). cbn [length]. rewrite firstn_S_cons, zsum_cons. splits; try lia.
    intros i Hi. destruct i as [|i]; [lia|].
    rewrite firstn_S_cons, zsum_cons.
    destruct i as [|i].
    + cbn [firstn]. rewrite zsum_nil. lia.
    + specialize (Hb (S i) ltac:(lia)). lia.
Qed.

Lemma tloop_failed_inv : forall rs j s L tid j' e,
  tloop rs j s L tid = Failed j' e ->
  exists n x, j' = (j + S n)%nat /\ nth_error rs n = Some x /\ e = runtime_error /\
              (n = 0%nat -> L + x = s) /\ (n <> 0%nat -> x = 0) /\
              forall i, (1 <= i <= n)%nat -> L + zsum (firstn i rs) < tid.
Proof.
  induction rs as [|r rest IH]; intros j s L tid j' e H; cbn [tloop] in H; [discriminate|].
  destruct (L + r =? s) eqn:E1.
  - inversion H; subst. exists 0%nat, r. cbn [nth_error]. splits; try lia; try reflexivity.
  - destruct (tid <=? L + r) eqn:E2; [discriminate|].
    apply IH in H. destruct H as (n & x & Hj & Hn & He & H0 & H1 & Hb).
    exists (S n), x. cbn [nth_error].
    split; [lia|]. split; [exact Hn|]. split; [exact He|]. split; [intros; lia|]. split.
    + intros _. destruct n as [|n]; [specialize (H0 eq_refl); lia | apply H1; lia].
    + intros i Hi. destruct i as [|i]; [lia|].
      rewrite firstn_S_cons, zsum_cons.
      destruct i as [|i].
      * cbn [firstn]. rewrite zsum_nil. lia.
      * specialize (Hb (S i) ltac:(lia)). lia.
Qed.

(* ------------------------------------------------------------------ tloop: termination *)

Lemma tloop_strict_term : forall rs j L tid,
  Forall (fun r => 0 <= r) rs ->
  Z.of_nat (length rs) >= Z.max 1 (tid - L) ->
  forall n, tloop rs j L L tid <> Exhausted n.
Proof.
  induction rs as [|r rest IH]; intros j L tid Hp Hlen n.
  - cbn [length] in Hlen. lia.
  - cbn [tloop]. inversion Hp as [|? ? Hr Hp']; subst.
    destruct (L + r =? L) eqn:E1; [discriminate|].
    destruct (tid <=? L + r) eqn:E2; [discriminate|].
    apply IH; [assumption|]. cbn [length] in Hlen. lia.
Qed.

Lemma tloop_term : forall rs j s L tid,
  s <= L -> Forall (fun r => 0 <= r) rs ->
  Z.of_nat (length rs) >= Z.max 1 (tid - L) + 1 ->
  forall n, tloop rs j s L tid <> Exhausted n.
Proof.
  intros rs j s L tid Hs Hp Hlen n.
  destruct rs as [|r rest]; [cbn [length] in Hlen; lia|].
  cbn [tloop]. inversion Hp as [|? ? Hr Hp']; subst.
  destruct (L + r =? s) eqn:E1; [discriminate|].
  destruct (tid <=? L + r) eqn:E2; [discriminate|].
  apply tloop_strict_term; [assumption|]. cbn [length] in Hlen. lia.
Qed.

Lemma tloop_progress : forall rs j s L tid,
  s <= L -> Forall (fun r => 1 <= r) rs ->
  Z.of_nat (length rs) >= Z.max 1 (tid - L) ->
  exists n L', tloop rs j s L tid = Stopped (j + n) L' /\ Z.of_nat n <= Z.max 1 (tid - L).
Proof.
  induction rs as [|r rest IH]; intros j s L tid Hs Hp Hlen.
  - cbn [length] in Hlen. lia.
  - cbn [tloop]. inversion Hp as [|? ? Hr Hp']; subst.
    destruct (L + r =? s) eqn:E1; [lia|].
    destruct (tid <=? L + r) eqn:E2.
    + exists 1%nat, (L + r). split; [f_equal; lia | lia].
    + destruct (IH (S j) (L + r) (L + r) tid) as (n & L' & Hn & Hb);
        [lia | assumption | cbn [length] in Hlen; lia |].
      exists (S n), L'. split; [rewrite Hn; f_equal; lia | lia].
Qed.

(* ------------------------------------------------------------------ tloop: translation *)

Lemma tloop_shift : forall rs j s L tid d,
  tloop rs j (s + d) (L + d) (tid + d) = shift_outcome d (tloop rs j s L tid).
Proof.
  induction rs as [|r rest IH]; intros j s L tid d; cbn [tloop]; [reflexivity|].
  replace (L + d + r) with (L + r + d) by lia.
  destruct (L + r =? s) eqn:E1.
  - destruct (L + r + d =? s + d) eqn:E1'; [reflexivity | lia].
  - destruct (L + r + d =? s + d) eqn:E1'; [lia|].
    destruct (tid <=? L + r) eqn:E2.
    + destruct (tid + d <=? L + r + d) eqn:E2'; [reflexivity | lia].
    + destruct (tid + d <=? L + r + d) eqn:E2'; [lia|]. apply IH.
Qed.

(* ------------------------------------------------------------------ rloop *)

Lemma rloop_exact : forall pre x rest j c k L,
  Z.of_nat (length pre) = Z.max 1 (k - c) - 1 ->
  rloop (pre ++ x :: rest) j c k L = Stopped (j + length pre + 1) (L + zsum pre + x).
Proof.
  induction pre as [|r pre IH]; intros x rest j c k L Hlen.
  - cbn [List.app rloop length] in *. rewrite zsum_nil.
    destruct (k <=? c + 1) eqn:E; [f_equal; lia | lia].
  - cbn [List.app rloop length] in *.
    destruct (k <=? c + 1) eqn:E; [lia|].
    rewrite IH by lia. rewrite zsum_cons. f_equal; lia.
Qed.

(* ------------------------------------------------------------------ run, unfolded *)

Lemma In_existsb T tables : In T tables -> existsb (String.eqb T) tables = true.
Proof.
  intros H. apply existsb_exists. exists T. split; [assumption | apply String.eqb_refl].
Qed.

Lemma notIn_existsb T tables : ~ In T tables -> existsb (String.eqb T) tables = false.
Proof.
  intros H. destruct (existsb (String.eqb T) tables) eqn:E; [|reflexivity].
  apply existsb_exists in E. destruct E as (x & Hx & Heq).
  apply String.eqb_eq in Heq. subst. contradiction.
Qed.

Lemma run_target T N tables cont rs :
  proper_table T -> In T tables ->
  run tables (Some (mkCrit T N)) cont rs
  = tloop rs 0 (base cont) (base cont) (base cont + N).
Proof.
  intros HT Hin. pose proof (proper_eqb T HT) as E1.
  unfold run, interp_init, stopping_tablename, new_app. cbn [a_crit c_table].
  rewrite E1, (In_existsb _ _ Hin). cbn [negb].
  rewrite (loop_is_tloop T rs HT) by (cbn [a_crit c_table a_rep_count]; first [reflexivity | lia]).
  unfold eff_s, target_id, start_of. cbn [a_crit c_count a_rep_count Z.eqb].
  destruct cont as [l|]; cbn [init_idm restored_idm fresh_idm m_last m_start base];
    f_equal; lia.
Qed.

Lemma run_reps k tables cont rs :
  run tables (Some (mkCrit COUNT_REPS k)) cont rs = rloop rs 0 0 k (base cont).
Proof.
  unfold run, interp_init, stopping_tablename, new_app. cbn [a_crit c_table].
  rewrite String.eqb_refl.
  rewrite loop_is_rloop by reflexivity.
  cbn [a_rep_count a_crit c_count].
  destruct cont as [l|]; reflexivity.
Qed.

(* ------------------------------------------------------------------ theorems *)

(* repetition criterion *)
Theorem reps_exact : forall tables k cont pre x rest,
  1 <= k -> Z.of_nat (length pre) + 1 = k ->
  run tables (Some (mkCrit COUNT_REPS k)) cont (pre ++ x :: rest)
  = Stopped (length pre + 1) (base cont + zsum pre + x).
Proof.
  intros. rewrite run_reps. rewrite rloop_exact by lia. reflexivity.
Qed.

Theorem default_one_iteration : forall tables cont x rest,
  run tables None cont (x :: rest) = Stopped 1 (base cont + x).
Proof.
  intros. change (run tables None cont (x :: rest))
    with (run tables (Some (mkCrit COUNT_REPS 1)) cont ([] ++ x :: rest)).
  rewrite reps_exact by (cbn [length]; lia). rewrite zsum_nil. cbn [length]. f_equal. lia.
Qed.

(* row-count criterion: the run stops exactly at the first boundary with >= N rows *)
Theorem target_stops_at_first_boundary : forall T tables N cont pre x rest,
  proper_table T -> In T tables -> 1 <= N ->
  Forall (fun r => 1 <= r) pre ->
  (forall i, (i <= length pre)%nat -> zsum (firstn i pre) < N) ->
  N <= zsum pre + x ->
  run tables (Some (mkCrit T N)) cont (pre ++ x :: rest)
  = Stopped (length pre + 1) (base cont + zsum pre + x).
Proof.
  intros T tables N cont pre x rest HT Hin HN Hp Hb Hx.
  rewrite run_target by assumption.
  assert (Hb' : forall i, (i <= length pre)%nat ->
                          base cont + zsum (firstn i pre) < base cont + N)
    by (intros i Hi; specialize (Hb i Hi); lia).
  rewrite (tloop_stop pre x rest 0 _ (base cont) (base cont + N) (Z.le_refl _) Hp Hb' ltac:(lia)).
  reflexivity.
Qed.

Theorem target_stop_is_first_boundary : forall T tables N cont rs j last,
  proper_table T -> In T tables ->
  run tables (Some (mkCrit T N)) cont rs = Stopped j last ->
  (1 <= j <= length rs)%nat /\
  last = base cont + zsum (firstn j rs) /\
  N <= zsum (firstn j rs) /\
  forall i, (1 <= i < j)%nat -> zsum (firstn i rs) < N.
Proof.
  intros T tables N cont rs j last HT Hin H.
  rewrite run_target in H by assumption.
  apply tloop_stopped_inv in H. destruct H as (n & Hj & Hn & HL & Ht & Hb).
  cbn [Nat.add] in Hj. subst j. splits; try lia.
  intros i Hi. specialize (Hb i Hi). lia.
Qed.

Theorem target_error_only_without_progress : forall T tables N cont rs j e,
  proper_table T -> In T tables ->
  run tables (Some (mkCrit T N)) cont rs = Failed j e ->
  exists n, j = S n /\ e = runtime_error /\ nth_error rs n = Some 0 /\
            forall i, (1 <= i <= n)%nat -> zsum (firstn i rs) < N.
Proof.
  intros T tables N cont rs j e HT Hin H.
  rewrite run_target in H by assumption.
  apply tloop_failed_inv in H. destruct H as (n & x & Hj & Hn & He & H0 & H1 & Hb).
  exists n. cbn [Nat.add] in Hj. splits; try assumption.
  - destruct n as [|n].
    + specialize (H0 eq_refl). assert (x = 0) by lia. subst. assumption.
    + rewrite H1 in Hn by lia. assumption.
  - intros i Hi. specialize (Hb i Hi). lia.
Qed.

Theorem target_terminates : forall T tables N cont rs,
  proper_table T -> In T tables -> 1 <= N ->
  Forall (fun r => 0 <= r) rs ->
  Z.of_nat (length rs) >= N ->
  forall n, run tables (Some (mkCrit T N)) cont rs <> Exhausted n.
Proof.
  intros T tables N cont rs HT Hin HN Hp Hlen n.
  rewrite run_target by assumption.
  apply tloop_strict_term; try assumption. lia.
Qed.

Theorem target_progress_bound : forall T tables N cont rs,
  proper_table T -> In T tables -> 1 <= N ->
  Forall (fun r => 1 <= r) rs -> Z.of_nat (length rs) >= N ->
  exists j, (1 <= j)%nat /\ Z.of_nat j <= N /\
    run tables (Some (mkCrit T N)) cont rs = Stopped j (base cont + zsum (firstn j rs)) /\
    N <= zsum (firstn j rs) /\
    forall i, (1 <= i < j)%nat -> zsum (firstn i rs) < N.
Proof.
  intros T tables N cont rs HT Hin HN Hp Hlen.
  pose proof (run_target T N tables cont rs HT Hin) as Hrun.
  destruct (tloop_progress rs 0 (base cont) (base cont) (base cont + N)) as (n & L' & Hn & Hb);
    [lia | assumption | lia |].
  rewrite <- Hrun in Hn. cbn [Nat.add] in Hn.
  destruct (target_stop_is_first_boundary _ _ _ _ _ _ _ HT Hin Hn) as (H1 & H2 & H3 & H4).
  exists n. subst L'. splits; try lia; assumption.
Qed.

(* every no-progress iteration, fresh or continued, first or later *)
Theorem no_progress : forall T tables N cont pre rest,
  proper_table T -> In T tables -> 1 <= N ->
  Forall (fun r => 1 <= r) pre ->
  (forall i, (i <= length pre)%nat -> zsum (firstn i pre) < N) ->
  run tables (Some (mkCrit T N)) cont (pre ++ 0 :: rest)
  = Failed (length pre + 1) runtime_error.
Proof.
  intros T tables N cont pre rest HT Hin HN Hp Hb.
  rewrite run_target by assumption.
  assert (Hb' : forall i, (i <= length pre)%nat ->
                          base cont + zsum (firstn i pre) < base cont + N)
    by (intros i Hi; specialize (Hb i Hi); lia).
  rewrite (tloop_fail pre rest 0 _ _ _ (Z.le_refl _) (fun _ => eq_refl) Hp Hb').
  reflexivity.
Qed.

Theorem relative_after_continuation : forall T tables N last0 rs,
  proper_table T -> In T tables ->
  run tables (Some (mkCrit T N)) (Some last0) rs
  = shift_outcome last0 (run tables (Some (mkCrit T N)) None rs).
Proof.
  intros T tables N last0 rs HT Hin.
  rewrite !run_target by assumption. cbn [base].
  rewrite <- tloop_shift. f_equal; lia.
Qed.

Theorem unknown_table_rejected : forall T tables N cont rs,
  proper_table T -> ~ In T tables ->
  exists kind, run tables (Some (mkCrit T N)) cont rs = Failed 0 (DGE kind).
Proof.
  intros T tables N cont rs HT Hin. pose proof (proper_eqb T HT) as E1.
  unfold run, interp_init, stopping_tablename, new_app. cbn [a_crit c_table].
  rewrite E1, (notIn_existsb _ _ Hin). cbn [negb].
  eexists. reflexivity.
Qed.

Theorem empty_table_name_rejected : forall tables N cont rs,
  ~ In ""%string tables ->
  exists kind, run tables (Some (mkCrit "" N)) cont rs = Failed 0 (DGE kind).
Proof.
  intros. apply unknown_table_rejected; [|assumption].
  intros E. discriminate E.
Qed.

(* ------------------------------------------------------------------ a reused application object *)

Lemma final_app_stopped T rs : proper_table T -> forall j a m n last,
  c_table (a_crit a) = T -> 0 <= a_rep_count a ->
  loop rs j a m = Stopped n last ->
  a_crit (final_app rs a m) = a_crit a /\
  a_starting_id (final_app rs a m) = last /\
  1 <= a_rep_count (final_app rs a m).
Proof.
  intros HT. pose proof (proper_eqb T HT) as E1.
  induction rs as [|r rest IH]; intros j a m n last Ha Hc H; [discriminate H|].
  rewrite (loop_cons_target T) in H by assumption.
  cbn [final_app]. unfold ensure_progress, stopping_tablename. rewrite Ha, E1.
  change (start_of (generate_ids m r)) with (start_of m).
  change (m_last (generate_ids m r)) with (m_last m + r).
  fold (eff_s a m).
  destruct (m_last m + r =? eff_s a m) eqn:Es; [discriminate H|].
  unfold check_finished. cbn [a_crit a_starting_id a_rep_count]. rewrite Ha, E1.
  rewrite target_id_step. change (m_last (generate_ids m r)) with (m_last m + r).
  destruct (target_id a m <=? m_last m + r) eqn:Et.
  - inversion H; subst. cbn [a_crit a_starting_id a_rep_count]. splits; try reflexivity. lia.
  - apply IH in H; [| cbn [a_crit]; exact Ha | cbn [a_rep_count]; lia].
    destruct H as (H1 & H2 & H3). cbn [a_crit] in H1. splits; assumption.
Qed.

(* An application object that already drove a run ending at id [last0] decides the continuation
   of that run exactly like a new object with the same criterion. *)
Theorem reused_application_same_as_new : forall T tables N last0 a rs,
  proper_table T -> a_crit a = mkCrit T N -> a_starting_id a = last0 -> 1 <= a_rep_count a ->
  run_with tables a (Some last0) rs = run tables (Some (mkCrit T N)) (Some last0) rs.
Proof.
  intros T tables N last0 a rs HT Hcrit Hs Hc. pose proof (proper_eqb T HT) as E1.
  unfold run_with, run, interp_init, stopping_tablename, new_app. rewrite Hcrit. cbn [a_crit c_table].
  rewrite E1.
  destruct (negb (existsb (String.eqb T) tables)); [reflexivity|].
  rewrite (loop_is_tloop T rs HT 0%nat a) by (first [rewrite Hcrit; reflexivity | lia]).
  rewrite (loop_is_tloop T rs HT 0%nat (mkApp (mkCrit T N) 0 0))
    by (cbn [a_crit c_table a_rep_count]; first [reflexivity | lia]).
  unfold eff_s, target_id, start_of. rewrite Hcrit. cbn [a_crit c_count a_rep_count Z.eqb].
  destruct (a_rep_count a =? 0) eqn:E0; [lia|].
  cbn [init_idm restored_idm m_start m_last]. f_equal; lia.
Qed.

(* ------------------------------------------------------------------ infinite sequences *)

Lemma prefix_length r n : length (prefix r n) = n.
Proof. unfold prefix. rewrite map_length, seq_length. reflexivity. Qed.

Lemma prefix_Forall (P : Z -> Prop) r n : (forall j, P (r j)) -> Forall P (prefix r n).
Proof.
  intros H. unfold prefix. apply Forall_forall. intros x Hx.
  apply in_map_iff in Hx. destruct Hx as (j & <- & _). apply H.
Qed.

Lemma firstn_prefix r j n : (j <= n)%nat -> firstn j (prefix r n) = prefix r j.
Proof.
  intros H. unfold prefix. rewrite firstn_map. f_equal.
  replace n with (j + (n - j))%nat by lia. rewrite seq_app.
  rewrite firstn_app, seq_length, Nat.sub_diag. cbn [firstn]. rewrite app_nil_r.
  apply firstn_all2. rewrite seq_length. lia.
Qed.

Theorem target_first_boundary_stream : forall T tables N cont (r : nat -> Z) fuel,
  proper_table T -> In T tables -> 1 <= N ->
  (forall j, 1 <= r j) -> Z.of_nat fuel >= N ->
  exists j, (1 <= j)%nat /\ Z.of_nat j <= N /\
    run tables (Some (mkCrit T N)) cont (prefix r fuel)
    = Stopped j (base cont + zsum (prefix r j)) /\
    N <= zsum (prefix r j) /\
    forall i, (1 <= i < j)%nat -> zsum (prefix r i) < N.
Proof.
  intros T tables N cont r fuel HT Hin HN Hr Hf.
  destruct (target_progress_bound T tables N cont (prefix r fuel) HT Hin HN)
    as (j & H1 & H2 & H3 & H4 & H5).
  - apply prefix_Forall. exact Hr.
  - rewrite prefix_length. exact Hf.
  - assert (Hj : (j <= fuel)%nat) by lia.
    exists j. rewrite (firstn_prefix r j fuel Hj) in *. splits; try assumption.
    intros i Hi. specialize (H5 i Hi). rewrite firstn_prefix in H5 by lia. exact H5.
Qed.
