(* UniqueIdP.v — proofs about theories/UniqueId.v (property C13). *)
From Coq Require Import ZArith List Lia Bool ZifyBool.
From SFV Require Import Base UniqueId.
From SFV.P Require Import BaseP.
Import ListNotations. Open Scope Z_scope.

Ltac splits := repeat match goal with |- _ /\ _ => split end.

(* ================================================================ positional digits *)

Definition digit (b d : Z) : Prop := 0 <= d < b.

(* no leading zero, except for the single digit string *)
Definition canon (s : list Z) : Prop :=
  match s with
  | [] => False
  | [_] => True
  | d :: _ => d <> 0
  end.

Lemma pow_len_succ b (n : nat) : b ^ Z.of_nat (S n) = b * b ^ Z.of_nat n.
Proof. rewrite Nat2Z.inj_succ, Z.pow_succ_r by lia. reflexivity. Qed.

Lemma fd_acc b t : forall a,
  fold_left (fun acc d => acc * b + d) t a = a * b ^ Z.of_nat (length t) + from_digits b t.
Proof.
  unfold from_digits. induction t as [|d t IH]; intros a.
  - cbn [fold_left length]. change (Z.of_nat 0) with 0. rewrite Z.pow_0_r. lia.
  - cbn [fold_left length]. rewrite (IH (a * b + d)), (IH (0 * b + d)), pow_len_succ. ring.
Qed.

Lemma from_digits_nil b : from_digits b [] = 0.
Proof. reflexivity. Qed.

Lemma from_digits_cons b d t :
  from_digits b (d :: t) = d * b ^ Z.of_nat (length t) + from_digits b t.
Proof.
  unfold from_digits at 1. cbn [fold_left]. rewrite fd_acc. ring.
Qed.

Lemma from_digits_app b s t :
  from_digits b (s ++ t) = from_digits b s * b ^ Z.of_nat (length t) + from_digits b t.
Proof.
  unfold from_digits at 1. rewrite fold_left_app. rewrite fd_acc. reflexivity.
Qed.

Lemma from_digits_single b d : from_digits b [d] = d.
Proof. rewrite from_digits_cons, from_digits_nil. cbn [length]. change (Z.of_nat 0) with 0. rewrite Z.pow_0_r. lia. Qed.

Lemma pow_pos b n : 2 <= b -> 0 < b ^ Z.of_nat n.
Proof. intros. apply Z.pow_pos_nonneg; lia. Qed.

Lemma fd_bounds b s : 2 <= b -> Forall (digit b) s ->
  0 <= from_digits b s < b ^ Z.of_nat (length s).
Proof.
  intros Hb. induction 1 as [|d t Hd Ht IH].
  - rewrite from_digits_nil. cbn [length]. change (Z.of_nat 0) with 0. rewrite Z.pow_0_r. lia.
  - rewrite from_digits_cons. cbn [length]. rewrite pow_len_succ.
    pose proof (pow_pos b (length t) Hb). unfold digit in Hd. nia.
Qed.

Lemma fd_inj_len b : 2 <= b -> forall s s',
  length s = length s' -> Forall (digit b) s -> Forall (digit b) s' ->
  from_digits b s = from_digits b s' -> s = s'.
Proof.
  intros Hb. induction s as [|d t IH]; intros [|d' t'] Hl Hs Hs' He; try discriminate.
  - reflexivity.
  - cbn [length] in Hl. injection Hl as Hl.
    inversion Hs as [|? ? Hd Ht]; subst. inversion Hs' as [|? ? Hd' Ht']; subst.
    rewrite !from_digits_cons in He. rewrite Hl in He.
    pose proof (fd_bounds b t Hb Ht) as B1. pose proof (fd_bounds b t' Hb Ht') as B2.
    rewrite Hl in B1. pose proof (pow_pos b (length t') Hb) as HP.
    set (P := b ^ Z.of_nat (length t')) in *.
    assert (d = d') by nia. subst d'.
    f_equal. apply IH; auto. lia.
Qed.

Lemma fd_lt_of_shorter b s s' : 2 <= b ->
  Forall (digit b) s -> Forall (digit b) s' -> canon s' -> s <> [] ->
  (length s < length s')%nat -> from_digits b s < from_digits b s'.
Proof.
  intros Hb Hs Hs' Hc Hne Hl.
  destruct s' as [|d' t']; [cbn in Hc; contradiction|].
  inversion Hs' as [|? ? Hd' Ht']; subst.
  assert (Hd1 : 1 <= d').
  { destruct t' as [|x t'].
    - destruct s; [contradiction|]. cbn [length] in Hl. lia.
    - cbn [canon] in Hc. unfold digit in Hd'. lia. }
  rewrite from_digits_cons.
  pose proof (fd_bounds b s Hb Hs) as B1. pose proof (fd_bounds b t' Hb Ht') as B2.
  assert (b ^ Z.of_nat (length s) <= b ^ Z.of_nat (length t')).
  { apply Z.pow_le_mono_r; [lia|]. cbn [length] in Hl. lia. }
  pose proof (pow_pos b (length t') Hb). nia.
Qed.

Lemma canon_nonempty s : canon s -> s <> [].
Proof. destruct s; cbn; [contradiction|discriminate]. Qed.

Lemma fd_canon_inj b s s' : 2 <= b ->
  Forall (digit b) s -> Forall (digit b) s' -> canon s -> canon s' ->
  from_digits b s = from_digits b s' -> s = s'.
Proof.
  intros Hb Hs Hs' Hc Hc' He.
  destruct (Nat.lt_trichotomy (length s) (length s')) as [H|[H|H]].
  - pose proof (fd_lt_of_shorter b s s' Hb Hs Hs' Hc' (canon_nonempty _ Hc) H). lia.
  - apply (fd_inj_len b Hb); auto.
  - pose proof (fd_lt_of_shorter b s' s Hb Hs' Hs Hc (canon_nonempty _ Hc') H). lia.
Qed.

(* ---- to_digits *)

Lemma digits_lsb_spec b : 2 <= b -> forall f n,
  0 <= n < 2 ^ Z.of_nat (S f) ->
  from_digits b (rev (digits_lsb (S f) b n)) = n /\
  Forall (digit b) (digits_lsb (S f) b n) /\
  exists d l', digits_lsb (S f) b n = l' ++ [d] /\ (0 < n -> 0 < d).
Proof.
  intros Hb. induction f as [|f IH]; intros n Hn.
  - change (2 ^ Z.of_nat 1) with 2 in Hn.
    cbn [digits_lsb]. destruct (n <? b) eqn:E; [|lia].
    cbn [rev app]. rewrite from_digits_single. splits; auto.
    + constructor; [unfold digit; lia|constructor].
    + exists n, []. split; auto.
  - remember (S f) as f1. cbn [digits_lsb]. destruct (n <? b) eqn:E.
    + cbn [rev app]. rewrite from_digits_single. splits; auto.
      * constructor; [unfold digit; lia|constructor].
      * exists n, []. split; auto.
    + assert (Hq : 0 <= n / b < 2 ^ Z.of_nat f1).
      { split; [apply Z.div_pos; lia|].
        apply Z.div_lt_upper_bound; [lia|].
        rewrite pow_len_succ in Hn. assert (0 < 2 ^ Z.of_nat f1) by (apply Z.pow_pos_nonneg; lia). nia. }
      subst f1. destruct (IH (n / b) Hq) as (Hv & Hf & d & l' & Hl & Hd).
      cbn [rev]. rewrite from_digits_app, Hv, from_digits_single.
      cbn [length]. change (Z.of_nat 1) with 1. rewrite Z.pow_1_r.
      splits.
      * pose proof (Z.div_mod n b). lia.
      * constructor; auto. unfold digit. apply Z.mod_pos_bound. lia.
      * exists d, ((n mod b) :: l'). split; [rewrite Hl; reflexivity|].
        intros _. apply Hd. apply Z.div_str_pos. lia.
Qed.

Lemma to_digits_fuel n : 0 <= n -> 0 <= n < 2 ^ Z.of_nat (S (Z.to_nat (Z.log2 n))).
Proof.
  intros Hn. rewrite Nat2Z.inj_succ, Z2Nat.id by apply Z.log2_nonneg.
  destruct (Z.eq_dec n 0) as [->|Hnz].
  - change (Z.log2 0) with 0. cbn. lia.
  - pose proof (Z.log2_spec n). lia.
Qed.

Lemma to_digits_zero b : 2 <= b -> to_digits b 0 = [0].
Proof.
  intros Hb. unfold to_digits. change (Z.log2 0) with 0. change (Z.to_nat 0) with 0%nat.
  cbn [digits_lsb]. destruct (0 <? b) eqn:E; [reflexivity|lia].
Qed.

Lemma to_digits_spec b n : 2 <= b -> 0 <= n ->
  from_digits b (to_digits b n) = n /\
  Forall (digit b) (to_digits b n) /\
  canon (to_digits b n) /\
  (0 < n -> exists d t, to_digits b n = d :: t /\ 0 < d).
Proof.
  intros Hb Hn.
  destruct (digits_lsb_spec b Hb _ n (to_digits_fuel n Hn)) as (Hv & Hf & d & l' & Hl & Hd).
  unfold to_digits. splits.
  - exact Hv.
  - apply Forall_rev. exact Hf.
  - destruct (Z.eq_dec n 0) as [->|Hnz].
    + fold (to_digits b 0). rewrite to_digits_zero by lia. exact I.
    + rewrite Hl, rev_app_distr. cbn [rev app]. destruct (rev l'); [exact I|]. cbn [canon]. lia.
  - intros Hp. rewrite Hl, rev_app_distr. cbn [rev app]. exists d, (rev l'). split; auto.
Qed.

Lemma to_digits_value b n : 2 <= b -> 0 <= n -> from_digits b (to_digits b n) = n.
Proof. intros. apply to_digits_spec; auto. Qed.

(* ================================================================ join with the digit 9 *)

Definition no9 (c : list Z) : Prop := ~ In 9 c.

(* an octal chunk: octal digits, canonical *)
Definition ochunk (c : list Z) : Prop := Forall (digit 8) c /\ canon c.

Lemma oct_ochunk n : 0 <= n -> ochunk (oct n).
Proof. intros Hn. unfold ochunk, oct. destruct (to_digits_spec 8 n) as (_ & Hf & Hc & _); try lia. auto. Qed.

Lemma ochunk_no9 c : ochunk c -> no9 c.
Proof.
  intros [Hf _] Hin. rewrite Forall_forall in Hf. specialize (Hf 9 Hin). unfold digit in Hf. lia.
Qed.

Lemma split9_unique : forall c c' x x',
  no9 c -> no9 c' -> c ++ 9 :: x = c' ++ 9 :: x' -> c = c' /\ x = x'.
Proof.
  unfold no9. induction c as [|a c IH]; intros [|a' c'] x x' H1 H2 He; cbn [app] in He.
  - injection He as He. auto.
  - injection He as Ha He. subst a'. exfalso. apply H2. cbn. auto.
  - injection He as Ha He. subst a. exfalso. apply H1. cbn. auto.
  - injection He as Ha He. subst a'.
    destruct (IH c' x x') as [-> ->]; auto.
    + intros Hin. apply H1. cbn. auto.
    + intros Hin. apply H2. cbn. auto.
Qed.

Lemma no9_not_split c c' x : no9 c -> c = c' ++ 9 :: x -> False.
Proof. intros H ->. apply H. apply in_elt. Qed.

Lemma join9_cons2 c c2 r : join9 (c :: c2 :: r) = c ++ 9 :: join9 (c2 :: r).
Proof. reflexivity. Qed.

Lemma join9_inj : forall cs cs',
  Forall no9 cs -> Forall no9 cs' -> cs <> [] -> cs' <> [] ->
  join9 cs = join9 cs' -> cs = cs'.
Proof.
  induction cs as [|c r IH]; intros cs' H1 H2 Hn1 Hn2 He; [contradiction|].
  destruct cs' as [|c' r']; [contradiction|].
  inversion H1 as [|? ? Hc Hr]; subst. inversion H2 as [|? ? Hc' Hr']; subst.
  destruct r as [|c2 r], r' as [|c2' r'].
  - cbn [join9] in He. subst. reflexivity.
  - rewrite join9_cons2 in He. change (join9 [c]) with c in He.
    exfalso. exact (no9_not_split _ _ _ Hc He).
  - rewrite join9_cons2 in He. change (join9 [c']) with c' in He.
    exfalso. exact (no9_not_split _ _ _ Hc' (eq_sym He)).
  - rewrite !join9_cons2 in He.
    destruct (split9_unique _ _ _ _ Hc Hc' He) as [-> He2].
    f_equal. apply IH; auto; discriminate.
Qed.

(* ---- the shape of a join string, and reading it as a decimal integer *)

Definition J (s : list Z) : Prop :=
  Forall (digit 10) s /\
  exists d t, s = d :: t /\ 0 <= d < 8 /\ (d = 0 -> t = [] \/ exists t', t = 9 :: t').

Lemma digit8_10 c : Forall (digit 8) c -> Forall (digit 10) c.
Proof. apply Forall_impl. unfold digit. intros; lia. Qed.

Lemma join9_digits : forall cs, Forall ochunk cs -> Forall (digit 10) (join9 cs).
Proof.
  induction cs as [|c r IH]; intros H; [constructor|].
  inversion H as [|? ? Hc Hr]; subst. destruct r as [|c2 r].
  - cbn [join9]. apply digit8_10. apply Hc.
  - rewrite join9_cons2. apply Forall_app. split; [apply digit8_10; apply Hc|].
    constructor; [unfold digit; lia|]. apply IH. exact Hr.
Qed.

Lemma join9_J cs : cs <> [] -> Forall ochunk cs -> J (join9 cs).
Proof.
  intros Hne H. split; [apply join9_digits; exact H|].
  destruct cs as [|c r]; [contradiction|].
  inversion H as [|? ? [Hf Hc] Hr]; subst.
  destruct c as [|d t]; [cbn in Hc; contradiction|].
  inversion Hf as [|? ? Hd Ht]; subst. unfold digit in Hd.
  destruct r as [|c2 r].
  - cbn [join9]. exists d, t. split; [reflexivity|split; [exact Hd|]].
    intros ->. destruct t; [auto|]. cbn [canon] in Hc. lia.
  - rewrite join9_cons2. cbn [app]. exists d, (t ++ 9 :: join9 (c2 :: r)). split; [reflexivity|split; [exact Hd|]].
    intros ->. destruct t; [|cbn [canon] in Hc; lia]. right. cbn [app]. eauto.
Qed.

(* a join string has a canonical decimal string with the same value: itself, or itself
   without the leading zero *)
Lemma J_canon s : J s ->
  exists c, Forall (digit 10) c /\ canon c /\ from_digits 10 c = from_digits 10 s /\
    ((c = s /\ exists d t, c = d :: t /\ 0 <= d < 8) \/ (s = 0 :: c /\ exists t1, c = 9 :: t1)).
Proof.
  intros (Hf & d & t & -> & Hd & H0).
  destruct (Z.eq_dec d 0) as [->|Hnz].
  - destruct (H0 eq_refl) as [->|[t1 ->]].
    + exists [0]. split; [exact Hf|]. split; [exact I|]. split; [reflexivity|].
      left. split; [reflexivity|]. exists 0, []. split; [reflexivity|lia].
    + exists (9 :: t1). inversion Hf; subst. split; [assumption|]. split.
      { destruct t1; [exact I|]. cbn [canon]. lia. }
      split.
      { rewrite (from_digits_cons 10 0 (9 :: t1)). lia. }
      right. split; [reflexivity|]. exists t1. reflexivity.
  - exists (d :: t). split; [exact Hf|]. split.
    { destruct t; [exact I|]. cbn [canon]. exact Hnz. }
    split; [reflexivity|].
    left. split; [reflexivity|]. exists d, t. split; [reflexivity|exact Hd].
Qed.

Lemma J_fd_inj s s' : J s -> J s' -> from_digits 10 s = from_digits 10 s' -> s = s'.
Proof.
  intros H1 H2 He.
  destruct (J_canon s H1) as (c & Hf & Hc & Hv & Hs).
  destruct (J_canon s' H2) as (c' & Hf' & Hc' & Hv' & Hs').
  assert (c = c') by (apply (fd_canon_inj 10); auto; lia). subst c'.
  destruct Hs as [[-> (d & t & Hdt & Hd)]|[-> (t1 & Ht1)]];
    destruct Hs' as [[-> (d' & t' & Hdt' & Hd')]|[-> (t1' & Ht1')]]; auto.
  - rewrite Hdt in Ht1'. injection Ht1' as ? ?. lia.
  - rewrite Hdt' in Ht1. injection Ht1 as ? ?. lia.
Qed.

(* ---- the tuple encoding is injective *)

Definition nonneg (l : list Z) : Prop := Forall (fun x => 0 <= x) l.

Lemma map_oct_ochunk l : nonneg l -> Forall ochunk (map oct l).
Proof. unfold nonneg. induction 1; cbn [map]; constructor; auto. apply oct_ochunk; auto. Qed.

Lemma map_oct_inj : forall l l', nonneg l -> nonneg l' -> map oct l = map oct l' -> l = l'.
Proof.
  unfold nonneg. induction l as [|x l IH]; intros [|x' l'] H1 H2 He; try discriminate; auto.
  inversion H1; subst. inversion H2; subst. cbn [map] in He. injection He as Hx He.
  f_equal; [|apply IH; auto].
  apply (f_equal (from_digits 8)) in Hx. unfold oct in Hx.
  rewrite !to_digits_value in Hx by lia. exact Hx.
Qed.

Lemma encode_inj l l' :
  l <> [] -> l' <> [] -> nonneg l -> nonneg l' -> encode l = encode l' -> l = l'.
Proof.
  intros Hn Hn' H H' He. unfold encode in He.
  assert (Hm : map oct l <> []) by (destruct l; [contradiction|discriminate]).
  assert (Hm' : map oct l' <> []) by (destruct l'; [contradiction|discriminate]).
  pose proof (map_oct_ochunk l H) as Ho. pose proof (map_oct_ochunk l' H') as Ho'.
  apply J_fd_inj in He; try (apply join9_J; auto).
  apply join9_inj in He; auto.
  - apply map_oct_inj; auto.
  - eapply Forall_impl; [|exact Ho]. apply ochunk_no9.
  - eapply Forall_impl; [|exact Ho']. apply ochunk_no9.
Qed.

(* ================================================================ templates *)

Lemma app_inj_len {A} : forall (a a' b b' : list A),
  length a = length a' -> a ++ b = a' ++ b' -> a = a' /\ b = b'.
Proof.
  induction a as [|x a IH]; intros [|x' a'] b b' Hl He; try discriminate; auto.
  cbn [app] in He. injection He as -> He. cbn [length] in Hl. injection Hl as Hl.
  destruct (IH a' b b' Hl He) as [-> ->]. auto.
Qed.

Lemma instantiate_inj tpl pid pid' c c' i i' :
  length pid = length pid' ->
  instantiate tpl pid c i = instantiate tpl pid' c' i' ->
  (In PPid tpl -> pid = pid') /\ (In PContext tpl -> c = c') /\ (In PIndex tpl -> i = i').
Proof.
  intros Hl. unfold instantiate. induction tpl as [|p tpl IH]; intros He.
  - cbn [In]. tauto.
  - cbn [flat_map] in He.
    assert (Hlen : length (part_nums pid c i p) = length (part_nums pid' c' i' p))
      by (destruct p; cbn [part_nums length]; auto).
    destruct (app_inj_len _ _ _ _ Hlen He) as [Hh Ht].
    destruct (IH Ht) as (I1 & I2 & I3).
    cbn [In]. splits; intros [Hp|Hin]; auto; subst p; cbn [part_nums] in Hh; congruence.
Qed.

Lemma instantiate_has_index tpl pid c i : In PIndex tpl -> instantiate tpl pid c i <> [].
Proof.
  intros Hin He. assert (In i (instantiate tpl pid c i)).
  { unfold instantiate. apply in_flat_map. exists PIndex. split; auto. cbn. auto. }
  rewrite He in H. contradiction.
Qed.

Lemma plain_value_ok tpl pid c i v :
  plain_value tpl pid c i = Ok v ->
  v = encode (instantiate tpl pid c i) /\ nonneg (instantiate tpl pid c i).
Proof.
  unfold plain_value, value_error.
  destruct (forallb (fun x => 0 <=? x) (instantiate tpl pid c i)) eqn:E; [|discriminate].
  intros H. injection H as <-. split; auto.
  unfold nonneg. rewrite forallb_forall in E. apply Forall_forall. intros x Hx.
  specialize (E x Hx). lia.
Qed.

(* two generators' plain numbers coincide only if the instantiated tuples coincide *)
Lemma plain_value_inj tpl tpl' pid pid' c c' i i' v :
  In PIndex tpl -> In PIndex tpl' ->
  plain_value tpl pid c i = Ok v -> plain_value tpl' pid' c' i' = Ok v ->
  instantiate tpl pid c i = instantiate tpl' pid' c' i'.
Proof.
  intros Hi Hi' H H'.
  apply plain_value_ok in H. apply plain_value_ok in H'. destruct H as [-> Hn], H' as [He Hn'].
  apply encode_inj; auto using instantiate_has_index.
Qed.

(* ================================================================ scramble / unscramble *)

Lemma lxor_cancel a m : Z.lxor (Z.lxor a m) m = a.
Proof. rewrite Z.lxor_assoc, Z.lxor_nilpotent, Z.lxor_0_r. reflexivity. Qed.

Lemma scramble_decomp X key nb : 0 <= key < 10 -> 0 <= nb < 1000 ->
  let v := X * 10000 + key * 1000 + nb in
  v mod 1000 = nb /\
  ((v - nb) mod 10000) / 1000 = key /\
  (v - nb - key * 1000) mod 10000 = 0 /\
  (v - nb - key * 1000) / 10000 = X.
Proof.
  intros Hk Hn v. subst v.
  assert (E1 : (X * 10000 + key * 1000 + nb) mod 1000 = nb).
  { symmetry. apply (Z.mod_unique _ _ (X * 10 + key)); lia. }
  assert (E2 : (X * 10000 + key * 1000 + nb - nb) mod 10000 = key * 1000).
  { symmetry. apply (Z.mod_unique _ _ X); lia. }
  splits.
  - exact E1.
  - rewrite E2. apply Z.div_mul. lia.
  - symmetry. apply (Z.mod_unique _ _ X); lia.
  - symmetry. apply (Z.div_unique _ _ _ 0); lia.
Qed.

Section ScrambleP.
  Variable mask : Z -> Z -> Z.
  Variable nbits : Z -> Z.

  (* what a successful scramble_number returns *)
  Lemma scramble_ok n mb v : scramble mask nbits n mb = Ok v ->
    exists nb, 10 <= nb < 1000 /\
      v = Z.lxor (n / 10) (mask (n mod 10) nb) * 10000 + (n mod 10) * 1000 + nb.
  Proof.
    unfold scramble, assertion, value_error. cbv zeta.
    destruct (mb <? 10) eqn:E1; [discriminate|].
    destruct (n / 10 <? 0) eqn:E2; [discriminate|].
    set (nb := Z.max (Z.max 10 (mb - 13)) (if n / 10 =? 0 then Z.max 10 (mb - 13) else nbits (n / 10))).
    destruct (negb (nb <? 1000)) eqn:E3; [discriminate|].
    assert (Hlo : 10 <= nb).
    { apply Z.le_trans with (Z.max 10 (mb - 13)); [apply Z.le_max_l|apply Z.le_max_l]. }
    clearbody nb.
    intros H. injection H as <-. exists nb. split; [lia|reflexivity].
  Qed.

  (* unscramble_number is a left inverse of scramble_number, for every minbits *)
  Lemma scramble_unscramble n mb v :
    scramble mask nbits n mb = Ok v -> unscramble mask v = Ok n.
  Proof.
    intros H. destruct (scramble_ok _ _ _ H) as (nb & Hnb & ->).
    assert (Hk : 0 <= n mod 10 < 10) by (apply Z.mod_pos_bound; lia).
    destruct (scramble_decomp (Z.lxor (n / 10) (mask (n mod 10) nb)) (n mod 10) nb Hk) as (D1 & D2 & D3 & D4);
      [lia|].
    unfold unscramble. cbv zeta. rewrite D1, D2, D3, D4.
    change (negb (0 =? 0)) with false. cbv iota.
    rewrite lxor_cancel. f_equal. pose proof (Z.div_mod n 10). lia.
  Qed.

  Lemma scramble_inj n n' mb mb' v :
    scramble mask nbits n mb = Ok v -> scramble mask nbits n' mb' = Ok v -> n = n'.
  Proof.
    intros H H'. apply scramble_unscramble in H. apply scramble_unscramble in H'.
    rewrite H in H'. injection H'. auto.
  Qed.

  (* ---- numeric generators *)

  Lemma num_value_same_numbers tpl tpl' pid pid' c c' i i' r v :
    In PIndex tpl -> In PIndex tpl' ->
    num_value mask nbits tpl pid c i r = Ok v ->
    num_value mask nbits tpl' pid' c' i' r = Ok v ->
    instantiate tpl pid c i = instantiate tpl' pid' c' i'.
  Proof.
    intros Hi Hi'. unfold num_value, bind.
    destruct (plain_value tpl pid c i) as [p|] eqn:P; [|discriminate].
    destruct (plain_value tpl' pid' c' i') as [p'|] eqn:P'; [|discriminate].
    intros H H'.
    assert (p = p').
    { destruct r; [eapply scramble_inj; eauto|congruence]. }
    subst p'. eapply plain_value_inj; eauto.
  Qed.

  Lemma num_value_inj tpl pid pid' c c' i i' r v :
    In PIndex tpl -> length pid = length pid' ->
    num_value mask nbits tpl pid c i r = Ok v ->
    num_value mask nbits tpl pid' c' i' r = Ok v ->
    i = i' /\ (In PContext tpl -> c = c') /\ (In PPid tpl -> pid = pid').
  Proof.
    intros Hi Hl H H'.
    pose proof (num_value_same_numbers _ _ _ _ _ _ _ _ _ _ Hi Hi H H') as He.
    destruct (instantiate_inj _ _ _ _ _ _ _ Hl He) as (I1 & I2 & I3). auto.
  Qed.

  Lemma app_tail2 {A} (l l' : list A) c i c' i' :
    l ++ [c; i] = l' ++ [c'; i'] -> c = c' /\ i = i'.
  Proof.
    intros H. apply (f_equal (@rev A)) in H. rewrite !rev_app_distr in H.
    cbn [rev app] in H. injection H. auto.
  Qed.

  Lemma default_numeric_instantiate big pid c i :
    instantiate (default_numeric_tpl big) pid c i = (if big then pid else []) ++ [c; i].
  Proof.
    destruct big; cbn [default_numeric_tpl instantiate flat_map part_nums app]; reflexivity.
  Qed.

  Lemma default_numeric_has_index big : In PIndex (default_numeric_tpl big).
  Proof. destruct big; cbn; auto. Qed.

  (* default unique_id generators: equal values only for the same generator and the same index *)
  Lemma pipeline_numeric_pair big big' pid pid' c c' i i' v :
    num_value mask nbits (default_numeric_tpl big) pid c i true = Ok v ->
    num_value mask nbits (default_numeric_tpl big') pid' c' i' true = Ok v ->
    c = c' /\ i = i'.
  Proof.
    intros H H'.
    pose proof (num_value_same_numbers _ _ _ _ _ _ _ _ _ _
                  (default_numeric_has_index big) (default_numeric_has_index big') H H') as He.
    rewrite !default_numeric_instantiate in He. eapply app_tail2; eauto.
  Qed.
End ScrambleP.

(* ================================================================ alphabet encoding *)

Fixpoint index_of (c : Z) (l : list Z) : Z :=
  match l with
  | [] => 0
  | x :: r => if x =? c then 0 else 1 + index_of c r
  end.

Lemma index_of_nth : forall l k c, NoDup l -> nth_error l k = Some c -> index_of c l = Z.of_nat k.
Proof.
  induction l as [|x l IH]; intros k c Hnd Hn.
  - destruct k; discriminate.
  - inversion Hnd as [|? ? Hx Hl]; subst. destruct k as [|k]; cbn [nth_error] in Hn.
    + injection Hn as ->. cbn [index_of]. rewrite Z.eqb_refl. reflexivity.
    + cbn [index_of]. destruct (x =? c) eqn:E.
      * exfalso. apply Hx. assert (x = c) by lia. subst. eapply nth_error_In; eauto.
      * rewrite (IH k c Hl Hn). lia.
Qed.

Lemma char_at_inv abc d c : NoDup abc -> 0 <= d -> char_at abc d = Ok c ->
  index_of c abc = d /\ In c abc.
Proof.
  unfold char_at. intros Hnd Hd. destruct (nth_error abc (Z.to_nat d)) as [x|] eqn:E; [|discriminate].
  intros H. injection H as ->. split.
  - rewrite (index_of_nth _ _ _ Hnd E). lia.
  - eapply nth_error_In; eauto.
Qed.

Lemma char_at_in abc d c : char_at abc d = Ok c -> In c abc.
Proof.
  unfold char_at. destruct (nth_error abc (Z.to_nat d)) as [x|] eqn:E; [|discriminate].
  intros H. injection H as ->. eapply nth_error_In; eauto.
Qed.

Lemma map_res_chars abc : forall ds code, map_res (char_at abc) ds = Ok code ->
  Forall (fun c => In c abc) code /\ length code = length ds.
Proof.
  induction ds as [|d ds IH]; intros code H; cbn [map_res] in H.
  - injection H as <-. split; [constructor|reflexivity].
  - unfold bind in H. destruct (char_at abc d) as [c|] eqn:E; [|discriminate].
    destruct (map_res (char_at abc) ds) as [cs|] eqn:E2; [|discriminate].
    injection H as <-. destruct (IH cs eq_refl) as [F L]. split.
    + constructor; auto. eapply char_at_in; eauto.
    + cbn [length]. congruence.
Qed.

Lemma map_res_decode abc : NoDup abc -> forall ds code,
  Forall (fun d => 0 <= d) ds -> map_res (char_at abc) ds = Ok code ->
  map (fun c => index_of c abc) code = ds.
Proof.
  intros Hnd. induction ds as [|d ds IH]; intros code Hp H; cbn [map_res] in H.
  - injection H as <-. reflexivity.
  - unfold bind in H. destruct (char_at abc d) as [c|] eqn:E; [|discriminate].
    destruct (map_res (char_at abc) ds) as [cs|] eqn:E2; [|discriminate].
    injection H as <-. inversion Hp; subst. cbn [map]. f_equal.
    + apply (char_at_inv abc d c); auto.
    + apply IH; auto.
Qed.

Lemma map_res_total abc : forall ds, Forall (digit (Z.of_nat (length abc))) ds ->
  exists code, map_res (char_at abc) ds = Ok code.
Proof.
  induction ds as [|d ds IH]; intros H.
  - exists []. reflexivity.
  - inversion H as [|? ? Hd Hds]; subst. destruct (IH Hds) as [cs Hcs].
    unfold digit in Hd. cbn [map_res]. unfold char_at at 1.
    destruct (nth_error abc (Z.to_nat d)) as [c|] eqn:E.
    + exists (c :: cs). unfold bind. rewrite Hcs. reflexivity.
    + apply nth_error_None in E. lia.
Qed.

Lemma fd_repeat0 b k s : from_digits b (repeat 0 k ++ s) = from_digits b s.
Proof.
  induction k as [|k IH]; cbn [repeat app]; [reflexivity|].
  rewrite from_digits_cons, IH. lia.
Qed.

Lemma map_repeat {A B} (f : A -> B) x k : map f (repeat x k) = repeat (f x) k.
Proof. induction k; cbn [repeat map]; congruence. Qed.

(* the decoder: read the characters as digits of base |alphabet| *)
Definition alpha_decode (abc : list Z) (s : list Z) : Z :=
  from_digits (Z.of_nat (length abc)) (map (fun c => index_of c abc) s).

Lemma alpha_string_decode abc w n s :
  NoDup abc -> (2 <= length abc)%nat -> alpha_string abc w n = Ok s -> alpha_decode abc s = n.
Proof.
  intros Hnd Hlen. unfold alpha_string, base_encode, bind.
  destruct (n <? 0) eqn:En; [discriminate|].
  destruct (map_res (char_at abc) (to_digits (Z.of_nat (length abc)) n)) as [code|] eqn:E; [|discriminate].
  destruct abc as [|c0 rest] eqn:Eabc; [discriminate|]. rewrite <- Eabc in *.
  intros H. injection H as <-.
  destruct (to_digits_spec (Z.of_nat (length abc)) n) as (Hv & Hf & _); try lia.
  assert (Hpos : Forall (fun d => 0 <= d) (to_digits (Z.of_nat (length abc)) n)).
  { eapply Forall_impl; [|exact Hf]. unfold digit. intros; lia. }
  unfold alpha_decode, rjust. rewrite map_app, map_repeat.
  rewrite (map_res_decode abc Hnd _ _ Hpos E).
  assert (index_of c0 abc = 0) as -> by (rewrite Eabc; cbn [index_of]; rewrite Z.eqb_refl; reflexivity).
  rewrite fd_repeat0. exact Hv.
Qed.

Lemma alpha_string_inj abc w w' n n' s :
  NoDup abc -> (2 <= length abc)%nat ->
  alpha_string abc w n = Ok s -> alpha_string abc w' n' = Ok s -> n = n'.
Proof.
  intros Hnd Hl H H'. apply alpha_string_decode in H; auto. apply alpha_string_decode in H'; auto.
  congruence.
Qed.

Lemma alpha_string_charset abc w n s :
  alpha_string abc w n = Ok s -> Forall (fun c => In c abc) s.
Proof.
  unfold alpha_string, base_encode, bind.
  destruct (n <? 0) eqn:En; [discriminate|].
  destruct (map_res (char_at abc) (to_digits (Z.of_nat (length abc)) n)) as [code|] eqn:E; [|discriminate].
  destruct abc as [|c0 rest] eqn:Eabc; [discriminate|]. rewrite <- Eabc in *.
  intros H. injection H as <-. unfold rjust. apply Forall_app. split.
  - apply Forall_forall. intros x Hx. apply repeat_spec in Hx. subst x. rewrite Eabc. cbn. auto.
  - apply (map_res_chars abc _ _ E).
Qed.

Lemma alpha_string_min_len abc w n s :
  alpha_string abc w n = Ok s -> w <= Z.of_nat (length s).
Proof.
  unfold alpha_string, bind.
  destruct (base_encode abc n) as [code|]; [|discriminate].
  destruct abc as [|c0 rest]; [discriminate|].
  intros H. injection H as <-. unfold rjust. rewrite app_length, repeat_length. lia.
Qed.

Lemma alpha_string_total abc w n :
  (2 <= length abc)%nat -> 0 <= n -> exists s, alpha_string abc w n = Ok s.
Proof.
  intros Hl Hn. unfold alpha_string, base_encode, bind.
  destruct (n <? 0) eqn:En; [lia|].
  destruct (to_digits_spec (Z.of_nat (length abc)) n) as (_ & Hf & _); try lia.
  destruct (map_res_total abc _ Hf) as [code ->].
  destruct abc as [|c0 rest]; [cbn in Hl; lia|]. eauto.
Qed.

(* ---- alpha generators *)

Section AlphaP.
  Variable mask : Z -> Z -> Z.
  Variable nbits : Z -> Z.
  Variable bpc : Z -> Z.

  Lemma alpha_value_inj a a' tpl pid pid' c c' i i' s :
    al_alphabet a = al_alphabet a' -> al_randomize a = al_randomize a' ->
    NoDup (al_alphabet a) -> (2 <= length (al_alphabet a))%nat ->
    In PIndex tpl -> length pid = length pid' ->
    alpha_value mask nbits bpc a tpl pid c i = Ok s ->
    alpha_value mask nbits bpc a' tpl pid' c' i' = Ok s ->
    i = i' /\ (In PContext tpl -> c = c') /\ (In PPid tpl -> pid = pid').
  Proof.
    intros Habc Hr Hnd Hlen Hi Hl. unfold alpha_value, bind. rewrite <- Habc, <- Hr.
    destruct (plain_value tpl pid c i) as [p|] eqn:P; [|discriminate].
    destruct (plain_value tpl pid' c' i') as [p'|] eqn:P'; [|discriminate].
    destruct (if al_randomize a then scramble mask nbits p _ else Ok p) as [n|] eqn:S; [|discriminate].
    destruct (if al_randomize a then scramble mask nbits p' _ else Ok p') as [n'|] eqn:S'; [|discriminate].
    intros H H'.
    assert (n = n') by (eapply alpha_string_inj; eauto). subst n'.
    assert (p = p').
    { destruct (al_randomize a); [eapply scramble_inj; eauto|congruence]. }
    subst p'.
    pose proof (plain_value_inj _ _ _ _ _ _ _ _ _ Hi Hi P P') as He.
    destruct (instantiate_inj _ _ _ _ _ _ _ Hl He) as (I1 & I2 & I3). auto.
  Qed.

  Lemma alpha_value_charset_len a tpl pid c i s :
    alpha_value mask nbits bpc a tpl pid c i = Ok s ->
    Forall (fun ch => In ch (al_alphabet a)) s /\ al_min_chars a <= Z.of_nat (length s).
  Proof.
    unfold alpha_value, bind.
    destruct (plain_value tpl pid c i) as [p|]; [|discriminate].
    destruct (if al_randomize a then _ else _) as [n|]; [|discriminate].
    intros H. split; [eapply alpha_string_charset|eapply alpha_string_min_len]; eauto.
  Qed.

  (* two alpha generators (same alphabet, same randomize flag, any templates with `index`) share a
     code only if the instantiated tuples coincide *)
  Lemma alpha_value_same_numbers a a' tpl tpl' pid pid' c c' i i' s :
    al_alphabet a = al_alphabet a' -> al_randomize a = al_randomize a' ->
    NoDup (al_alphabet a) -> (2 <= length (al_alphabet a))%nat ->
    In PIndex tpl -> In PIndex tpl' ->
    alpha_value mask nbits bpc a tpl pid c i = Ok s ->
    alpha_value mask nbits bpc a' tpl' pid' c' i' = Ok s ->
    instantiate tpl pid c i = instantiate tpl' pid' c' i'.
  Proof.
    intros Habc Hr Hnd Hlen Hi Hi'. unfold alpha_value, bind. rewrite <- Habc, <- Hr.
    destruct (plain_value tpl pid c i) as [p|] eqn:P; [|discriminate].
    destruct (plain_value tpl' pid' c' i') as [p'|] eqn:P'; [|discriminate].
    destruct (if al_randomize a then scramble mask nbits p _ else Ok p) as [n|] eqn:S; [|discriminate].
    destruct (if al_randomize a then scramble mask nbits p' _ else Ok p') as [n'|] eqn:S'; [|discriminate].
    intros H H'.
    assert (n = n') by (eapply alpha_string_inj; eauto). subst n'.
    assert (p = p').
    { destruct (al_randomize a); [eapply scramble_inj; eauto|congruence]. }
    subst p'. eapply plain_value_inj; eauto.
  Qed.

  (* big-id mode default alpha generators: a code in common means same generator, same draw *)
  Lemma pipeline_alpha_pair_big a a' pid pid' c c' i i' s :
    al_alphabet a = al_alphabet a' -> al_randomize a = al_randomize a' ->
    NoDup (al_alphabet a) -> (2 <= length (al_alphabet a))%nat ->
    alpha_value mask nbits bpc a (default_alpha_tpl true) pid c i = Ok s ->
    alpha_value mask nbits bpc a' (default_alpha_tpl true) pid' c' i' = Ok s ->
    c = c' /\ i = i'.
  Proof.
    intros Habc Hr Hnd Hlen H H'.
    assert (Hi : In PIndex (default_alpha_tpl true)) by (cbn; auto).
    pose proof (alpha_value_same_numbers _ _ _ _ _ _ _ _ _ _ _ Habc Hr Hnd Hlen Hi Hi H H') as He.
    cbn [default_alpha_tpl instantiate flat_map part_nums app] in He.
    eapply app_tail2; eauto.
  Qed.

  (* the default alpha template of small-id mode does not contain the context *)
  Lemma default_alpha_small_ignores_context a pid c c' i :
    alpha_value mask nbits bpc a (default_alpha_tpl false) pid c i =
    alpha_value mask nbits bpc a (default_alpha_tpl false) pid c' i.
  Proof. reflexivity. Qed.
End AlphaP.

(* ================================================================ a whole process *)

Lemma NoDup_map_inj_on {A B} (f : A -> B) : forall l,
  NoDup l -> (forall x y, In x l -> In y l -> f x = f y -> x = y) -> NoDup (map f l).
Proof.
  induction l as [|a l IH]; intros Hnd Hinj; cbn [map]; [constructor|].
  inversion Hnd as [|? ? Ha Hl]; subst. constructor.
  - intros Hin. apply in_map_iff in Hin. destruct Hin as (y & Hy & Hyl).
    assert (a = y) by (apply Hinj; cbn; auto). subst y. contradiction.
  - apply IH; auto. intros x y Hx Hy. apply Hinj; cbn; auto.
Qed.

Lemma NoDup_map_In_inj {A B} (f : A -> B) : forall l x y,
  NoDup (map f l) -> In x l -> In y l -> f x = f y -> x = y.
Proof.
  induction l as [|a l IH]; intros x y Hnd Hx Hy He; [contradiction|].
  cbn [map] in Hnd. inversion Hnd as [|? ? Ha Hl]; subst.
  destruct Hx as [->|Hx], Hy as [->|Hy]; auto.
  - exfalso. apply Ha. rewrite He. apply in_map. exact Hy.
  - exfalso. apply Ha. rewrite <- He. apply in_map. exact Hx.
Qed.

Lemma NoDup_of_injective_keys {K V} (F : K -> result V) keys vs :
  NoDup keys ->
  (forall x y v, In x keys -> In y keys -> F x = Ok v -> F y = Ok v -> x = y) ->
  map F keys = map Ok vs -> NoDup vs.
Proof.
  intros Hnd Hinj He. apply (NoDup_map_inv (@Ok V)). rewrite <- He.
  apply NoDup_map_inj_on; auto. intros x y Hx Hy Hxy.
  assert (Hin : In (F x) (map Ok vs)) by (rewrite <- He; apply in_map; exact Hx).
  apply in_map_iff in Hin. destruct Hin as (v & Hv & _).
  apply (Hinj x y v); congruence.
Qed.

Lemma NoDup_flat_pairs {G I} (h : G -> list I) : forall gens,
  NoDup gens -> (forall g, NoDup (h g)) ->
  NoDup (flat_map (fun g => map (pair g) (h g)) gens).
Proof.
  induction gens as [|g gens IH]; intros Hnd Hh; cbn [flat_map]; [constructor|].
  inversion Hnd as [|? ? Hg Hgens]; subst. apply NoDup_app_intro.
  - apply NoDup_map_inj_on; [apply Hh|]. intros x y _ _ H. injection H. auto.
  - apply IH; auto.
  - intros [g0 i0] H1 H2. apply in_map_iff in H1. destruct H1 as (i & Hi & _).
    injection Hi as <- <-. apply in_flat_map in H2. destruct H2 as (g' & Hg' & Hin).
    apply in_map_iff in Hin. destruct Hin as (i' & Hi' & _). injection Hi' as -> _. contradiction.
Qed.

Lemma map_flat_map {A B C} (F : B -> C) (k : A -> list B) : forall l,
  map F (flat_map k l) = flat_map (fun a => map F (k a)) l.
Proof.
  induction l as [|a l IH]; cbn [flat_map map]; [reflexivity|]. rewrite map_app, IH. reflexivity.
Qed.

Section ProcessP.
  Variable mask : Z -> Z -> Z.
  Variable nbits : Z -> Z.

  Definition dkey_value (k : dgen * Z) : result Z :=
    num_value mask nbits (default_numeric_tpl (d_big (fst k))) (d_pid (fst k)) (d_ctx (fst k))
              (snd k) true.

  Lemma process_draws_keys gens :
    process_draws mask nbits gens =
    map dkey_value (flat_map (fun g => map (pair g) (Zseq (d_start g) (d_n g))) gens).
  Proof.
    unfold process_draws. rewrite map_flat_map. apply flat_map_ext. intros g.
    unfold dgen_draws. rewrite map_map. reflexivity.
  Qed.

  (* all values of all default numeric generators of a process are pairwise distinct *)
  Lemma pipeline_numeric_NoDup gens vs :
    NoDup (map d_ctx gens) -> process_draws mask nbits gens = map Ok vs -> NoDup vs.
  Proof.
    intros Hctx He. rewrite process_draws_keys in He.
    eapply NoDup_of_injective_keys; [| |exact He].
    - apply NoDup_flat_pairs; [eapply NoDup_map_inv; eauto|]. intros g. apply Zseq_NoDup.
    - intros [g i] [g' i'] v Hx Hy Hv Hv'. unfold dkey_value in Hv, Hv'. cbn [fst snd] in Hv, Hv'.
      destruct (pipeline_numeric_pair mask nbits _ _ _ _ _ _ _ _ _ Hv Hv') as [Hc ->].
      f_equal. apply (NoDup_map_In_inj d_ctx gens); auto.
      + apply in_flat_map in Hx. destruct Hx as (g0 & Hg0 & Hin).
        apply in_map_iff in Hin. destruct Hin as (? & Hp & _). injection Hp as -> _. exact Hg0.
      + apply in_flat_map in Hy. destruct Hy as (g0 & Hg0 & Hin).
        apply in_map_iff in Hin. destruct Hin as (? & Hp & _). injection Hp as -> _. exact Hg0.
  Qed.
End ProcessP.

Section AlphaProcessP.
  Variable mask : Z -> Z -> Z.
  Variable nbits : Z -> Z.
  Variable bpc : Z -> Z.

  Definition akey_value (abc : list Z) (rc : bool) (k : agen * Z) : result (list Z) :=
    alpha_value mask nbits bpc (mkAlpha abc (ag_min_chars (fst k)) rc)
                (default_alpha_tpl (ag_big (fst k))) (ag_pid (fst k)) (ag_ctx (fst k)) (snd k).

  Lemma aprocess_draws_keys abc rc gens :
    aprocess_draws mask nbits bpc abc rc gens =
    map (akey_value abc rc) (flat_map (fun g => map (pair g) (Zseq alpha_start (ag_n g))) gens).
  Proof.
    unfold aprocess_draws. rewrite map_flat_map. apply flat_map_ext. intros g.
    unfold agen_draws. rewrite map_map. reflexivity.
  Qed.

  Lemma key_in_gens (gens : list agen) g (i : Z) :
    In (g, i) (flat_map (fun g => map (pair g) (Zseq alpha_start (ag_n g))) gens) -> In g gens.
  Proof.
    intros Hx. apply in_flat_map in Hx. destruct Hx as (g0 & Hg0 & Hin).
    apply in_map_iff in Hin. destruct Hin as (? & Hp & _). injection Hp as -> _. exact Hg0.
  Qed.

  (* all codes of all BIG-ID-MODE default alpha generators of a process (one alphabet, one randomize
     flag, any min_chars) are pairwise distinct *)
  Lemma pipeline_alpha_NoDup_big abc rc gens codes :
    NoDup abc -> (2 <= length abc)%nat ->
    (forall g, In g gens -> ag_big g = true) ->
    NoDup (map ag_ctx gens) -> aprocess_draws mask nbits bpc abc rc gens = map Ok codes ->
    NoDup codes.
  Proof.
    intros Hnd Hlen Hbig Hctx He. rewrite aprocess_draws_keys in He.
    eapply NoDup_of_injective_keys; [| |exact He].
    - apply NoDup_flat_pairs; [eapply NoDup_map_inv; eauto|]. intros g. apply Zseq_NoDup.
    - intros [g i] [g' i'] v Hx Hy Hv Hv'. unfold akey_value in Hv, Hv'. cbn [fst snd] in Hv, Hv'.
      pose proof (key_in_gens _ _ _ Hx) as Hg. pose proof (key_in_gens _ _ _ Hy) as Hg'.
      rewrite (Hbig g Hg) in Hv. rewrite (Hbig g' Hg') in Hv'.
      assert (Hp : ag_ctx g = ag_ctx g' /\ i = i').
      { eapply (pipeline_alpha_pair_big mask nbits bpc (mkAlpha abc (ag_min_chars g) rc)
                                        (mkAlpha abc (ag_min_chars g') rc));
          [reflexivity|reflexivity|exact Hnd|exact Hlen|exact Hv|exact Hv']. }
      destruct Hp as [Hc ->].
      f_equal. apply (NoDup_map_In_inj ag_ctx gens); auto.
  Qed.
End AlphaProcessP.

(* ================================================================ the process machine *)

Lemma In_set_nth {A} (x y : A) : forall l n, In x (set_nth n y l) -> x = y \/ In x l.
Proof.
  induction l as [|a l IH]; intros [|n] H; cbn [set_nth] in H; try contradiction.
  - destruct H as [<-|H]; [auto|right; right; exact H].
  - destruct H as [<-|H]; [right; left; reflexivity|].
    destruct (IH n H) as [->|H']; [auto|right; right; exact H'].
Qed.

Lemma set_nth_In_new {A} (a b : A) : forall l n, nth_error l n = Some a -> In b (set_nth n b l).
Proof.
  induction l as [|x l IH]; intros [|n] H; cbn [nth_error] in H; try discriminate; cbn [set_nth].
  - left; reflexivity.
  - right. eapply IH; eauto.
Qed.

Lemma set_nth_keeps {A} (a b x : A) : forall l n,
  nth_error l n = Some a -> In x l -> x <> a -> In x (set_nth n b l).
Proof.
  induction l as [|y l IH]; intros [|n] H Hin Hne; cbn [nth_error] in H; try discriminate; cbn [set_nth].
  - injection H as ->. destruct Hin as [->|Hin]; [contradiction|right; exact Hin].
  - destruct Hin as [->|Hin]; [left; reflexivity|right; eapply IH; eauto].
Qed.

Lemma map_set_nth_same {A B} (f : A -> B) (a b : A) : forall l n,
  nth_error l n = Some a -> f b = f a -> map f (set_nth n b l) = map f l.
Proof.
  induction l as [|x l IH]; intros [|n] H He; cbn [nth_error] in H; try discriminate;
    cbn [set_nth map].
  - injection H as ->. rewrite He. reflexivity.
  - f_equal. eapply IH; eauto.
Qed.

Definition key_ci (k : rspec * Z * Z) : Z * Z := (snd (fst k), snd k).

(* invariant of the process machine, together with the keys drawn so far *)
Definition pinv (s : pstate) (log : list (rspec * Z * Z)) : Prop :=
  (forall lg, In lg (ps_gens s) -> lg_ctx lg < ps_counter s) /\
  NoDup (map lg_ctx (ps_gens s)) /\
  (forall r c i, In (r, c, i) log ->
     exists lg, In lg (ps_gens s) /\ lg_ctx lg = c /\ i < lg_next lg /\ lg_spec lg = r) /\
  NoDup (map key_ci log).

Lemma pinv_init c0 : pinv (p_init c0) [].
Proof.
  unfold pinv, p_init. cbn [ps_gens ps_counter map]. splits.
  - intros lg [].
  - constructor.
  - intros r c i [].
  - constructor.
Qed.

Lemma pinv_new_ok s log r start :
  pinv s log -> pinv (mkPstate (ps_counter s + 1) (ps_gens s ++ [mkLgen r (ps_counter s) start])) log.
Proof.
  intros (I1 & I2 & I3 & I4). unfold pinv. cbn [ps_gens ps_counter]. splits.
  - intros lg Hin. apply in_app_or in Hin. destruct Hin as [Hin|[<-|[]]].
    + specialize (I1 lg Hin). lia.
    + cbn [lg_ctx]. lia.
  - rewrite map_app. cbn [map lg_ctx]. apply NoDup_app_intro; [exact I2|repeat constructor; intros []|].
    intros c Hc [<-|[]]. apply in_map_iff in Hc. destruct Hc as (lg & Hc & Hin).
    specialize (I1 lg Hin). lia.
  - intros r0 c i Hin. destruct (I3 r0 c i Hin) as (lg & Hlg & H). exists lg. split; [|exact H].
    apply in_or_app. left. exact Hlg.
  - exact I4.
Qed.

Lemma pinv_burn s log n : 0 <= n ->
  pinv s log -> pinv (mkPstate (ps_counter s + n) (ps_gens s)) log.
Proof.
  intros Hn (I1 & I2 & I3 & I4). unfold pinv. cbn [ps_gens ps_counter]. splits; auto.
  intros lg Hin. specialize (I1 lg Hin). lia.
Qed.

Lemma pinv_new_err s log :
  pinv s log -> pinv (mkPstate (ps_counter s + 1) (ps_gens s)) log.
Proof. apply pinv_burn. lia. Qed.

Lemma pinv_draw s log g n lg :
  pinv s log -> nth_error (ps_gens s) g = Some lg ->
  pinv (mkPstate (ps_counter s)
                 (set_nth g (mkLgen (lg_spec lg) (lg_ctx lg) (lg_next lg + Z.of_nat n)) (ps_gens s)))
       (log ++ map (fun i => (lg_spec lg, lg_ctx lg, i)) (Zseq (lg_next lg) n)).
Proof.
  intros (I1 & I2 & I3 & I4) Hn.
  set (lg' := mkLgen (lg_spec lg) (lg_ctx lg) (lg_next lg + Z.of_nat n)).
  assert (Hlg : In lg (ps_gens s)) by (eapply nth_error_In; eauto).
  assert (Hsame : forall lg0, In lg0 (ps_gens s) -> lg_ctx lg0 = lg_ctx lg -> lg0 = lg).
  { intros lg0 H0 He. apply (NoDup_map_In_inj lg_ctx (ps_gens s)); auto. }
  unfold pinv. cbn [ps_gens ps_counter]. splits.
  - intros lg0 Hin. apply In_set_nth in Hin. destruct Hin as [->|Hin]; [|auto].
    unfold lg'. cbn [lg_ctx]. auto.
  - rewrite (map_set_nth_same lg_ctx lg lg' _ _ Hn); [exact I2|reflexivity].
  - intros r c i Hin. apply in_app_or in Hin. destruct Hin as [Hin|Hin].
    + destruct (I3 r c i Hin) as (lg0 & H0 & Hc & Hi & Hr).
      destruct (Z.eq_dec (lg_ctx lg0) (lg_ctx lg)) as [He|Hne].
      * pose proof (Hsame lg0 H0 He) as ->. exists lg'. split; [eapply set_nth_In_new; eauto|].
        unfold lg'. cbn [lg_ctx lg_next lg_spec]. splits; auto. lia.
      * exists lg0. split; [|auto]. eapply set_nth_keeps; eauto. congruence.
    + apply in_map_iff in Hin. destruct Hin as (j & Hj & Hin). injection Hj as <- <- <-.
      apply Zseq_In in Hin. exists lg'. split; [eapply set_nth_In_new; eauto|].
      unfold lg'. cbn [lg_ctx lg_next lg_spec]. splits; auto. lia.
  - rewrite map_app, map_map. apply NoDup_app_intro; [exact I4| |].
    + apply NoDup_map_inj_on; [apply Zseq_NoDup|]. intros x y _ _ H. unfold key_ci in H. cbn [fst snd] in H.
      congruence.
    + intros [c i] Hold Hnew. apply in_map_iff in Hnew. destruct Hnew as (j & Hj & Hin).
      unfold key_ci in Hj. cbn [fst snd] in Hj. injection Hj as <- <-. apply Zseq_In in Hin.
      apply in_map_iff in Hold. destruct Hold as ([[r c] i] & Hk & Hold).
      unfold key_ci in Hk. cbn [fst snd] in Hk. injection Hk as -> ->.
      destruct (I3 r _ _ Hold) as (lg0 & H0 & Hc & Hi & _).
      pose proof (Hsame lg0 H0 Hc) as ->. lia.
Qed.

Lemma pinv_step s log o :
  pinv s log -> pinv (fst (p_step s o)) (log ++ snd (p_step s o)).
Proof.
  intros Hinv. destruct o as [[[r start]|e]|g n|n|]; cbn [p_step fst snd].
  - rewrite app_nil_r. apply pinv_new_ok; assumption.
  - rewrite app_nil_r. apply pinv_new_err; assumption.
  - destruct (nth_error (ps_gens s) g) as [lg|] eqn:Hn; cbn [fst snd].
    + apply pinv_draw; assumption.
    + rewrite app_nil_r. destruct s; assumption.
  - rewrite app_nil_r. apply pinv_burn; [lia|assumption].
  - rewrite app_nil_r. destruct s; assumption.
Qed.

Lemma pinv_run : forall ops s log,
  pinv s log -> pinv (fst (p_run s ops)) (log ++ snd (p_run s ops)).
Proof.
  induction ops as [|o ops IH]; intros s log Hinv; cbn [p_run].
  - cbn [fst snd]. rewrite app_nil_r. assumption.
  - pose proof (pinv_step s log o Hinv) as H1.
    destruct (p_step s o) as [s1 ks] eqn:E1. cbn [fst snd] in H1.
    pose proof (IH s1 (log ++ ks) H1) as H2.
    destruct (p_run s1 ops) as [s2 ks'] eqn:E2. cbn [fst snd] in H2 |- *.
    rewrite app_assoc. assumption.
Qed.

Lemma process_pinv c0 ops : pinv (fst (p_run (p_init c0) ops)) (process_keys c0 ops).
Proof. apply (pinv_run ops (p_init c0) [] (pinv_init c0)). Qed.

(* the (context, index) pairs of all draws of a process are pairwise different *)
Lemma process_keys_NoDup c0 ops : NoDup (map key_ci (process_keys c0 ops)).
Proof. destruct (process_pinv c0 ops) as (_ & _ & _ & H). exact H. Qed.

(* a context number belongs to one generator *)
Lemma process_keys_spec_fun c0 ops r r' c i i' :
  In (r, c, i) (process_keys c0 ops) -> In (r', c, i') (process_keys c0 ops) -> r = r'.
Proof.
  destruct (process_pinv c0 ops) as (_ & I2 & I3 & _). intros H H'.
  destruct (I3 _ _ _ H) as (lg & Hlg & Hc & _ & Hr).
  destruct (I3 _ _ _ H') as (lg' & Hlg' & Hc' & _ & Hr').
  assert (lg = lg') by (apply (NoDup_map_In_inj lg_ctx _ _ _ I2); congruence).
  congruence.
Qed.

Lemma process_keys_NoDup_full c0 ops : NoDup (process_keys c0 ops).
Proof. eapply NoDup_map_inv. apply process_keys_NoDup. Qed.

Section MachineP.
  Variable mask : Z -> Z -> Z.
  Variable nbits : Z -> Z.
  Variable bpc : Z -> Z.

  (* two comparable generators whose template has context and index: a value in common only for the
     same context number and the same index *)
  Lemma rvalue_inj r r' c c' i i' v :
    comparable r r' -> In PContext (spec_tpl r) -> In PIndex (spec_tpl r) ->
    rvalue mask nbits bpc r c i = Ok v -> rvalue mask nbits bpc r' c' i' = Ok v ->
    c = c' /\ i = i'.
  Proof.
    destruct r as [tpl pid rand|tpl pid a], r' as [tpl' pid' rand'|tpl' pid' a'];
      cbn [comparable spec_tpl]; try contradiction.
    - intros (<- & Hl & <-) Hc Hi. unfold rvalue, bind.
      destruct (num_value mask nbits tpl pid c i rand) as [z|] eqn:E; [|discriminate].
      destruct (num_value mask nbits tpl pid' c' i' rand) as [z'|] eqn:E'; [|discriminate].
      intros H H'. injection H as <-. injection H' as ->.
      destruct (num_value_inj mask nbits _ _ _ _ _ _ _ _ _ Hi Hl E E') as (-> & Hcc & _). auto.
    - intros (<- & Hl & Habc & Hr & Hnd & Hlen) Hc Hi. unfold rvalue, bind.
      destruct (alpha_value mask nbits bpc a tpl pid c i) as [z|] eqn:E; [|discriminate].
      destruct (alpha_value mask nbits bpc a' tpl pid' c' i') as [z'|] eqn:E'; [|discriminate].
      intros H H'. injection H as <-. injection H' as ->.
      destruct (alpha_value_inj mask nbits bpc _ _ _ _ _ _ _ _ _ _ Habc Hr Hnd Hlen Hi Hl E E')
        as (-> & Hcc & _). auto.
  Qed.

  (* ... hence, over a whole process (any number of runs, generators made and drawn in any order): two
     draws of comparable generators with context and index in the template never give the same value *)
  Lemma process_same_shape_distinct c0 ops r r' c c' i i' v :
    In (r, c, i) (process_keys c0 ops) -> In (r', c', i') (process_keys c0 ops) ->
    comparable r r' -> In PContext (spec_tpl r) -> In PIndex (spec_tpl r) ->
    rvalue mask nbits bpc r c i = Ok v -> rvalue mask nbits bpc r' c' i' = Ok v ->
    (r, c, i) = (r', c', i').
  Proof.
    intros Hin Hin' Hcmp Hc Hi Hv Hv'.
    destruct (rvalue_inj _ _ _ _ _ _ _ Hcmp Hc Hi Hv Hv') as [<- <-].
    rewrite (process_keys_spec_fun _ _ _ _ _ _ _ Hin Hin'). reflexivity.
  Qed.

  (* all default numeric generators (small-id and big-id mode mixed, any pids): all values of the process
     are pairwise distinct — no hypothesis about context numbers: the machine allocates them *)
  Lemma process_default_numeric_NoDup c0 ops vs :
    (forall r c i, In (r, c, i) (process_keys c0 ops) ->
       exists big pid, r = RNum (default_numeric_tpl big) pid true) ->
    process_values mask nbits bpc c0 ops = map Ok vs -> NoDup vs.
  Proof.
    intros Hdef He. unfold process_values in He.
    eapply NoDup_of_injective_keys; [apply process_keys_NoDup_full| |exact He].
    intros [[r c] i] [[r' c'] i'] v Hx Hy Hv Hv'.
    destruct (Hdef _ _ _ Hx) as (big & pid & ->). destruct (Hdef _ _ _ Hy) as (big' & pid' & ->).
    unfold key_value, rvalue, bind in Hv, Hv'.
    destruct (num_value mask nbits (default_numeric_tpl big) pid c i true) as [z|] eqn:E; [|discriminate].
    destruct (num_value mask nbits (default_numeric_tpl big') pid' c' i' true) as [z'|] eqn:E'; [|discriminate].
    injection Hv as <-. injection Hv' as ->.
    destruct (pipeline_numeric_pair mask nbits _ _ _ _ _ _ _ _ _ E E') as [<- <-].
    rewrite (process_keys_spec_fun _ _ _ _ _ _ _ Hx Hy). reflexivity.
  Qed.

  (* BIG-ID-MODE default alpha generators over one duplicate-free alphabet / randomize_codes flag (any
     min_chars, any pids): all codes of the process are pairwise distinct — again without a hypothesis
     about context numbers *)
  Lemma process_default_alpha_big_NoDup c0 ops abc rc vs :
    NoDup abc -> (2 <= length abc)%nat ->
    (forall r c i, In (r, c, i) (process_keys c0 ops) ->
       exists pid a, r = RAlpha (default_alpha_tpl true) pid a /\ al_alphabet a = abc /\ al_randomize a = rc) ->
    process_values mask nbits bpc c0 ops = map Ok vs -> NoDup vs.
  Proof.
    intros Hnd Hlen Hdef He. unfold process_values in He.
    eapply NoDup_of_injective_keys; [apply process_keys_NoDup_full| |exact He].
    intros [[r c] i] [[r' c'] i'] v Hx Hy Hv Hv'.
    destruct (Hdef _ _ _ Hx) as (pid & a & -> & Ha & Hr).
    destruct (Hdef _ _ _ Hy) as (pid' & a' & -> & Ha' & Hr').
    unfold key_value, rvalue, bind in Hv, Hv'.
    destruct (alpha_value mask nbits bpc a (default_alpha_tpl true) pid c i) as [z|] eqn:E; [|discriminate].
    destruct (alpha_value mask nbits bpc a' (default_alpha_tpl true) pid' c' i') as [z'|] eqn:E'; [|discriminate].
    injection Hv as <-. injection Hv' as ->.
    assert (Hp : c = c' /\ i = i').
    { eapply (pipeline_alpha_pair_big mask nbits bpc a a'); [congruence|congruence|rewrite Ha; exact Hnd|
                                                            rewrite Ha; exact Hlen|exact E|exact E']. }
    destruct Hp as [<- <-].
    rewrite (process_keys_spec_fun _ _ _ _ _ _ _ Hx Hy). reflexivity.
  Qed.
End MachineP.

(* ================================================================ template strings *)

Definition valid_part (p : part) : Prop :=
  match p with PBad => False | PNum n => 0 <= n | _ => True end.

(* a character of a canonical spelling: ASCII, not the comma, not white space, not upper case *)
Definition plain_char (c : Z) : Prop :=
  0 <= c < 128 /\ c <> 44 /\ is_space c = false /\ lower_char c = c.

Lemma lstrip_plain s : Forall plain_char s -> lstrip s = s.
Proof.
  destruct s as [|c r]; [reflexivity|]. intros H. inversion H as [|? ? (_ & _ & Hs & _) _]; subst.
  cbn [lstrip]. rewrite Hs. reflexivity.
Qed.

Lemma strip_plain s : Forall plain_char s -> strip s = s.
Proof.
  intros H. unfold strip. rewrite (lstrip_plain s H).
  rewrite lstrip_plain by (apply Forall_rev; exact H). apply rev_involutive.
Qed.

Lemma lower_plain s : Forall plain_char s -> map lower_char s = s.
Proof.
  induction 1 as [|c r (_ & _ & _ & Hl) _ IH]; cbn [map]; [reflexivity|]. rewrite Hl, IH. reflexivity.
Qed.

Lemma digit_chars_plain ds :
  Forall (digit 10) ds -> Forall plain_char (map (fun d => d + 48) ds).
Proof.
  induction 1 as [|d r Hd _ IH]; cbn [map]; constructor; [|exact IH].
  unfold digit in Hd. unfold plain_char, is_space, lower_char. splits; try lia.
  destruct ((65 <=? d + 48) && (d + 48 <=? 90)) eqn:E; lia.
Qed.

Lemma digit_chars_are_digits ds :
  Forall (digit 10) ds -> forallb is_digit (map (fun d => d + 48) ds) = true.
Proof.
  induction 1 as [|d r Hd _ IH]; cbn [map forallb]; [reflexivity|]. rewrite IH.
  unfold digit in Hd. unfold is_digit. lia.
Qed.

Lemma dec_value_digit_chars ds : dec_value (map (fun d => d + 48) ds) = from_digits 10 ds.
Proof.
  unfold dec_value. rewrite map_map. f_equal. rewrite <- (map_id ds) at 2. apply map_ext. intros; lia.
Qed.

Lemma print_part_plain p : valid_part p -> Forall plain_char (print_part p) /\ print_part p <> [].
Proof.
  destruct p as [| | |n|]; cbn [valid_part print_part]; intros Hv; try contradiction.
  1-3: split; [|discriminate];
    repeat (constructor; [unfold plain_char; vm_compute; intuition discriminate|]); constructor.
  destruct (to_digits_spec 10 n ltac:(lia) Hv) as (_ & Hd & Hc & _). split.
  - apply digit_chars_plain. exact Hd.
  - intros He. apply map_eq_nil in He. apply canon_nonempty in Hc. contradiction.
Qed.

Lemma classify_print_part p : valid_part p -> classify (print_part p) = p.
Proof.
  intros Hv. destruct (print_part_plain p Hv) as [Hp Hne].
  unfold classify. rewrite (strip_plain _ Hp), (lower_plain _ Hp).
  destruct p as [| | |n|]; cbn [valid_part print_part] in *; try contradiction; try reflexivity.
  destruct (to_digits_spec 10 n ltac:(lia) Hv) as (Hval & Hd & Hc & _).
  rewrite (digit_chars_are_digits _ Hd), dec_value_digit_chars, Hval.
  destruct (to_digits 10 n) as [|d r] eqn:E; [exfalso; apply (canon_nonempty _ Hc); reflexivity|].
  inversion Hd as [|? ? Hd0 _]; subst. unfold digit in Hd0.
  cbn [map list_eqb s_pid]. destruct (d + 48 =? 112) eqn:E1; [lia|]. reflexivity.
Qed.

Lemma split_on_nonempty sep s : exists h t, split_on sep s = h :: t.
Proof.
  induction s as [|c r (h & t & IH)]; cbn [split_on]; [eauto|].
  destruct (c =? sep); [eauto|]. rewrite IH. eauto.
Qed.

Lemma split_on_nosep sep s : ~ In sep s -> split_on sep s = [s].
Proof.
  induction s as [|c r IH]; intros Hn; cbn [split_on]; [reflexivity|].
  destruct (c =? sep) eqn:E; [exfalso; apply Hn; left; lia|].
  rewrite IH by (intros H; apply Hn; right; exact H). reflexivity.
Qed.

Lemma split_on_app_sep sep s r : ~ In sep s -> split_on sep (s ++ sep :: r) = s :: split_on sep r.
Proof.
  induction s as [|c s IH]; intros Hn; cbn [app split_on].
  - rewrite Z.eqb_refl. reflexivity.
  - destruct (c =? sep) eqn:E; [exfalso; apply Hn; left; lia|].
    rewrite IH by (intros H; apply Hn; right; exact H). reflexivity.
Qed.

Lemma plain_no_comma s : Forall plain_char s -> ~ In 44 s.
Proof.
  intros H Hin. rewrite Forall_forall in H. destruct (H 44 Hin) as (_ & Hc & _). apply Hc. reflexivity.
Qed.

Lemma split_print tpl : tpl <> [] -> Forall valid_part tpl ->
  split_on 44 (print_template tpl) = map print_part tpl.
Proof.
  induction tpl as [|p tpl IH]; intros Hne Hv; [contradiction|].
  inversion Hv as [|? ? Hp Ht]; subst.
  destruct (print_part_plain p Hp) as [Hpl _].
  destruct tpl as [|q tpl].
  - cbn [print_template map]. apply split_on_nosep. apply plain_no_comma. exact Hpl.
  - change (print_template (p :: q :: tpl)) with (print_part p ++ 44 :: print_template (q :: tpl)).
    rewrite split_on_app_sep by (apply plain_no_comma; exact Hpl).
    rewrite IH; [reflexivity|discriminate|exact Ht].
Qed.

Lemma print_ascii tpl : Forall valid_part tpl ->
  forallb (fun c => (0 <=? c) && (c <? 128)) (print_template tpl) = true.
Proof.
  induction tpl as [|p tpl IH]; intros Hv; [reflexivity|].
  inversion Hv as [|? ? Hp Ht]; subst. destruct (print_part_plain p Hp) as [Hpl _].
  assert (Ha : forallb (fun c => (0 <=? c) && (c <? 128)) (print_part p) = true).
  { apply forallb_forall. intros c Hc. rewrite Forall_forall in Hpl. destruct (Hpl c Hc) as (Hr & _). lia. }
  destruct tpl as [|q tpl]; [exact Ha|].
  change (print_template (p :: q :: tpl)) with (print_part p ++ 44 :: print_template (q :: tpl)).
  rewrite forallb_app, Ha. cbn [forallb]. rewrite (IH Ht). reflexivity.
Qed.

(* every template over pid / context / index / non-negative literals has a spelling that the
   constructor's parser reads back as exactly that template *)
Lemma parse_print tpl : tpl <> [] -> Forall valid_part tpl ->
  parse_template (print_template tpl) = Ok tpl.
Proof.
  intros Hne Hv. unfold parse_template. rewrite (print_ascii tpl Hv), (split_print tpl Hne Hv).
  f_equal. rewrite map_map. rewrite <- (map_id tpl) at 2. apply map_ext_in. intros p Hp.
  apply classify_print_part. rewrite Forall_forall in Hv. auto.
Qed.

(* what the parser can return: a literal is always a non-negative number *)
Lemma is_digit_value s : forallb is_digit s = true -> 0 <= dec_value s.
Proof.
  intros H. unfold dec_value.
  assert (Hd : Forall (digit 10) (map (fun c => c - 48) s)).
  { apply Forall_forall. intros d Hd. apply in_map_iff in Hd. destruct Hd as (c & <- & Hc).
    rewrite forallb_forall in H. specialize (H c Hc). unfold is_digit in H. unfold digit. lia. }
  pose proof (fd_bounds 10 _ ltac:(lia) Hd). lia.
Qed.

Lemma classify_literal chunk n : classify chunk = PNum n -> 0 <= n.
Proof.
  unfold classify. set (p := map lower_char (strip chunk)).
  destruct (list_eqb Z.eqb p s_pid); [discriminate|].
  destruct (negb match p with [] => true | _ => false end && forallb is_digit p) eqn:E.
  - intros H. injection H as <-. apply is_digit_value. apply andb_true_iff in E. apply E.
  - destruct (list_eqb Z.eqb p s_index); [discriminate|].
    destruct (list_eqb Z.eqb p s_context); discriminate.
Qed.

Definition literal_ok (p : part) : Prop := match p with PNum n => 0 <= n | _ => True end.

Lemma parse_literals_nonneg s tpl : parse_template s = Ok tpl -> Forall literal_ok tpl /\ tpl <> [].
Proof.
  unfold parse_template. destruct (forallb _ s); [|discriminate]. intros H. injection H as <-. split.
  - apply Forall_forall. intros p Hp. apply in_map_iff in Hp. destruct Hp as (chunk & <- & _).
    destruct (classify chunk) eqn:E; cbn [literal_ok]; auto. eapply classify_literal; eauto.
  - destruct (split_on_nonempty 44 s) as (h & t & ->). discriminate.
Qed.

(* ================================================================ totality (the theorems are not vacuous) *)

Lemma instantiate_nonneg tpl pid c i :
  Forall literal_ok tpl -> nonneg pid -> 0 <= c -> 0 <= i -> nonneg (instantiate tpl pid c i).
Proof.
  intros Ht Hp Hc Hi. unfold instantiate, nonneg. apply Forall_forall. intros x Hx.
  apply in_flat_map in Hx. destruct Hx as (p & Hp' & Hx). rewrite Forall_forall in Ht.
  specialize (Ht p Hp'). destruct p; cbn [part_nums In literal_ok] in *.
  - unfold nonneg in Hp. rewrite Forall_forall in Hp. auto.
  - destruct Hx as [<-|[]]. exact Hc.
  - destruct Hx as [<-|[]]. exact Hi.
  - destruct Hx as [<-|[]]. exact Ht.
  - contradiction.
Qed.

Lemma from_digits_nonneg b ds : 2 <= b -> Forall (digit b) ds -> 0 <= from_digits b ds.
Proof. intros Hb Hd. pose proof (fd_bounds b ds Hb Hd). lia. Qed.

Lemma encode_nonneg l : nonneg l -> 0 <= encode l.
Proof.
  intros Hl. unfold encode. apply from_digits_nonneg; [lia|].
  apply join9_digits. apply map_oct_ochunk. exact Hl.
Qed.

Lemma plain_value_total tpl pid c i :
  Forall literal_ok tpl -> nonneg pid -> 0 <= c -> 0 <= i ->
  exists v, plain_value tpl pid c i = Ok v /\ 0 <= v.
Proof.
  intros Ht Hp Hc Hi. pose proof (instantiate_nonneg tpl pid c i Ht Hp Hc Hi) as Hn.
  unfold plain_value. replace (forallb (fun x => 0 <=? x) (instantiate tpl pid c i)) with true.
  - eexists. split; [reflexivity|]. apply encode_nonneg. exact Hn.
  - symmetry. apply forallb_forall. intros x Hx. unfold nonneg in Hn. rewrite Forall_forall in Hn.
    specialize (Hn x Hx). lia.
Qed.

Lemma scramble_total mask nbits n mb :
  0 <= n -> 10 <= mb <= 1012 -> (n / 10 <> 0 -> nbits (n / 10) < 1000) ->
  exists v, scramble mask nbits n mb = Ok v.
Proof.
  intros Hn Hmb Hnb. unfold scramble. cbv zeta.
  destruct (mb <? 10) eqn:E1; [lia|].
  destruct (n / 10 <? 0) eqn:E2; [pose proof (Z.div_pos n 10); lia|].
  destruct (negb (Z.max (Z.max 10 (mb - 13))
                        (if n / 10 =? 0 then Z.max 10 (mb - 13) else nbits (n / 10)) <? 1000)) eqn:E3.
  - exfalso. destruct (n / 10 =? 0) eqn:E4; [lia|]. assert (n / 10 <> 0) by lia. specialize (Hnb H). lia.
  - eexists. reflexivity.
Qed.

(* a numeric generator made from ANY accepted template string, with non-negative pid numbers, never
   fails on a draw while the number stays below the 1000-bit limit of scramble_number *)
Lemma num_value_total mask nbits s tpl pid c i r :
  parse_template s = Ok tpl -> nonneg pid -> 0 <= c -> 0 <= i ->
  (forall x, nbits x < 1000) ->
  exists v, num_value mask nbits tpl pid c i r = Ok v.
Proof.
  intros Hs Hp Hc Hi Hnb. destruct (parse_literals_nonneg s tpl Hs) as [Hl _].
  destruct (plain_value_total tpl pid c i Hl Hp Hc Hi) as (v & Hv & Hv0).
  unfold num_value, bind. rewrite Hv. destruct r; [|eauto].
  apply scramble_total; [exact Hv0|lia|intros _; apply Hnb].
Qed.

(* scramble_number is injective even if the float logarithm gave different bit counts for the two
   calls: the result carries the bit count that was used *)
Lemma scramble_inj_any_nbits mask nbits nbits' n n' mb mb' v :
  scramble mask nbits n mb = Ok v -> scramble mask nbits' n' mb' = Ok v -> n = n'.
Proof.
  intros H H'. apply scramble_unscramble in H. apply scramble_unscramble in H'.
  rewrite H in H'. injection H'. auto.
Qed.

(* the requested min_chars is honoured (randomize_codes raises it to at least 4) *)
Lemma alpha_new_min_chars tpl abc mc rc a :
  alpha_new tpl abc mc rc = Ok a -> mc <= al_min_chars a /\ al_randomize a = rc /\
  (2 <= length (al_alphabet a))%nat.
Proof.
  unfold alpha_new, bind. destruct (gen_new_ok tpl); [|discriminate].
  set (al := match abc with None => default_alphabet | Some [] => default_alphabet | Some a0 => a0 end).
  destruct (existsb (Z.eqb 45) al); [discriminate|].
  destruct (Z.of_nat (length al) <=? 1) eqn:E; [discriminate|].
  intros H. injection H as <-. cbn [al_min_chars al_randomize al_alphabet]. splits.
  - destruct rc; lia.
  - reflexivity.
  - lia.
Qed.

Lemma alpha_code_requested_length mask nbits bpc tpl abc mc rc a pid c i s :
  alpha_new tpl abc mc rc = Ok a -> alpha_value mask nbits bpc a tpl pid c i = Ok s ->
  mc <= Z.of_nat (length s) /\ Forall (fun ch => In ch (al_alphabet a)) s.
Proof.
  intros Ha Hv. destruct (alpha_new_min_chars _ _ _ _ _ Ha) as (Hm & _).
  destruct (alpha_value_charset_len mask nbits bpc _ _ _ _ _ _ Hv) as [Hc Hl]. split; [lia|exact Hc].
Qed.

(* ================================================================ one generator, several names *)

Lemma st_lookup_map (f : nat -> nat) st nm :
  st_lookup (map (fun e => (fst e, f (snd e))) st) nm = option_map f (st_lookup st nm).
Proof.
  induction st as [|e r IH]; [reflexivity|].
  cbn [map st_lookup fst snd]. destruct (Nat.eqb (fst e) nm); [reflexivity|exact IH].
Qed.

Lemma st_lookup_In st nm g : st_lookup st nm = Some g -> In g (map snd st).
Proof.
  induction st as [|e r IH]; cbn [st_lookup map]; [discriminate|].
  destruct (Nat.eqb (fst e) nm).
  - intros H. injection H as H. left. exact H.
  - intros H. right. exact (IH H).
Qed.

Lemma gen_position_inj l x y : In x l -> In y l -> gen_position x l = gen_position y l -> x = y.
Proof.
  induction l as [|z r IH]; [intros []|].
  intros Hx Hy. cbn [gen_position].
  destruct (Nat.eqb z x) eqn:Ex; destruct (Nat.eqb z y) eqn:Ey.
  - apply Nat.eqb_eq in Ex. apply Nat.eqb_eq in Ey. congruence.
  - discriminate.
  - discriminate.
  - intros H. injection H as H. apply IH; [| |exact H].
    + destruct Hx as [Hx|Hx]; [|exact Hx]. subst z. rewrite Nat.eqb_refl in Ex. discriminate.
    + destruct Hy as [Hy|Hy]; [|exact Hy]. subst z. rewrite Nat.eqb_refl in Ey. discriminate.
Qed.

(* A continuation keeps the sharing: two names denote the same generator afterwards exactly when they did
   before; and what they denote afterwards is a generator made by the continuation (its number lies above
   every generator that existed before: a new constructor call, a new context number). *)
Lemma names_continue_keeps_sharing st a b ga gb :
  st_lookup (ns_store st) a = Some ga -> st_lookup (ns_store st) b = Some gb ->
  exists ga' gb',
    st_lookup (ns_store (fst (n_continue st))) a = Some ga' /\
    st_lookup (ns_store (fst (n_continue st))) b = Some gb' /\
    (ga = gb <-> ga' = gb') /\
    (length (ns_made st) <= ga')%nat /\ (length (ns_made st) <= gb')%nat.
Proof.
  intros Ha Hb. unfold n_continue. cbn [fst ns_store].
  rewrite !(st_lookup_map (fun g => (length (ns_made st) + gen_position g (reachable (ns_store st)))%nat)).
  rewrite Ha, Hb. cbn [option_map].
  eexists. eexists. split; [reflexivity|]. split; [reflexivity|]. split; [|split; lia].
  split.
  - intros ->. reflexivity.
  - intros H. apply Nat.add_cancel_l in H.
    apply (gen_position_inj (reachable (ns_store st))); [| |exact H]; unfold reachable; apply nodup_In.
    + exact (st_lookup_In _ _ _ Ha).
    + exact (st_lookup_In _ _ _ Hb).
Qed.

(* every program over names is a sequence of operations of the process machine: its keys are pairwise
   different (no (context, index) pair is used twice, whatever the names, the aliases and the continuations) *)
Lemma names_keys_NoDup c0 prog :
  NoDup (names_keys c0 prog) /\ NoDup (map key_ci (names_keys c0 prog)).
Proof. split; [apply process_keys_NoDup_full|apply process_keys_NoDup]. Qed.

Section NamesP.
  Variable mask : Z -> Z -> Z.
  Variable nbits : Z -> Z.
  Variable bpc : Z -> Z.

  (* one generator (one spec, one context number), template containing `index` — with or without `context`:
     different indexes, different values *)
  Lemma rvalue_same_gen_inj r c i i' v :
    comparable r r -> In PIndex (spec_tpl r) ->
    rvalue mask nbits bpc r c i = Ok v -> rvalue mask nbits bpc r c i' = Ok v -> i = i'.
  Proof.
    destruct r as [tpl pid rand|tpl pid a]; cbn [comparable spec_tpl].
    - intros _ Hi. unfold rvalue, bind.
      destruct (num_value mask nbits tpl pid c i rand) as [z|] eqn:E; [|discriminate].
      destruct (num_value mask nbits tpl pid c i' rand) as [z'|] eqn:E'; [|discriminate].
      intros H H'. injection H as <-. injection H' as ->.
      exact (proj1 (num_value_inj mask nbits _ _ _ _ _ _ _ _ _ Hi eq_refl E E')).
    - intros (_ & _ & _ & _ & Hnd & Hlen) Hi. unfold rvalue, bind.
      destruct (alpha_value mask nbits bpc a tpl pid c i) as [z|] eqn:E; [|discriminate].
      destruct (alpha_value mask nbits bpc a tpl pid c i') as [z'|] eqn:E'; [|discriminate].
      intros H H'. injection H as <-. injection H' as ->.
      exact (proj1 (alpha_value_inj mask nbits bpc _ _ _ _ _ _ _ _ _ _ eq_refl eq_refl Hnd Hlen Hi eq_refl E E')).
  Qed.

  (* two draws of a program over names that land on the same generator give the same value only if they are
     the same draw *)
  Lemma names_values_distinct c0 prog p q r c i i' v :
    nth_error (names_keys c0 prog) p = Some (r, c, i) ->
    nth_error (names_keys c0 prog) q = Some (r, c, i') ->
    comparable r r -> In PIndex (spec_tpl r) ->
    rvalue mask nbits bpc r c i = Ok v -> rvalue mask nbits bpc r c i' = Ok v -> p = q.
  Proof.
    intros Hp Hq Hcmp Hi Hv Hv'.
    assert (i = i') as <- by exact (rvalue_same_gen_inj _ _ _ _ _ Hcmp Hi Hv Hv').
    destruct (names_keys_NoDup c0 prog) as [Hnd _].
    rewrite NoDup_nth_error in Hnd. apply Hnd.
    - apply nth_error_Some. rewrite Hp. discriminate.
    - rewrite Hp, Hq. reflexivity.
  Qed.
End NamesP.
