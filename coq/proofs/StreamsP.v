(* StreamsP.v — proofs about theories/Streams.v (property C08). *)
From Coq Require Import ZArith List Bool String Lia.
From SFV Require Import Base Streams.
Import ListNotations. Open Scope Z_scope.

Ltac splits := repeat match goal with |- _ /\ _ => split end.

(* ------------------------------------------------------------------ association lists *)

Lemma eqb_eq' a b : String.eqb a b = true -> a = b.
Proof. apply String.eqb_eq. Qed.

Lemma aget_aset_same {A} k (v : A) l : aget k (aset k v l) = Some v.
Proof.
  induction l as [|[k0 v0] r IH]; cbn [aset aget].
  - rewrite String.eqb_refl. reflexivity.
  - destruct (String.eqb k0 k) eqn:E; cbn [aget]; rewrite E; auto.
Qed.

Lemma aget_aset_other {A} k k' (v : A) l : k <> k' -> aget k' (aset k v l) = aget k' l.
Proof.
  intros N. induction l as [|[k0 v0] r IH]; cbn [aset aget].
  - destruct (String.eqb k k') eqn:E; [apply eqb_eq' in E; contradiction|reflexivity].
  - destruct (String.eqb k0 k) eqn:E; cbn [aget].
    + apply eqb_eq' in E. subst k0.
      destruct (String.eqb k k') eqn:E2; [apply eqb_eq' in E2; contradiction|reflexivity].
    + rewrite IH. reflexivity.
Qed.

Lemma aget_In {A} k (l : list (string * A)) : In k (map fst l) <-> aget k l <> None.
Proof.
  induction l as [|[k0 v0] r IH]; cbn [map fst In aget].
  - split; [tauto|congruence].
  - destruct (String.eqb k0 k) eqn:E.
    + apply eqb_eq' in E. split; [congruence|auto].
    + rewrite <- IH. split; [intros [H|H]; [subst; rewrite String.eqb_refl in E; discriminate|auto]|auto].
Qed.

Lemma map_fst_aset_present {A} k (v : A) l : In k (map fst l) -> map fst (aset k v l) = map fst l.
Proof.
  induction l as [|[k0 v0] r IH]; cbn [aset map fst In]; [tauto|].
  intros H. destruct (String.eqb k0 k) eqn:E; cbn [map fst]; [reflexivity|].
  f_equal. apply IH. destruct H as [H|H]; [subst; rewrite String.eqb_refl in E; discriminate|exact H].
Qed.

Lemma lget_aset_same {A} k (v : list A) l : lget k (aset k v l) = v.
Proof. unfold lget. rewrite aget_aset_same. reflexivity. Qed.

Lemma lget_aset_other {A} k k' (v : list A) l : k <> k' -> lget k' (aset k v l) = lget k' l.
Proof. intros. unfold lget. rewrite aget_aset_other by assumption. reflexivity. Qed.

(* two dicts with the same key sequence and the same value under every key are equal *)
Lemma assoc_ext {A} (l1 l2 : list (string * list A)) :
  NoDup (map fst l1) -> map fst l1 = map fst l2 ->
  (forall k, In k (map fst l1) -> lget k l1 = lget k l2) -> l1 = l2.
Proof.
  revert l2. induction l1 as [|[k v] r IH]; intros [|[k2 v2] r2] ND HK HV; cbn [map fst] in *;
    try discriminate; [reflexivity|].
  injection HK as -> HK. inversion ND as [|? ? Hn ND']; subst.
  assert (v = v2).
  { specialize (HV k2 (or_introl eq_refl)). unfold lget in HV. cbn [aget] in HV.
    rewrite String.eqb_refl in HV. exact HV. }
  subst v2. f_equal. apply IH; auto.
  intros k Hk. specialize (HV k (or_intror Hk)). unfold lget in *. cbn [aget] in HV.
  destruct (String.eqb k2 k) eqn:E; [apply eqb_eq' in E; subst; contradiction|exact HV].
Qed.

(* ------------------------------------------------------------------ flush *)

Lemma flush_tables_spec acc ti : forall buf db buf' db',
  NoDup (map fst ti) ->
  (forall t, In t (map fst ti) -> In t (map fst db)) ->
  flush_tables acc ti buf db = Ok (buf', db') ->
  map fst db' = map fst db /\
  (forall t cols, In (t, cols) ti ->
     lget t db' = lget t db ++ map (project cols) (lget t buf) /\ lget t buf' = []) /\
  (forall t, ~ In t (map fst ti) -> lget t db' = lget t db /\ aget t buf' = aget t buf).
Proof.
  induction ti as [|[t cols] rest IH]; intros buf db buf' db' ND HK H; cbn [flush_tables] in H.
  - injection H as <- <-. splits; auto. intros ? ? [].
  - cbn [map fst] in ND, HK. inversion ND as [|? ? Hn ND']; subst.
    destruct (forallb acc (map (project cols) (lget t buf))) eqn:EA; [|discriminate].
    set (vals := map (project cols) (lget t buf)) in *.
    set (db1 := match vals with [] => db | _ => aset t (lget t db ++ vals) db end) in *.
    assert (Hd1k : map fst db1 = map fst db).
    { unfold db1. destruct vals; [reflexivity|]. apply map_fst_aset_present. apply HK. left. reflexivity. }
    assert (Hd1t : lget t db1 = lget t db ++ vals).
    { unfold db1. destruct vals eqn:EV; [rewrite app_nil_r; reflexivity|]. apply lget_aset_same. }
    assert (Hd1o : forall t', t <> t' -> lget t' db1 = lget t' db).
    { intros t' N. unfold db1. destruct vals; [reflexivity|]. apply lget_aset_other. exact N. }
    apply IH in H; [|exact ND'|intros t' Ht'; rewrite Hd1k; apply HK; right; exact Ht'].
    destruct H as (HA & HB & HC). splits.
    + rewrite HA. exact Hd1k.
    + intros t' cols' [E|Hin].
      * injection E as <- <-. destruct (HC t Hn) as (HC1 & HC2). split.
        -- rewrite HC1. exact Hd1t.
        -- unfold lget. rewrite HC2, aget_aset_same. reflexivity.
      * assert (t <> t').
        { intros ->. apply Hn. apply in_map_iff. exists (t', cols'). auto. }
        destruct (HB t' cols' Hin) as (HB1 & HB2). split; [|exact HB2].
        rewrite HB1, Hd1o by assumption. rewrite lget_aset_other by assumption. reflexivity.
    + intros t' Hn'. cbn [map fst In] in Hn'.
      assert (t <> t') by (intros ->; apply Hn'; left; reflexivity).
      destruct (HC t') as (HC1 & HC2); [intros Hx; apply Hn'; right; exact Hx|]. split.
      * rewrite HC1. apply Hd1o. assumption.
      * rewrite HC2. apply aget_aset_other. assumption.
Qed.

Lemma flush_tables_ok acc ti : forall buf db,
  NoDup (map fst ti) ->
  (forall t cols, In (t, cols) ti -> forallb acc (map (project cols) (lget t buf)) = true) ->
  exists r, flush_tables acc ti buf db = Ok r.
Proof.
  induction ti as [|[t cols] rest IH]; intros buf db ND HA; cbn [flush_tables].
  - eexists; reflexivity.
  - cbn [map fst] in ND. inversion ND as [|? ? Hn ND']; subst.
    rewrite (HA t cols (or_introl eq_refl)).
    apply IH; [exact ND'|]. intros t' cols' Hin.
    assert (t <> t').
    { intros ->. apply Hn. apply in_map_iff. exists (t', cols'). auto. }
    rewrite lget_aset_other by assumption. apply HA. right. exact Hin.
Qed.

(* ------------------------------------------------------------------ the buffer invariant *)

Section Machine.
  Variable acc : row -> bool.
  Variable hc : bool.
  Variables fl cl : Z.
  Variable ti : tables.
  Hypothesis ND : NoDup (map fst ti).

  (* database ++ buffer = everything written so far (per table, projected) *)
  Definition Inv (done : list (string * row)) (s : dbst) : Prop :=
    map fst (d_db s) = map fst ti /\
    forall t cols, In (t, cols) ti ->
      lget t (d_db s) ++ map (project cols) (lget t (d_buf s)) = map (project cols) (rows_of t done).

  Lemma Inv_init : Inv [] (db_init ti).
  Proof.
    unfold Inv, db_init. cbn [d_db d_buf]. split.
    - rewrite map_map. cbn [fst]. reflexivity.
    - intros t cols Hin. unfold rows_of. cbn [filter map lget aget].
      rewrite app_nil_r.
      assert (H : forall (l : tables), lget t (map (fun tc => (fst tc, @nil row)) l) = []).
      { induction l as [|[a b] l IHl]; unfold lget in *; cbn [map aget fst]; [reflexivity|].
        destruct (String.eqb a t); [reflexivity|exact IHl]. }
      apply H.
  Qed.

  Lemma rows_of_app t a b : rows_of t (a ++ b) = rows_of t a ++ rows_of t b.
  Proof. unfold rows_of. rewrite filter_app, map_app. reflexivity. Qed.

  Lemma Inv_flush done s s' : Inv done s -> db_flush acc ti s = Ok s' ->
    Inv done s' /\ (forall t cols, In (t, cols) ti -> lget t (d_buf s') = []) /\
    d_count s' = d_count s.
  Proof.
    intros (HK & HE) H. unfold db_flush in H.
    destruct (flush_tables acc ti (d_buf s) (d_db s)) as [[b d]|] eqn:EF; cbn [bind] in H; [|discriminate].
    injection H as <-. unfold Inv. cbn [d_db d_buf d_count fst snd].
    apply flush_tables_spec in EF; [|exact ND|intros t Ht; rewrite HK; exact Ht].
    destruct EF as (HA & HB & _). splits.
    - rewrite HA. exact HK.
    - intros t cols Hin. destruct (HB t cols Hin) as (H1 & H2).
      rewrite H1, H2. cbn [map]. rewrite app_nil_r. apply HE. exact Hin.
    - intros t cols Hin. apply (HB t cols Hin).
    - reflexivity.
  Qed.

  Lemma Inv_commit done s s' : Inv done s -> db_commit acc ti s = Ok s' ->
    Inv done s' /\ d_count s' = d_count s.
  Proof.
    intros HI H. unfold db_commit in H.
    destruct (existsb _ (d_buf s)).
    - apply (Inv_flush done) in H; [|exact HI]. tauto.
    - injection H as <-. auto.
  Qed.

  Lemma Inv_write done s t r s' :
    Inv done s -> db_write acc hc fl cl ti s t r = Ok s' -> Inv (done ++ [(t, r)]) s'.
  Proof.
    intros (HK & HE) H. unfold db_write in H.
    destruct ((fl =? 0) || (cl =? 0)); [discriminate|].
    set (s1 := mkDb (d_count s) (aset t (lget t (d_buf s) ++ [r]) (d_buf s)) (d_db s)) in *.
    assert (I1 : Inv (done ++ [(t, r)]) s1).
    { split; [exact HK|]. intros t' cols Hin. unfold s1. cbn [d_db d_buf].
      rewrite rows_of_app, map_app, <- (HE t' cols Hin).
      unfold rows_of at 1. cbn [filter fst map snd].
      destruct (String.eqb t t') eqn:E.
      - apply eqb_eq' in E. subst t'. rewrite lget_aset_same, map_app, app_assoc. reflexivity.
      - cbn [map]. rewrite app_nil_r. rewrite lget_aset_other; [reflexivity|].
        intros ->. rewrite String.eqb_refl in E. discriminate. }
    clearbody s1.
    destruct (if d_count s1 mod fl =? 0 then db_flush acc ti s1 else Ok s1) as [s2|] eqn:E2;
      cbn [bind] in H; [|discriminate].
    assert (I2 : Inv (done ++ [(t, r)]) s2).
    { destruct (d_count s1 mod fl =? 0).
      - apply (Inv_flush _ _ _ I1) in E2. tauto.
      - injection E2 as <-. exact I1. }
    destruct (if (d_count s2 mod cl =? 0) && hc then db_commit acc ti s2 else Ok s2) as [s3|] eqn:E3;
      cbn [bind] in H; [|discriminate].
    assert (I3 : Inv (done ++ [(t, r)]) s3).
    { destruct ((d_count s2 mod cl =? 0) && hc).
      - apply (Inv_commit _ _ _ I2) in E3. tauto.
      - injection E3 as <-. exact I2. }
    injection H as <-. exact I3.
  Qed.

  Lemma Inv_writes rest : forall done s s',
    Inv done s -> db_writes acc hc fl cl ti s rest = Ok s' -> Inv (done ++ rest) s'.
  Proof.
    induction rest as [|[t r] rest IH]; intros done s s' HI H; cbn [db_writes] in H.
    - injection H as <-. rewrite app_nil_r. exact HI.
    - destruct (db_write acc hc fl cl ti s t r) as [s1|] eqn:E; cbn [bind] in H; [|discriminate].
      apply (Inv_write _ _ _ _ _ HI) in E.
      apply (IH _ _ _ E) in H. rewrite <- app_assoc in H. exact H.
  Qed.

  Lemma no_key_lget (buf : list (string * list row)) t :
    existsb (fun kv => negb (String.eqb (fst kv) "")) buf = false -> t <> ""%string -> lget t buf = [].
  Proof.
    intros H N. unfold lget. induction buf as [|[k v] b IH]; cbn [aget]; [reflexivity|].
    cbn [existsb fst] in H. apply orb_false_iff in H. destruct H as (H1 & H2).
    apply negb_false_iff in H1. apply eqb_eq' in H1. subst k.
    destruct (String.eqb "" t) eqn:E; [apply eqb_eq' in E; congruence|]. apply IH. exact H2.
  Qed.

  Hypothesis names : forall t, In t (map fst ti) -> t <> ""%string.

  Lemma lget_expected done t cols : In (t, cols) ti ->
    lget t (expected_db ti done) = map (project cols) (rows_of t done).
  Proof.
    intros Hin. clear names. unfold expected_db.
    induction ti as [|[a b] l IHl]; [destruct Hin|].
    cbn [map fst] in ND. inversion ND as [|? ? Hn ND']; subst.
    unfold lget. cbn [map aget fst snd]. destruct Hin as [E|Hin].
    + injection E as -> ->. rewrite String.eqb_refl. reflexivity.
    + destruct (String.eqb a t) eqn:E.
      * apply eqb_eq' in E. subst a. exfalso. apply Hn. apply in_map_iff. exists (t, cols). auto.
      * apply IHl; assumption.
  Qed.

  (* with empty buffers the database holds everything written so far *)
  Lemma Inv_empty_db done s : Inv done s ->
    (forall t cols, In (t, cols) ti -> lget t (d_buf s) = []) -> d_db s = expected_db ti done.
  Proof.
    intros (HK & HE) HB.
    assert (EK : map fst (expected_db ti done) = map fst ti).
    { unfold expected_db. rewrite map_map. cbn [fst]. reflexivity. }
    apply assoc_ext.
    - rewrite HK. exact ND.
    - rewrite HK, EK. reflexivity.
    - intros k Hk. rewrite HK in Hk. apply in_map_iff in Hk. destruct Hk as ([t cols] & <- & Hin).
      cbn [fst]. rewrite (lget_expected done t cols Hin), <- (HE t cols Hin), (HB t cols Hin).
      cbn [map]. rewrite app_nil_r. reflexivity.
  Qed.

  Lemma Inv_close done s s' : Inv done s -> db_close acc ti s = Ok s' ->
    d_db s' = expected_db ti done.
  Proof.
    intros HI H. unfold db_close, db_commit in H.
    destruct (existsb _ (d_buf s)) eqn:EX.
    - apply (Inv_flush _ _ _ HI) in H. destruct H as (HI' & HB & _).
      apply Inv_empty_db; assumption.
    - injection H as <-. apply Inv_empty_db; [exact HI|].
      intros t cols Hin. apply (no_key_lget _ t EX).
      apply names. apply in_map_iff. exists (t, cols). auto.
  Qed.

  (* the main statement: for every row list, whatever the thresholds *)
  Theorem db_lossless rows s :
    db_run acc hc fl cl ti rows = Ok s -> d_db s = expected_db ti rows.
  Proof.
    unfold db_run. intros H.
    destruct (db_writes acc hc fl cl ti (db_init ti) rows) as [s1|] eqn:E; cbn [bind] in H; [|discriminate].
    apply (Inv_writes _ _ _ _ Inv_init) in E. cbn [app] in E.
    exact (Inv_close _ _ _ E H).
  Qed.

  (* ---- progress: if the database accepts every (projected) row, nothing raises ---- *)

  Definition accepted (rows : list (string * row)) : Prop :=
    forall t cols r, In (t, cols) ti -> In r (rows_of t rows) -> acc (project cols r) = true.

  Lemma Inv_buffer_accepted done s : Inv done s -> accepted done ->
    forall t cols, In (t, cols) ti -> forallb acc (map (project cols) (lget t (d_buf s))) = true.
  Proof.
    intros (_ & HE) HA t cols Hin. apply forallb_forall. intros x Hx.
    assert (In x (map (project cols) (rows_of t done))).
    { rewrite <- (HE t cols Hin). apply in_or_app. right. exact Hx. }
    apply in_map_iff in H. destruct H as (r & <- & Hr). apply (HA t cols r Hin Hr).
  Qed.

  Lemma flush_ok done s : Inv done s -> accepted done -> exists s', db_flush acc ti s = Ok s'.
  Proof.
    intros HI HA. unfold db_flush.
    destruct (flush_tables_ok acc ti (d_buf s) (d_db s) ND (Inv_buffer_accepted _ _ HI HA)) as (r & ->).
    cbn [bind]. eexists; reflexivity.
  Qed.

  Lemma commit_ok done s : Inv done s -> accepted done -> exists s', db_commit acc ti s = Ok s'.
  Proof.
    intros HI HA. unfold db_commit. destruct (existsb _ (d_buf s)).
    - apply (flush_ok done); assumption.
    - eexists; reflexivity.
  Qed.

  Hypothesis fl_pos : 0 < fl.
  Hypothesis cl_pos : 0 < cl.

  Lemma write_ok done s t r : Inv done s -> accepted (done ++ [(t, r)]) ->
    exists s', db_write acc hc fl cl ti s t r = Ok s'.
  Proof.
    intros HI HA.
    assert (I1 : Inv (done ++ [(t, r)])
                     (mkDb (d_count s) (aset t (lget t (d_buf s) ++ [r]) (d_buf s)) (d_db s))).
    { destruct HI as (HK & HE). split; [exact HK|]. intros t' cols Hin. cbn [d_db d_buf].
      rewrite rows_of_app, map_app, <- (HE t' cols Hin).
      unfold rows_of at 1. cbn [filter fst map snd].
      destruct (String.eqb t t') eqn:E.
      - apply eqb_eq' in E. subst t'. rewrite lget_aset_same, map_app, app_assoc. reflexivity.
      - cbn [map]. rewrite app_nil_r. rewrite lget_aset_other; [reflexivity|].
        intros ->. rewrite String.eqb_refl in E. discriminate. }
    unfold db_write.
    replace ((fl =? 0) || (cl =? 0)) with false
      by (symmetry; apply orb_false_iff; split; apply Z.eqb_neq; lia).
    set (s1 := mkDb _ _ _) in *. clearbody s1.
    assert (exists s2, (if d_count s1 mod fl =? 0 then db_flush acc ti s1 else Ok s1) = Ok s2 /\
                       Inv (done ++ [(t, r)]) s2) as (s2 & -> & I2).
    { destruct (d_count s1 mod fl =? 0).
      - destruct (flush_ok _ _ I1 HA) as (s2 & E). exists s2. split; [exact E|].
        apply (Inv_flush _ _ _ I1) in E. tauto.
      - exists s1. auto. }
    cbn [bind].
    assert (exists s3, (if (d_count s2 mod cl =? 0) && hc then db_commit acc ti s2 else Ok s2) = Ok s3)
      as (s3 & ->).
    { destruct ((d_count s2 mod cl =? 0) && hc).
      - apply (commit_ok _ _ I2 HA).
      - eexists; reflexivity. }
    cbn [bind]. eexists; reflexivity.
  Qed.

  Lemma accepted_prefix a b : accepted (a ++ b) -> accepted a.
  Proof.
    intros H t cols r Hin Hr. apply (H t cols r Hin). rewrite rows_of_app. apply in_or_app. auto.
  Qed.

  Lemma writes_ok rest : forall done s, Inv done s -> accepted (done ++ rest) ->
    exists s', db_writes acc hc fl cl ti s rest = Ok s'.
  Proof.
    induction rest as [|[t r] rest IH]; intros done s HI HA; cbn [db_writes].
    - eexists; reflexivity.
    - assert (HA1 : accepted (done ++ [(t, r)])).
      { apply (accepted_prefix _ rest). rewrite <- app_assoc. exact HA. }
      destruct (write_ok _ _ t r HI HA1) as (s1 & E). rewrite E. cbn [bind].
      apply (IH (done ++ [(t, r)])).
      + apply (Inv_write _ _ _ _ _ HI E).
      + rewrite <- app_assoc. exact HA.
  Qed.

  Theorem db_run_ok rows : accepted rows -> exists s, db_run acc hc fl cl ti rows = Ok s.
  Proof.
    intros HA. unfold db_run.
    destruct (writes_ok rows [] (db_init ti) Inv_init HA) as (s1 & E). rewrite E. cbn [bind].
    apply (commit_ok rows).
    - apply (Inv_writes _ _ _ _ Inv_init E).
    - exact HA.
  Qed.

  (* ---- which rows a second connection can see after n writes ---- *)

  Hypothesis fl_divides_cl : (fl | cl).

  Definition visible_prefix (n : nat) : nat := Z.to_nat (fl * (Z.of_nat n / fl)).

  Lemma div_step n : 0 <= n -> (n + 1) mod fl <> 0 -> (n + 1) / fl = n / fl.
  Proof.
    intros Hn Hm. symmetry. apply (Z.div_unique (n + 1) fl (n / fl) (n mod fl + 1)).
    - left. pose proof (Z.mod_pos_bound n fl fl_pos) as B.
      destruct (Z.eq_dec (n mod fl + 1) fl) as [E|E]; [|lia].
      exfalso. apply Hm. pose proof (Z.div_mod n fl) as D.
      replace (n + 1) with ((n / fl + 1) * fl) by lia. apply Z.mod_mul. lia.
    - pose proof (Z.div_mod n fl). lia.
  Qed.

  Definition Vis (done : list (string * row)) (s : dbst) : Prop :=
    Inv done s /\ d_count s = Z.of_nat (length done) + 1 /\
    d_db s = expected_db ti (firstn (visible_prefix (length done)) done).

  Lemma Vis_init : Vis [] (db_init ti).
  Proof.
    unfold Vis. splits; [exact Inv_init|reflexivity|].
    unfold visible_prefix. cbn [length firstn]. rewrite firstn_nil.
    unfold db_init, expected_db. cbn [d_db]. apply map_ext. intros [a b]. reflexivity.
  Qed.

  Lemma Vis_write done s t r s' :
    Vis done s -> db_write acc hc fl cl ti s t r = Ok s' -> Vis (done ++ [(t, r)]) s'.
  Proof.
    intros (HI & HC & HD) H. pose proof (Inv_write _ _ _ _ _ HI H) as HI'.
    assert (HL : Z.of_nat (length (done ++ [(t, r)])) = Z.of_nat (length done) + 1).
    { rewrite app_length. cbn [length]. lia. }
    unfold db_write in H.
    replace ((fl =? 0) || (cl =? 0)) with false in H
      by (symmetry; apply orb_false_iff; split; apply Z.eqb_neq; lia).
    set (s1 := mkDb (d_count s) (aset t (lget t (d_buf s) ++ [r]) (d_buf s)) (d_db s)) in *.
    assert (I1 : Inv (done ++ [(t, r)]) s1).
    { destruct HI as (HK & HE). split; [exact HK|]. intros t' cols Hin. unfold s1. cbn [d_db d_buf].
      rewrite rows_of_app, map_app, <- (HE t' cols Hin).
      unfold rows_of at 1. cbn [filter fst map snd].
      destruct (String.eqb t t') eqn:E.
      - apply eqb_eq' in E. subst t'. rewrite lget_aset_same, map_app, app_assoc. reflexivity.
      - cbn [map]. rewrite app_nil_r. rewrite lget_aset_other; [reflexivity|].
        intros ->. rewrite String.eqb_refl in E. discriminate. }
    assert (C1 : d_count s1 = Z.of_nat (length done) + 1) by exact HC.
    assert (D1 : d_db s1 = d_db s) by reflexivity.
    clearbody s1.
    destruct (d_count s1 mod fl =? 0) eqn:EF.
    - (* a flush boundary: afterwards everything written so far is visible *)
      destruct (db_flush acc ti s1) as [s2|] eqn:E2; cbn [bind] in H; [|discriminate].
      destruct (Inv_flush _ _ _ I1 E2) as (I2 & B2 & C2).
      assert (exists s3, Inv (done ++ [(t, r)]) s3 /\
                (forall t cols, In (t, cols) ti -> lget t (d_buf s3) = []) /\ d_count s3 = d_count s1 /\
                (if (d_count s2 mod cl =? 0) && hc then db_commit acc ti s2 else Ok s2) = Ok s3)
        as (s3 & I3 & B3 & C3 & E3).
      { destruct ((d_count s2 mod cl =? 0) && hc).
        - destruct (db_commit acc ti s2) as [s3|] eqn:E3; cbn [bind] in H; [|discriminate].
          exists s3. unfold db_commit in E3. destruct (existsb _ (d_buf s2)).
          + destruct (Inv_flush _ _ _ I2 E3) as (I3 & B3 & C3). splits; auto. congruence.
          + injection E3 as <-. splits; auto.
        - exists s2. splits; auto. }
      rewrite E3 in H. cbn [bind] in H. injection H as <-.
      unfold Vis. splits; [exact HI'|cbn [d_count]; lia|]. cbn [d_db].
      rewrite (Inv_empty_db _ _ I3 B3). f_equal.
      unfold visible_prefix. rewrite HL.
      apply Z.eqb_eq in EF. rewrite C1 in EF.
      assert (EX : Z.of_nat (length done) + 1 = fl * ((Z.of_nat (length done) + 1) / fl)).
      { apply Z_div_exact_full_2; [lia|exact EF]. }
      rewrite <- EX, <- HL, Nat2Z.id. symmetry. apply firstn_all.
    - (* not a boundary: the database does not change *)
      cbn [bind] in H. apply Z.eqb_neq in EF. rewrite C1 in EF.
      assert (EC : (d_count s1 mod cl =? 0) = false).
      { apply Z.eqb_neq. rewrite C1. intros Hc. apply EF.
        apply Z.mod_divide; [lia|]. apply (Z.divide_trans _ cl); [exact fl_divides_cl|].
        apply Z.mod_divide; [lia|exact Hc]. }
      rewrite EC in H. cbn [andb bind] in H. injection H as <-.
      unfold Vis. splits; [exact HI'|cbn [d_count]; lia|]. cbn [d_db]. rewrite D1, HD. f_equal.
      unfold visible_prefix. rewrite HL, (div_step (Z.of_nat (length done)) (Nat2Z.is_nonneg _) EF).
      rewrite firstn_app.
      replace (Z.to_nat (fl * (Z.of_nat (length done) / fl)) - length done)%nat with 0%nat.
      + cbn [firstn]. rewrite app_nil_r. reflexivity.
      + pose proof (Z.mul_div_le (Z.of_nat (length done)) fl fl_pos). lia.
  Qed.

  (* after n accepted writes the database shows exactly the first fl * (n / fl) rows *)
  Theorem db_visible rows : forall done s s', Vis done s ->
    db_writes acc hc fl cl ti s rows = Ok s' -> Vis (done ++ rows) s'.
  Proof.
    induction rows as [|[t r] rest IH]; intros done s s' HV H; cbn [db_writes] in H.
    - injection H as <-. rewrite app_nil_r. exact HV.
    - destruct (db_write acc hc fl cl ti s t r) as [s1|] eqn:E; cbn [bind] in H; [|discriminate].
      apply (Vis_write _ _ _ _ _ HV) in E. apply (IH _ _ _ E) in H.
      rewrite <- app_assoc in H. exact H.
  Qed.
End Machine.

(* after n writes (before close): count = n + 1, the database shows exactly the first
   fl * (n / fl) rows, and database ++ buffer = everything written so far *)
Theorem db_visible_prefix acc hc fl cl ti rows s :
  NoDup (map fst ti) -> 0 < fl -> 0 < cl -> (fl | cl) ->
  db_writes acc hc fl cl ti (db_init ti) rows = Ok s ->
  d_count s = Z.of_nat (length rows) + 1 /\
  d_db s = expected_db ti (firstn (Z.to_nat (fl * (Z.of_nat (length rows) / fl))) rows) /\
  (forall t cols, In (t, cols) ti ->
     lget t (d_db s) ++ map (project cols) (lget t (d_buf s)) = map (project cols) (rows_of t rows)).
Proof.
  intros ND F C D H.
  destruct (db_visible acc hc fl cl ti ND F C D rows [] _ _ (Vis_init fl ti) H) as ((_ & HE) & HC & HD).
  cbn [app] in *. splits; [exact HC|exact HD|exact HE].
Qed.

(* every written row of a known table is in the database afterwards *)
Theorem db_every_row acc hc fl cl ti rows s :
  NoDup (map fst ti) -> (forall t, In t (map fst ti) -> t <> ""%string) ->
  db_run acc hc fl cl ti rows = Ok s ->
  forall t r cols, In (t, r) rows -> In (t, cols) ti -> In (project cols r) (lget t (d_db s)).
Proof.
  intros ND NM H t r cols Hr Hin.
  rewrite (db_lossless acc hc fl cl ti ND NM rows s H).
  clear - ND Hr Hin. unfold expected_db.
  assert (L : lget t (map (fun tc => (fst tc, map (project (snd tc)) (rows_of (fst tc) rows))) ti)
              = map (project cols) (rows_of t rows)).
  { induction ti as [|[a b] l IHl]; [destruct Hin|].
    cbn [map fst] in ND. inversion ND as [|? ? Hn ND']; subst.
    unfold lget. cbn [map aget fst snd]. destruct Hin as [E|Hin].
    + injection E as -> ->. rewrite String.eqb_refl. reflexivity.
    + destruct (String.eqb a t) eqn:E.
      * apply eqb_eq' in E. subst a. exfalso. apply Hn. apply in_map_iff. exists (t, cols). auto.
      * apply IHl; assumption. }
  rewrite L. apply in_map. unfold rows_of. apply in_map_iff. exists (t, r). split; [reflexivity|].
  apply filter_In. split; [exact Hr|]. cbn [fst]. apply String.eqb_refl.
Qed.

(* ------------------------------------------------------------------ schema inference *)

Lemma mem_In k l : mem k l = true <-> In k l.
Proof.
  unfold mem. rewrite existsb_exists. split.
  - intros (x & Hx & E). apply eqb_eq' in E. subst. exact Hx.
  - intros H. exists k. split; [exact H|apply String.eqb_refl].
Qed.

Lemma add_fields_In l : forall acc f, In f (fold_left add_field l acc) <-> In f acc \/ In f l.
Proof.
  induction l as [|x l IH]; intros acc f; cbn [fold_left In]; [tauto|].
  rewrite IH. unfold add_field. destruct (mem x acc) eqn:E.
  - apply mem_In in E. split; [tauto|]. intros [H|[->|H]]; auto.
  - rewrite in_app_iff. cbn [In]. tauto.
Qed.

Definition covers (t : template) (ti : tinfo) : Prop :=
  (forall f, In f (t_fields t) -> hidden f = false -> In f (ti_fields ti)) /\
  (t_upd t = true -> ti_upd ti = true).

Definition extends (a b : tinfo) : Prop :=
  incl (ti_fields a) (ti_fields b) /\ (ti_upd a = true -> ti_upd b = true).

Lemma register_extends ti t : extends ti (register ti t).
Proof.
  unfold extends, register. cbn [ti_fields ti_upd]. split.
  - intros f Hf. apply add_fields_In. left. exact Hf.
  - intros ->. reflexivity.
Qed.

Lemma register_covers ti t : covers t (register ti t).
Proof.
  unfold covers, register. cbn [ti_fields ti_upd]. split.
  - intros f Hf Hh. apply add_fields_In. right. apply filter_In. split; [exact Hf|].
    rewrite Hh. reflexivity.
  - intros ->. apply orb_true_r.
Qed.

Lemma register_template_eq acc t :
  register_template acc t =
  aset (t_table t) (register (match aget (t_table t) acc with Some ti => ti | None => mkTI [] false end) t) acc.
Proof. reflexivity. Qed.

Lemma registered_grows tpls : forall acc name ti,
  aget name acc = Some ti ->
  exists ti', aget name (fold_left register_template tpls acc) = Some ti' /\ extends ti ti'.
Proof.
  induction tpls as [|t tpls IH]; intros acc name ti H; cbn [fold_left].
  - exists ti. split; [exact H|]. split; [apply incl_refl|auto].
  - rewrite register_template_eq.
    destruct (String.eqb (t_table t) name) eqn:E.
    + apply eqb_eq' in E. subst name. rewrite H.
      destruct (IH (aset (t_table t) (register ti t) acc) (t_table t) (register ti t))
        as (ti' & H1 & H2 & H3); [apply aget_aset_same|].
      exists ti'. split; [exact H1|]. destruct (register_extends ti t) as (R1 & R2). split.
      * intros f Hf. apply H2, R1, Hf.
      * intros Hu. apply H3, R2, Hu.
    + apply IH. rewrite aget_aset_other; [exact H|].
      intros EE. rewrite EE, String.eqb_refl in E. discriminate.
Qed.

Lemma infer_all_covers tpls : forall acc t, In t tpls ->
  exists ti, aget (t_table t) (fold_left register_template tpls acc) = Some ti /\ covers t ti.
Proof.
  induction tpls as [|t0 tpls IH]; intros acc t Hin; [destruct Hin|].
  cbn [fold_left]. destruct Hin as [->|Hin]; [|apply IH; exact Hin].
  rewrite register_template_eq.
  set (ti0 := match aget (t_table t) acc with Some ti => ti | None => mkTI [] false end).
  destruct (registered_grows tpls (aset (t_table t) (register ti0 t) acc) (t_table t) (register ti0 t))
    as (ti' & H1 & H2 & H3); [apply aget_aset_same|].
  exists ti'. split; [exact H1|]. destruct (register_covers ti0 t) as (C1 & C2). split.
  - intros f Hf Hh. apply H2, C1; assumption.
  - intros Hu. apply H3, C2, Hu.
Qed.

Lemma aget_filter_key {A} (p : string -> bool) k (l : list (string * A)) :
  p k = true -> aget k (filter (fun nt => p (fst nt)) l) = aget k l.
Proof.
  intros Hp. induction l as [|[k0 v] r IH]; cbn [filter aget fst]; [reflexivity|].
  destruct (p k0) eqn:E0; cbn [aget].
  - rewrite IH. reflexivity.
  - destruct (String.eqb k0 k) eqn:E; [apply eqb_eq' in E; subst; congruence|exact IH].
Qed.

(* every key of a row generated from a template is a column of the inferred schema *)
Theorem keys_in_schema tpls t :
  In t tpls -> hidden (t_table t) = false ->
  exists ti, aget (t_table t) (infer tpls) = Some ti /\
             forall k, In k (row_keys t) -> In k (fallback ti) /\ In k (csv_header ti).
Proof.
  intros Hin Hh. destruct (infer_all_covers tpls [] t Hin) as (ti & H1 & C1 & C2).
  exists ti. split.
  - unfold infer. rewrite (aget_filter_key (fun n => negb (hidden n))); [exact H1|].
    rewrite Hh. reflexivity.
  - intros k Hk. unfold row_keys in Hk. cbn [In] in Hk.
    assert (FB : forall x, In x (ti_fields ti) -> In x (fallback ti)).
    { intros x Hx. unfold fallback.
      assert (In x (if mem "id" (ti_fields ti) then ti_fields ti else ti_fields ti ++ ["id"%string])).
      { destruct (mem "id" (ti_fields ti)); [exact Hx|apply in_or_app; auto]. }
      destruct (ti_upd ti); [|exact H].
      destruct (mem upd_key _); [exact H|apply in_or_app; auto]. }
    assert (IDF : In "id"%string (fallback ti)).
    { unfold fallback.
      assert (In "id"%string (if mem "id" (ti_fields ti) then ti_fields ti else ti_fields ti ++ ["id"%string])).
      { destruct (mem "id" (ti_fields ti)) eqn:E; [apply mem_In; exact E|apply in_or_app; right; left; reflexivity]. }
      destruct (ti_upd ti); [|exact H].
      destruct (mem upd_key _); [exact H|apply in_or_app; auto]. }
    destruct Hk as [<-|Hk].
    + split; [exact IDF|]. unfold csv_header. apply in_or_app. right. left. reflexivity.
    + apply in_app_or in Hk. destruct Hk as [Hk|Hk].
      * destruct (t_upd t) eqn:EU; [|destruct Hk]. destruct Hk as [<-|[]].
        split.
        -- unfold fallback. rewrite (C2 eq_refl).
           destruct (mem upd_key _) eqn:E; [apply mem_In; exact E|apply in_or_app; right; left; reflexivity].
        -- unfold csv_header. rewrite (C2 eq_refl). apply in_or_app. right. right. left. reflexivity.
      * apply filter_In in Hk. destruct Hk as (Hk & Hn). apply negb_true_iff in Hn.
        specialize (C1 k Hk Hn). split; [apply FB; exact C1|].
        unfold csv_header. apply in_or_app. left. exact C1.
Qed.

(* the projection keeps every field whose key is a column *)
Lemma project_keeps cols (r : row) k v :
  In k cols -> aget k r = Some v -> aget k (project cols r) = Some v.
Proof.
  intros Hin Hv. unfold project. induction cols as [|c cols IH]; [destruct Hin|].
  cbn [map aget]. destruct (String.eqb c k) eqn:E.
  - apply eqb_eq' in E. subst c. rewrite Hv. reflexivity.
  - destruct Hin as [->|Hin]; [rewrite String.eqb_refl in E; discriminate|apply IH; exact Hin].
Qed.

Lemma aget_Some_In {A} k (v : A) l : aget k l = Some v -> In k (map fst l).
Proof. intros H. apply aget_In. congruence. Qed.

(* a generated row loses nothing in the database projection and fits the CSV header *)
Theorem generated_row_fits tpls t (r : row) :
  In t tpls -> hidden (t_table t) = false -> incl (map fst r) (row_keys t) ->
  exists ti, aget (t_table t) (infer tpls) = Some ti /\
    (forall k v, aget k r = Some v -> aget k (project (fallback ti) r) = Some v) /\
    forallb (fun kv => mem (fst kv) (csv_header ti)) r = true.
Proof.
  intros Hin Hh Hk. destruct (keys_in_schema tpls t Hin Hh) as (ti & H1 & H2).
  exists ti. splits; [exact H1| |].
  - intros k v Hv. apply project_keeps; [|exact Hv].
    apply H2, Hk. exact (aget_Some_In _ _ _ Hv).
  - apply forallb_forall. intros [k v] Hkv. cbn [fst]. apply mem_In, H2, Hk.
    apply in_map_iff. exists (k, v). auto.
Qed.

(* ------------------------------------------------------------------ multiplexer *)

Section MuxP.
  Context {S R : Type}.
  Variable write : S -> R -> result S.

  Lemma mux_write_each ss : forall r ss1, mux_write write ss r = Ok ss1 ->
    Forall2 (fun s s1 => write s r = Ok s1) ss ss1.
  Proof.
    induction ss as [|s ss IH]; intros r ss1 H; cbn [mux_write] in H.
    - injection H as <-. constructor.
    - destruct (write s r) as [s1|] eqn:E; cbn [bind] in H; [|discriminate].
      destruct (mux_write write ss r) as [rest|] eqn:E2; cbn [bind] in H; [|discriminate].
      injection H as <-. constructor; [exact E|apply IH; exact E2].
  Qed.

  (* every stream of a multiplexer receives exactly the row sequence *)
  Theorem mux_fanout rows : forall ss ss', mux_run write ss rows = Ok ss' ->
    Forall2 (fun s s' => run_one write s rows = Ok s') ss ss'.
  Proof.
    induction rows as [|r rows IH]; intros ss ss' H; cbn [mux_run] in H.
    - injection H as <-. induction ss; constructor; auto.
    - destruct (mux_write write ss r) as [ss1|] eqn:E; cbn [bind] in H; [|discriminate].
      apply mux_write_each in E. apply IH in H. clear IH.
      revert ss' H. induction E as [|s s1 ss ss1 Hw E IHE]; intros ss' H.
      + inversion H. constructor.
      + inversion H as [|? s' ? ss'' Hr H']; subst. constructor.
        * cbn [run_one]. rewrite Hw. cbn [bind]. exact Hr.
        * apply IHE. exact H'.
  Qed.

  Lemma mux_write_complete ss : forall r ss1,
    Forall2 (fun s s1 => write s r = Ok s1) ss ss1 -> mux_write write ss r = Ok ss1.
  Proof.
    intros r ss1 H. induction H as [|s s1 ss ss1 Hw H IH]; cbn [mux_write]; [reflexivity|].
    rewrite Hw. cbn [bind]. rewrite IH. reflexivity.
  Qed.

  (* and no stream is the victim of another one as long as every stream accepts the rows *)
  Theorem mux_complete rows : forall ss ss',
    Forall2 (fun s s' => run_one write s rows = Ok s') ss ss' -> mux_run write ss rows = Ok ss'.
  Proof.
    induction rows as [|r rows IH]; intros ss ss' H; cbn [mux_run].
    - f_equal. induction H as [|s s' ss ss' Hr H IHH]; [reflexivity|].
      cbn [run_one] in Hr. injection Hr as ->. f_equal. exact IHH.
    - assert (exists ss1, Forall2 (fun s s1 => write s r = Ok s1) ss ss1 /\
                          Forall2 (fun s1 s' => run_one write s1 rows = Ok s') ss1 ss') as (ss1 & H1 & H2).
      { induction H as [|s s' ss ss' Hr H IHH]; [exists []; split; constructor|].
        destruct IHH as (ss1 & H1 & H2). cbn [run_one] in Hr.
        destruct (write s r) as [s1|] eqn:E; cbn [bind] in Hr; [|discriminate].
        exists (s1 :: ss1). split; constructor; assumption. }
      rewrite (mux_write_complete _ _ _ H1). cbn [bind]. apply IH. exact H2.
  Qed.
End MuxP.

(* ------------------------------------------------------------------ encoders are total *)

Lemma et_app a b : encodable_text (a ++ b) = encodable_text a && encodable_text b.
Proof. unfold encodable_text. apply forallb_app. Qed.

Lemma et_uint u : encodable_text (uint_text u) = true.
Proof.
  unfold encodable_text.
  induction u; cbn [uint_text forallb]; rewrite ?IHu; reflexivity.
Qed.

Lemma et_dec z : encodable_text (dec_text z) = true.
Proof.
  unfold dec_text. destruct (Z.to_int z) as [u|u].
  - apply et_uint.
  - change (encodable_text ([45] ++ uint_text u) = true). rewrite et_app, et_uint. reflexivity.
Qed.

Lemma et_pad n z : encodable_text (pad n z) = true.
Proof.
  unfold pad, pad_to. rewrite et_app, et_dec, andb_true_r.
  unfold encodable_text. induction (n - length (dec_text z))%nat as [|k IH]; cbn [repeat forallb]; [reflexivity|].
  rewrite IH. reflexivity.
Qed.

Lemma et_string s : encodable_text (text_of_string s) = true.
Proof.
  unfold encodable_text. induction s as [|a s IH]; cbn [text_of_string forallb]; [reflexivity|].
  rewrite IH, andb_true_r. unfold is_surrogate.
  pose proof (Ascii.N_ascii_bounded a) as B.
  replace (55296 <=? Z.of_N (N_of_ascii a)) with false; [reflexivity|].
  symmetry. apply Z.leb_gt. lia.
Qed.

Lemma et_offset off : encodable_text (iso_offset off) = true.
Proof.
  unfold iso_offset. destruct off as [o|]; [|reflexivity].
  rewrite !et_app, !et_pad. destruct (o <? 0); reflexivity.
Qed.

Lemma et_fmt_dt y m d hh mi ss off : encodable_text (fmt_dt_seconds y m d hh mi ss off) = true.
Proof.
  unfold fmt_dt_seconds, iso_date, iso_time. rewrite !et_app, !et_pad, et_offset. reflexivity.
Qed.

(* the values the property lists.  Excluded, because the database / the text file refuses them
   (finding K9 is about what happens then): for every format except JSON a string holding a
   lone surrogate.  Integers of any size are fine everywhere (sql_int). *)
Definition encodable (f : fmt) (v : value) : bool :=
  match v with
  | VOther => false
  | VStr s | VDec s => match f with FJson => true | _ => encodable_text s end
  | _ => true
  end.

Theorem encode_total f v : encodable f v = true -> exists c, encode f false v = Ok c.
Proof.
  intros H. destruct f, v; try discriminate H; cbn [encodable] in H;
    try (eexists; reflexivity);
    try (destruct b; eexists; reflexivity);
    try (unfold encode; cbn [cleanup flatten type_of encoders enc_get enc_set base_encoders
                              vtype_eqb enc_int enc_noop enc_str enc_format_datetime py_str bind render];
         unfold utf8_text;
         rewrite ?H, ?et_fmt_dt, ?et_app, ?et_string, ?et_dec; eexists; reflexivity);
    try (unfold encode; cbn [cleanup flatten type_of encoders enc_get enc_set base_encoders
                              vtype_eqb enc_sql_int bind];
         unfold sql_int;
         match goal with |- context [if ?c then VInt _ else _] => destruct c eqn:E end;
         cbn [render bind]; unfold utf8_text, int64; rewrite ?E, ?et_dec; eexists; reflexivity).
Qed.

(* ------------------------------------------------------------------ application layer *)

Record env_ok (e : env) : Prop := {
  eo_nodup : NoDup (map fst (e_tables e));
  eo_names : forall t, In t (map fst (e_tables e)) -> t <> ""%string;
  eo_fl : 0 < e_fl e;
  eo_cl : 0 < e_cl e
}.

Lemma env_tables_keys e : map fst (env_tables e) = map fst (e_tables e).
Proof. unfold env_tables. rewrite map_map. cbn [fst]. reflexivity. Qed.

Definition initial (e : env) (s : sstate) : Prop :=
  (exists f, s = init_stream e f) \/ (exists fa fc, s = SStub [] fa fc false).

Lemma cleaned_app f a b ca cb :
  cleaned f a = Ok ca -> cleaned f b = Ok cb -> cleaned f (a ++ b) = Ok (ca ++ cb).
Proof.
  unfold cleaned. revert ca. induction a as [|x a IH]; intros ca Ha Hb; cbn [app map_result] in *.
  - injection Ha as <-. exact Hb.
  - destruct (cleanup_row f (snd x)) as [c|]; cbn [bind] in *; [|discriminate].
    destruct (map_result _ a) as [ys|]; cbn [bind] in *; [|discriminate].
    injection Ha as <-. rewrite (IH ys eq_refl Hb). reflexivity.
Qed.

Lemma file_run e f rows : forall acc closed s1,
  run_one (s_write e) (SFile f acc closed) rows = Ok s1 ->
  exists crows, cleaned f rows = Ok crows /\ s1 = SFile f (acc ++ crows) closed.
Proof.
  induction rows as [|[t raw] rows IH]; intros acc closed s1 H; cbn [run_one] in H.
  - injection H as <-. exists []. rewrite app_nil_r. auto.
  - cbn [s_write] in H.
    destruct (cleanup_row f raw) as [c|] eqn:EC; cbn [bind] in H; [|discriminate].
    destruct (match f with FCsv => _ | _ => Ok tt end) as [u|]; cbn [bind] in H; [|discriminate].
    destruct (map_result _ c) as [u2|]; cbn [bind] in H; [|discriminate].
    apply IH in H. destruct H as (crows & HC & ->).
    exists ((t, c) :: crows). split.
    + unfold cleaned in *. cbn [map_result snd fst]. rewrite EC. cbn [bind]. rewrite HC. reflexivity.
    + rewrite <- app_assoc. reflexivity.
Qed.

Lemma stub_run e rows : forall log fa fc closed s1,
  run_one (s_write e) (SStub log fa fc closed) rows = Ok s1 -> s1 = SStub (log ++ rows) fa fc closed.
Proof.
  induction rows as [|[t raw] rows IH]; intros log fa fc closed s1 H; cbn [run_one] in H.
  - injection H as <-. rewrite app_nil_r. reflexivity.
  - cbn [s_write] in H. destruct (Z.of_nat (length log) + 1 =? fa); cbn [bind] in H; [discriminate|].
    apply IH in H. rewrite <- app_assoc in H. exact H.
Qed.

Lemma db_stream_run e is_text rows : forall st closed s1,
  run_one (s_write e) (SDb is_text st closed) rows = Ok s1 ->
  exists crows st1, cleaned (db_fmt is_text) rows = Ok crows /\ s1 = SDb is_text st1 closed /\
    db_writes (sqlite_accepts (db_fmt is_text)) (negb is_text) (e_fl e) (e_cl e) (env_tables e) st crows = Ok st1.
Proof.
  induction rows as [|[t raw] rows IH]; intros st closed s1 H; cbn [run_one] in H.
  - injection H as <-. exists [], st. auto.
  - cbn [s_write] in H.
    destruct (cleanup_row (db_fmt is_text) raw) as [c|] eqn:EC; cbn [bind] in H; [|discriminate].
    destruct (db_write _ _ _ _ _ st t c) as [st1|] eqn:EW; cbn [bind] in H; [|discriminate].
    apply IH in H. destruct H as (crows & st2 & HC & -> & HW).
    exists ((t, c) :: crows), st2. splits; [|reflexivity|].
    + unfold cleaned in *. cbn [map_result snd fst]. rewrite EC. cbn [bind]. rewrite HC. reflexivity.
    + cbn [db_writes]. rewrite EW. cbn [bind]. exact HW.
Qed.

Lemma stream_complete e rows s0 s1 s2 :
  env_ok e -> initial e s0 ->
  run_one (s_write e) s0 rows = Ok s1 -> s_close e s1 = Ok s2 -> complete e rows s2.
Proof.
  intros EO HI HR HC. destruct HI as [(f & ->)|(fa & fc & ->)].
  - assert (DB : forall is_text, run_one (s_write e) (SDb is_text (db_init (env_tables e)) false) rows = Ok s1 ->
                                 complete e rows s2).
    { intros is_text HR'. apply db_stream_run in HR'. destruct HR' as (crows & st1 & HCl & -> & HW).
      cbn [s_close] in HC.
      destruct (db_close _ (env_tables e) st1) as [st2|] eqn:ECl; cbn [bind] in HC; [|discriminate].
      injection HC as <-. cbn [complete]. split; [reflexivity|]. exists crows. split; [exact HCl|].
      apply (db_lossless (sqlite_accepts (db_fmt is_text)) (negb is_text) (e_fl e) (e_cl e)).
      - rewrite env_tables_keys. apply EO.
      - rewrite env_tables_keys. apply EO.
      - unfold db_run. rewrite HW. cbn [bind]. exact ECl. }
    destruct f; cbn [init_stream] in HR; try (apply (DB _ HR));
      (apply file_run in HR; destruct HR as (crows & HCl & ->); cbn [s_close] in HC;
       injection HC as <-; cbn [complete app]; auto).
  - apply stub_run in HR. subst s1. cbn [s_close] in HC. destruct fc; [discriminate|].
    injection HC as <-. cbn [complete app]. auto.
Qed.

Lemma close_all_clean e ss : forall ss', close_all e ss = (ss', true) ->
  Forall2 (fun s s' => s_close e s = Ok s') ss ss'.
Proof.
  induction ss as [|s ss IH]; intros ss' H; cbn [close_all] in H.
  - injection H as <-. constructor.
  - destruct (s_close e s) as [s1|] eqn:E; [|discriminate].
    destruct (close_all e ss) as [r b] eqn:E2. cbn [fst snd] in H. injection H as <- ->.
    constructor; [exact E|apply IH; reflexivity].
Qed.

(* "a run that reports success has lost nothing", for runs whose close() raised nothing *)
Theorem success_means_lossless_partial e outs rows ss :
  env_ok e -> Forall (initial e) outs ->
  app_run e outs rows = Ok (ss, true) -> Forall (complete e rows) ss.
Proof.
  intros EO HI H. unfold app_run in H.
  destruct (mux_run (s_write e) outs rows) as [ss1|] eqn:E; cbn [bind] in H; [|discriminate].
  injection H as H. apply close_all_clean in H. apply mux_fanout in E.
  revert ss H. induction E as [|s0 s1 outs ss1 HR E IHE]; intros ss H.
  - inversion H. constructor.
  - inversion H as [|? s2 ? ss2 HC H']; subst. inversion HI as [|? ? HI0 HI']; subst. constructor.
    + exact (stream_complete e rows s0 s1 s2 EO HI0 HR HC).
    + apply IHE; assumption.
Qed.

(* when SQLite accepts every row, a database stream's close() raises nothing *)
Theorem db_close_clean e is_text rows crows :
  env_ok e -> cleaned (db_fmt is_text) rows = Ok crows ->
  accepted (sqlite_accepts (db_fmt is_text)) (env_tables e) crows ->
  exists s, db_run (sqlite_accepts (db_fmt is_text)) (negb is_text) (e_fl e) (e_cl e) (env_tables e) crows = Ok s.
Proof.
  intros EO _ HA. apply db_run_ok; try apply EO; [|exact HA].
  rewrite env_tables_keys. apply EO.
Qed.

(* ---- the unrestricted statement is false: finding K9 ---- *)

Definition k9_env : env := mkEnv (infer [mkT "A" ["big"%string] false]) 1000 10000.
Definition k9_rows : list (string * row) :=
  [("A"%string, [("id"%string, VInt 1); ("big"%string, VInt 5)]);
   ("A"%string, [("id"%string, VInt 2); ("big"%string, VStr [55296])]);
   ("A"%string, [("id"%string, VInt 3); ("big"%string, VInt 5)])].

Lemma k9_env_ok : env_ok k9_env.
Proof.
  constructor; cbn.
  - repeat constructor. intros [].
  - intros t [<-|[]]. discriminate.
  - lia.
  - lia.
Qed.

(* three rows, one holding the string "\ud800" (a lone surrogate), database output: the run
   reports success, the database is empty; with a JSON file and an SQL script next to it those
   are never closed *)
Theorem success_means_lossless_refuted :
  exists e rows st ss,
    env_ok e /\
    app_run e [init_stream e FDb] rows = Ok ([SDb false st false], false) /\
    total (d_db st) = 0 /\ length rows = 3%nat /\
    (forall crows, cleaned FDb rows = Ok crows -> d_db st <> expected_db (env_tables e) crows) /\
    app_run e (map (init_stream e) [FDb; FJson; FSql]) rows = Ok (ss, false) /\
    map summarise ss = [SumDb true [("A"%string, 0)]; SumFile false 3; SumDb false [("A"%string, 0)]].
Proof.
  exists k9_env, k9_rows.
  eexists. eexists. split; [exact k9_env_ok|].
  split; [vm_compute; reflexivity|].
  split; [vm_compute; reflexivity|].
  split; [reflexivity|].
  split.
  - intros crows H. vm_compute in H. injection H as <-. vm_compute. discriminate.
  - split; vm_compute; reflexivity.
Qed.
