(* QuietP.v — expressions, formulas, references and flattening only ever touch the id counters
   and the forward-reference slots: heap, frames, random-reference state and output stay put. *)
From Coq Require Import ZArith List Lia Bool.
From SFV Require Import Base Interp.
From SFV.P Require Import BaseP InterpP.
Import ListNotations. Open Scope Z_scope.

Definition so (s s' : st) : Prop :=
  heap s' = heap s /\ frames s' = frames s /\ rnd s' = rnd s /\ out s' = out s.

Lemma so_refl s : so s s.
Proof. unfold so. auto. Qed.

Lemma so_trans a b c : so a b -> so b c -> so a c.
Proof. unfold so. intros (h1 & f1 & r1 & o1) (h2 & f2 & r2 & o2). splits; congruence. Qed.

Lemma touch_slot_so s n s' i : touch_slot s n = Ok (s', i) -> so s s'.
Proof.
  unfold touch_slot. destruct (lookup n (slots s)) as [sl|]; [|discriminate].
  destruct (s_alloc sl); intros H; injection H as <- _; unfold so; auto.
Qed.

Lemma eval_expr_so e x : forall s s' v, eval_expr e x s = Ok (s', v) -> so s s'.
Proof.
  induction x as [z|n|a IHa f|a IHa b IHb|a IHa b IHb|a IHa b IHb]; intros s s' v H; cbn [eval_expr] in H.
  - injection H as <- _. apply so_refl.
  - dbind H as o. destruct o; injection H as <- _; apply so_refl.
  - dbind H as [s1 v1]. apply IHa in E.
    destruct v1; try discriminate;
      try (destruct (py_own_attr f); [discriminate|]);
      try (injection H as <- _; exact E);
      try (dbind H as w0; injection H as <- _; exact E).
    + destruct (nth_error (heap s1) h); [|discriminate].
      destruct (row_attr c f); injection H as <- _; exact E.
    + destruct (String.eqb f "id"); [|discriminate]. dbind H as [s2 i].
      injection H as <- _. apply touch_slot_so in E0. eapply so_trans; eassumption.
  - dbind H as [s1 v1]. dbind H as [s2 v2]. apply IHa in E. apply IHb in E0.
    destruct v1, v2; try discriminate; injection H as <- _; eapply so_trans; eassumption.
  - dbind H as [s1 v1]. dbind H as [s2 v2]. apply IHa in E. apply IHb in E0.
    destruct v1, v2; try discriminate; injection H as <- _; eapply so_trans; eassumption.
  - dbind H as [s1 v1]. dbind H as [s2 v2]. apply IHa in E. apply IHb in E0.
    destruct v1, v2; try discriminate; injection H as <- _; eapply so_trans; eassumption.
Qed.

Lemma render_pieces_so e ps : forall s s' t, render_pieces e ps s = Ok (s', t) -> so s s'.
Proof.
  induction ps as [|p ps IH]; intros s s' t H; cbn [render_pieces] in H.
  - injection H as <- _. apply so_refl.
  - destruct p as [tx|x].
    + dbind H as [s1 rest]. injection H as <- _. eauto.
    + dbind H as [s1 v]. dbind H as w0. dbind H as [s2 rest].
      injection H as <- _. apply eval_expr_so in E. apply IH in E1. eapply so_trans; eassumption.
Qed.

Lemma render_formula_so e ps s s' v : render_formula e ps s = Ok (s', v) -> so s s'.
Proof.
  unfold render_formula. intros H.
  destruct (version e =? 3).
  - destruct ps as [|[tx|x] [|p2 r]];
      try (dbind H as [s1 t]; dbind H as w0; injection H as <- _;
           apply render_pieces_so in E; exact E).
    dbind H as [s1 w]. apply eval_expr_so in E.
    destruct w; try discriminate; try (injection H as <- _; exact E).
    dbind H as w0. injection H as <- _. exact E.
  - dbind H as [s1 t]. dbind H as w0. injection H as <- _.
    apply render_pieces_so in E. exact E.
Qed.

Lemma getattr_path_so s v p s' w : getattr_path s v p = Ok (s', w) -> so s s'.
Proof.
  unfold getattr_path. intros E. destruct v; try discriminate.
  - destruct (nth_error (heap s) h); [|discriminate].
    destruct (row_attr c p); [|discriminate]. injection E as <- _. apply so_refl.
  - destruct (String.eqb p "id"); [|discriminate]. dbind E as [s2 i].
    injection E as <- _. apply touch_slot_so in E0. exact E0.
  - dbind E as w0. injection E as <- _. apply so_refl.
Qed.

Lemma follow_path_so parts : forall s v s' w, follow_path s v parts = Ok (s', w) -> so s s'.
Proof.
  induction parts as [|p r IH]; intros s v s' w H; cbn [follow_path] in H.
  - injection H as <- _. apply so_refl.
  - dbind H as [s1 w1]. apply IH in H. apply getattr_path_so in E. eapply so_trans; eassumption.
Qed.

Lemma reference_so e path s s' v : reference e path s = Ok (s', v) -> so s s'.
Proof.
  unfold reference. intros H.
  destruct (split_dot path) as [|first parts]; [discriminate|].
  dbind H as o. destruct o as [v0|]; [|destruct parts; discriminate].
  dbind H as [s1 target]. apply follow_path_so in E0.
  destruct target; try discriminate.
  - injection H as <- _. exact E0.
  - dbind H as [s2 i]. injection H as <- _.
    apply touch_slot_so in E1. eapply so_trans; eassumption.
  - injection H as <- _. exact E0.
Qed.

Lemma flatten_fields_so fs : forall s s' l, flatten_fields s fs = Ok (s', l) -> so s s'.
Proof.
  induction fs as [|[n v] r IH]; intros s s' l H; cbn [flatten_fields] in H.
  - injection H as <- _. apply so_refl.
  - destruct (hidden n); [eauto|].
    dbind H as [s1 o]. dbind H as [s2 rest]. injection H as <- _.
    apply IH in E0. eapply so_trans; [|exact E0].
    destruct v; try discriminate; try (injection E as <- _; apply so_refl).
    + destruct (nth_error (heap s) h); [|discriminate]. injection E as <- _. apply so_refl.
    + destruct (lookup name (slots s)); [|discriminate]. dbind E as [s3 i].
      injection E as <- _. apply touch_slot_so in E1. exact E1.
Qed.

(* write_row: as flatten, plus one row on the output *)
Lemma write_row_so s h s' : write_row s h = Ok s' ->
  heap s' = heap s /\ frames s' = frames s /\ rnd s' = rnd s.
Proof.
  unfold write_row. destruct (nth_error (heap s) h); [|discriminate].
  destruct (hidden (c_table c)); [intros H; injection H as <-; auto|].
  intros H. dbind H as [s1 fs]. injection H as <-. apply flatten_fields_so in E.
  destruct E as (a & b & c0 & _). cbn [heap frames rnd upd_out]. auto.
Qed.
