(* IdsP.v — property C01 at the level of the SF-core interpreter:
   per table, the ids handed out are exactly 1..last, every created row of a visible
   table is written exactly once, hence the ids emitted per table are exactly 1..n.      *)
From Coq Require Import ZArith List Lia Bool Permutation ZifyBool.
From SFV Require Import Base Interp.
From SFV.P Require Import BaseP InterpP InterpHeapP.
Import ListNotations. Open Scope Z_scope.

(* ------------------------------------------------------------------ association lists *)

Lemma lookup_assign_same {A} k (v : A) l : lookup k (assign k v l) = Some v.
Proof.
  induction l as [|[k' v'] r IH]; cbn [assign lookup].
  - rewrite String.eqb_refl. reflexivity.
  - destruct (String.eqb k k') eqn:E; cbn [lookup]; rewrite ?String.eqb_refl, ?E; auto.
Qed.

Lemma lookup_assign_other {A} k k2 (v : A) l : k2 <> k -> lookup k2 (assign k v l) = lookup k2 l.
Proof.
  intros Hne. induction l as [|[k' v'] r IH]; cbn [assign lookup].
  - destruct (String.eqb k2 k) eqn:E; [apply String.eqb_eq in E; contradiction|reflexivity].
  - destruct (String.eqb k k') eqn:E; cbn [lookup].
    + apply String.eqb_eq in E. subst k'.
      destruct (String.eqb k2 k) eqn:E2; [apply String.eqb_eq in E2; contradiction|reflexivity].
    + destruct (String.eqb k2 k'); auto.
Qed.

(* ------------------------------------------------------------------ ghost views of the state *)

Definition cell_ids (T : string) (h : list cell) : list Z :=
  map c_id (filter (fun c => String.eqb (c_table c) T) h).

Definition slot_res (T : string) (sl : slot) : list Z :=
  match s_alloc sl with
  | Some i => if negb (s_consumed sl) && String.eqb (s_table sl) T then [i] else []
  | None => []
  end.

Definition reserved (T : string) (sls : list (string * slot)) : list Z :=
  flat_map (fun p => slot_res T (snd p)) sls.

Definition orow_id (r : orow) : list Z :=
  match snd r with (_, OInt i) :: _ => [i] | _ => [] end.

Definition written (T : string) (o : list orow) : list Z :=
  flat_map (fun r => if String.eqb (fst r) T then orow_id r else []) o.

Section WithMissing.
(* ids issued by earlier runs whose rows are not in this run's heap (empty for a fresh run) *)
Variable miss : string -> list Z.
(* number of heap cells that were loaded from a continuation file (0 for a fresh run):
   only the cells created by THIS run are counted *)
Variable n0 : nat.

Definition nh (s : st) : list cell := skipn n0 (heap s).

Lemma nh_eq s s' : heap s' = heap s -> nh s' = nh s.
Proof. unfold nh. intros ->. reflexivity. Qed.

Lemma nh_snoc s c : (n0 <= length (heap s))%nat -> skipn n0 (heap s ++ [c]) = nh s ++ [c].
Proof.
  intros H. unfold nh. rewrite skipn_app.
  replace (n0 - length (heap s))%nat with 0%nat by lia. reflexivity.
Qed.

Definition slot_ok (p : string * slot) : Prop :=
  s_alloc (snd p) = None -> s_consumed (snd p) = false.

Definition K (s : st) : Prop :=
  (Forall slot_ok (slots s) /\ (n0 <= length (heap s))%nat) /\
  forall T, Permutation (miss T ++ reserved T (slots s) ++ cell_ids T (nh s))
                        (Zseq 1 (Z.to_nat (last_id s T))) /\ 0 <= last_id s T.

Lemma Forall_assign {A} (P : string * A -> Prop) k v l :
  Forall P l -> P (k, v) -> Forall P (assign k v l).
Proof.
  intros Hl Hp. induction Hl as [|[k' v'] r Hx Hr IH]; cbn [assign].
  - constructor; [exact Hp|constructor].
  - destruct (String.eqb k k'); constructor; assumption.
Qed.

Lemma lookup_In {A} k (v : A) l : lookup k l = Some v -> exists k', In (k', v) l.
Proof.
  induction l as [|[k' v'] r IH]; cbn [lookup]; [discriminate|].
  destruct (String.eqb k k').
  - intros H. injection H as ->. exists k'. left. reflexivity.
  - intros H. destruct (IH H) as (k2 & Hin). exists k2. right. exact Hin.
Qed.

(* ------------------------------------------------------------------ reserved under slot updates *)

Lemma reserved_assign T name sl sl' sls :
  lookup name sls = Some sl ->
  exists pre post, reserved T sls = pre ++ slot_res T sl ++ post /\
                   reserved T (assign name sl' sls) = pre ++ slot_res T sl' ++ post.
Proof.
  induction sls as [|[k v] r IH]; cbn [lookup assign]; [discriminate|].
  destruct (String.eqb name k) eqn:E.
  - intros H. injection H as ->. exists [], (reserved T r). cbn [reserved flat_map snd app]. auto.
  - intros H. destruct (IH H) as (pre & post & H1 & H2).
    exists (slot_res T v ++ pre), post. unfold reserved in *. cbn [flat_map snd].
    rewrite H1, H2, <- !app_assoc. auto.
Qed.

Lemma last_id_generate s t T :
  last_id (fst (generate_id s t)) T = if String.eqb T t then last_id s t + 1 else last_id s T.
Proof.
  unfold generate_id, last_id. cbn [fst ids upd_ids].
  destruct (String.eqb T t) eqn:E.
  - apply String.eqb_eq in E. subst T. rewrite lookup_assign_same. reflexivity.
  - rewrite lookup_assign_other; [reflexivity|]. intros ->. rewrite String.eqb_refl in E. discriminate.
Qed.

Lemma Zseq_snoc n : 0 <= n -> Zseq 1 (Z.to_nat (n + 1)) = Zseq 1 (Z.to_nat n) ++ [n + 1].
Proof.
  intros Hn. replace (Z.to_nat (n + 1)) with (Z.to_nat n + 1)%nat by lia.
  rewrite Zseq_app. cbn [Zseq]. do 2 f_equal. lia.
Qed.

(* moving one element to the end *)
Lemma perm_mid_end {A} (a b c : list A) (x : A) (z : list A) :
  Permutation (a ++ b ++ c) z -> Permutation (a ++ (x :: b) ++ c) (z ++ [x]).
Proof.
  intros H. cbn [app]. apply Permutation_sym. apply Permutation_sym in H.
  eapply Permutation_trans; [apply Permutation_app_tail; exact H|].
  rewrite <- app_assoc. apply Permutation_app_head.
  apply Permutation_sym. apply Permutation_cons_append.
Qed.

Lemma last_id_upd_slots s x T : last_id (upd_slots s x) T = last_id s T.
Proof. reflexivity. Qed.

(* touch-quiet steps: heap and output untouched, K preserved *)
Definition tq (s s' : st) : Prop :=
  heap s' = heap s /\ out s' = out s /\ (K s -> K s').

Lemma tq_refl s : tq s s.
Proof. unfold tq. auto. Qed.

Lemma tq_trans s1 s2 s3 : tq s1 s2 -> tq s2 s3 -> tq s1 s3.
Proof. unfold tq. intros (a & b & c) (d & e & f). splits; try congruence. auto. Qed.

Lemma touch_slot_tq s n s' i : touch_slot s n = Ok (s', i) -> tq s s'.
Proof.
  unfold touch_slot. destruct (lookup n (slots s)) as [sl|] eqn:Hl; [|discriminate].
  destruct (s_alloc sl) as [j|] eqn:Ha.
  - intros H. injection H as <- _. apply tq_refl.
  - intros H. injection H as <- _. unfold tq. cbn [heap out upd_slots upd_ids generate_id].
    splits; try reflexivity. intros [[Hwf Hlen] HK]. unfold nh in *.
    assert (Hnc : s_consumed sl = false).
    { destruct (lookup_In _ _ _ Hl) as (k' & Hin).
      rewrite Forall_forall in Hwf. apply (Hwf (k', sl) Hin). exact Ha. }
    set (new := last_id s (s_table sl) + 1).
    split.
    + cbn [slots upd_slots upd_ids heap]. split; [|exact Hlen]. apply Forall_assign; [exact Hwf|].
      unfold slot_ok. cbn [snd s_alloc]. discriminate.
    + intros T. unfold nh. destruct (HK T) as [HP Hnn]. destruct (HK (s_table sl)) as [_ Hnn2].
      pose proof (last_id_generate s (s_table sl) T) as Hlast.
      unfold generate_id in Hlast. cbn [fst] in Hlast.
      rewrite !last_id_upd_slots. fold new in Hlast. rewrite Hlast. cbn [slots upd_slots upd_ids heap].
      destruct (reserved_assign T n sl (mkSlot (s_table sl) (Some new) (s_consumed sl))
                  (slots s) Hl) as (pre & post & H1 & H2).
      rewrite H2. rewrite H1 in HP.
      unfold slot_res in *. rewrite Ha in HP. cbn [s_alloc s_consumed s_table app] in *.
      rewrite Hnc. cbn [negb andb].
      destruct (String.eqb T (s_table sl)) eqn:ET.
      * apply String.eqb_eq in ET. subst T. rewrite String.eqb_refl. split; [|unfold new; lia].
        unfold new. rewrite Zseq_snoc by lia. rewrite <- !app_assoc in *. cbn [app].
        replace (miss (s_table sl) ++ pre ++ (last_id s (s_table sl) + 1) :: post ++ cell_ids (s_table sl) (skipn n0 (heap s)))
          with ((miss (s_table sl) ++ pre) ++ ((last_id s (s_table sl) + 1) :: post) ++ cell_ids (s_table sl) (skipn n0 (heap s)))
          by (rewrite <- !app_assoc; reflexivity).
        apply perm_mid_end. rewrite <- !app_assoc. exact HP.
      * assert (Hne : String.eqb (s_table sl) T = false).
        { rewrite String.eqb_sym. exact ET. }
        rewrite Hne. cbn [app]. split; assumption.
Qed.

Lemma eval_expr_tq e x : forall s s' v, eval_expr e x s = Ok (s', v) -> tq s s'.
Proof.
  induction x as [z|n|a IHa f|a IHa b IHb|a IHa b IHb|a IHa b IHb]; intros s s' v H; cbn [eval_expr] in H.
  - injection H as <- _. apply tq_refl.
  - dbind H as o. destruct o; injection H as <- _; apply tq_refl.
  - dbind H as [s1 v1]. apply IHa in E.
    destruct v1; try discriminate;
      try (destruct (py_own_attr f); [discriminate|]);
      try (injection H as <- _; exact E);
      try (dbind H as w0; injection H as <- _; exact E).
    + destruct (nth_error (heap s1) h); [|discriminate].
      destruct (row_attr c f); injection H as <- _; exact E.
    + destruct (String.eqb f "id"); [|discriminate]. dbind H as [s2 i].
      injection H as <- _. apply touch_slot_tq in E0. eapply tq_trans; eassumption.
  - dbind H as [s1 v1]. dbind H as [s2 v2]. apply IHa in E. apply IHb in E0.
    destruct v1, v2; try discriminate; injection H as <- _; eapply tq_trans; eassumption.
  - dbind H as [s1 v1]. dbind H as [s2 v2]. apply IHa in E. apply IHb in E0.
    destruct v1, v2; try discriminate; injection H as <- _; eapply tq_trans; eassumption.
  - dbind H as [s1 v1]. dbind H as [s2 v2]. apply IHa in E. apply IHb in E0.
    destruct v1, v2; try discriminate; injection H as <- _; eapply tq_trans; eassumption.
Qed.

Lemma render_pieces_tq e ps : forall s s' t, render_pieces e ps s = Ok (s', t) -> tq s s'.
Proof.
  induction ps as [|p ps IH]; intros s s' t H; cbn [render_pieces] in H.
  - injection H as <- _. apply tq_refl.
  - destruct p as [tx|x].
    + dbind H as [s1 rest]. injection H as <- _. eauto.
    + dbind H as [s1 v]. dbind H as w0. dbind H as [s2 rest].
      injection H as <- _. apply eval_expr_tq in E. apply IH in E1. eapply tq_trans; eassumption.
Qed.

Lemma render_formula_tq e ps s s' v : render_formula e ps s = Ok (s', v) -> tq s s'.
Proof.
  unfold render_formula. intros H.
  destruct (version e =? 3).
  - destruct ps as [|[tx|x] [|p2 r]];
      try (dbind H as [s1 t]; dbind H as w0; injection H as <- _;
           apply render_pieces_tq in E; exact E).
    dbind H as [s1 w]. apply eval_expr_tq in E.
    destruct w; try discriminate; try (injection H as <- _; exact E).
    dbind H as w0. injection H as <- _. exact E.
  - dbind H as [s1 t]. dbind H as w0. injection H as <- _.
    apply render_pieces_tq in E. exact E.
Qed.

Lemma follow_path_tq parts : forall s v s' w, follow_path s v parts = Ok (s', w) -> tq s s'.
Proof.
  induction parts as [|p r IH]; intros s v s' w H; cbn [follow_path] in H.
  - injection H as <- _. apply tq_refl.
  - dbind H as [s1 w1]. apply IH in H. eapply tq_trans; [|exact H].
    unfold getattr_path in E. destruct v; try discriminate.
    + destruct (nth_error (heap s) h); [|discriminate].
      destruct (row_attr c p); [|discriminate]. injection E as <- _. apply tq_refl.
    + destruct (String.eqb p "id"); [|discriminate]. dbind E as [s2 i].
      injection E as <- _. apply touch_slot_tq in E0. exact E0.
    + dbind E as w0. injection E as <- _. apply tq_refl.
Qed.

Lemma reference_tq e path s s' v : reference e path s = Ok (s', v) -> tq s s'.
Proof.
  unfold reference. intros H.
  destruct (split_dot path) as [|first parts]; [discriminate|].
  dbind H as o. destruct o as [v0|]; [|destruct parts; discriminate].
  dbind H as [s1 target]. apply follow_path_tq in E0.
  destruct target; try discriminate.
  - injection H as <- _. exact E0.
  - dbind H as [s2 i]. injection H as <- _.
    apply touch_slot_tq in E1. eapply tq_trans; eassumption.
  - injection H as <- _. exact E0.
Qed.

(* the random-reference state is not part of the invariant *)
Lemma rnd_only_tq s s' : rnd_only s s' -> tq s s'.
Proof. intros [x ->]. unfold tq. splits; [reflexivity|reflexivity|intros H; exact H]. Qed.

Lemma flatten_fields_tq fs : forall s s' l, flatten_fields s fs = Ok (s', l) -> tq s s'.
Proof.
  induction fs as [|[n v] r IH]; intros s s' l H; cbn [flatten_fields] in H.
  - injection H as <- _. apply tq_refl.
  - destruct (hidden n); [eauto|].
    dbind H as [s1 o]. dbind H as [s2 rest]. injection H as <- _.
    apply IH in E0. eapply tq_trans; [|exact E0].
    destruct v; try discriminate; try (injection E as <- _; apply tq_refl).
    + destruct (nth_error (heap s) h); [|discriminate]. injection E as <- _. apply tq_refl.
    + destruct (lookup name (slots s)); [|discriminate]. dbind E as [s3 i].
      injection E as <- _. apply touch_slot_tq in E1. exact E1.
Qed.

(* ------------------------------------------------------------------ K under state updates that
   do not touch ids, slots or the (table,id) of heap cells *)

Definition same_core (s s' : st) : Prop :=
  ids s' = ids s /\ slots s' = slots s /\
  (length (heap s') = length (heap s) /\ forall T, cell_ids T (nh s') = cell_ids T (nh s)).

Lemma K_same_core s s' : same_core s s' -> K s -> K s'.
Proof.
  intros (Hi & Hs & Hl & Hc) [[Hwf Hlen] HK]. split; [split; [rewrite Hs; exact Hwf|rewrite Hl; exact Hlen]|].
  intros T. unfold last_id. rewrite Hi, Hs, Hc. apply HK.
Qed.

Lemma same_core_heap_eq s s' :
  ids s' = ids s -> slots s' = slots s -> heap s' = heap s -> same_core s s'.
Proof. intros a b c. unfold same_core, nh. rewrite c. auto. Qed.

Lemma cell_ids_set_nth T h : forall k i c c',
  nth_error h i = Some c -> c_table c' = c_table c -> c_id c' = c_id c ->
  cell_ids T (skipn k (set_nth i c' h)) = cell_ids T (skipn k h).
Proof.
  unfold cell_ids. induction h as [|x r IH]; intros k i c c' Hn Ht Hi; destruct i; cbn [nth_error] in Hn;
    try discriminate; cbn [set_nth].
  - injection Hn as ->. destruct k; cbn [skipn filter]; [|reflexivity].
    rewrite Ht. destruct (String.eqb (c_table c) T); cbn [map]; congruence.
  - destruct k; cbn [skipn filter].
    + pose proof (IH 0%nat i c c' Hn Ht Hi) as H0. cbn [skipn] in H0.
      destruct (String.eqb (c_table x) T); cbn [map]; rewrite H0; reflexivity.
    + eapply IH; eauto.
Qed.

Lemma set_nth_length {A} (l : list A) : forall i x, length (set_nth i x l) = length l.
Proof. induction l as [|y r IH]; intros i x; destruct i; cbn [set_nth length]; auto. Qed.

Lemma set_field_core s h n v : same_core s (set_field s h n v).
Proof.
  unfold set_field. destruct (nth_error (heap s) h) as [c|] eqn:E; [|apply same_core_heap_eq; reflexivity].
  unfold same_core, nh. cbn [ids slots heap upd_heap]. splits; try reflexivity.
  - apply set_nth_length.
  - intros T. eapply cell_ids_set_nth; eauto.
Qed.

Lemma set_var_core s n v : same_core s (set_var s n v).
Proof. unfold set_var. destruct (frames s); apply same_core_heap_eq; reflexivity. Qed.
Lemma set_obj_core s h : same_core s (set_obj s h).
Proof. unfold set_obj. destruct (frames s); apply same_core_heap_eq; reflexivity. Qed.
Lemma push_frame_core s : same_core s (push_frame s).
Proof. apply same_core_heap_eq; reflexivity. Qed.
Lemma pop_frame_core s : same_core s (pop_frame s).
Proof. unfold pop_frame. destruct (frames s); apply same_core_heap_eq; reflexivity. Qed.
Lemma register_object_core s h t nick once : same_core s (register_object s h t nick once).
Proof. unfold register_object. destruct nick, once; apply same_core_heap_eq; reflexivity. Qed.
Lemma remember_deps_core fs : forall s t, same_core s (remember_deps s t fs).
Proof.
  unfold remember_deps. induction fs as [|[n v] r IH]; intros s t; cbn [fold_left].
  - apply same_core_heap_eq; reflexivity.
  - destruct (target_table s v); [|apply IH]. destruct (existsb _ _); [apply IH|].
    destruct (IH (upd_deps s (deps s ++ [(t, s0, n)])) t) as (a & b & c & d).
    unfold same_core. splits; auto.
Qed.
Lemma upd_out_core s x : same_core s (upd_out s x).
Proof. apply same_core_heap_eq; reflexivity. Qed.

Lemma same_core_trans s1 s2 s3 : same_core s1 s2 -> same_core s2 s3 -> same_core s1 s3.
Proof.
  unfold same_core. intros (a & b & c1 & c2) (d & e & f1 & f2).
  splits; [congruence|congruence|congruence|intros T; rewrite f2; apply c2].
Qed.

(* ------------------------------------------------------------------ creating a row *)

Lemma cell_ids_snoc T h c :
  cell_ids T (h ++ [c]) = cell_ids T h ++ (if String.eqb (c_table c) T then [c_id c] else []).
Proof.
  unfold cell_ids. rewrite filter_app, map_app. cbn [filter].
  destruct (String.eqb (c_table c) T); reflexivity.
Qed.

Lemma consume_for_spec s n T s' i :
  consume_for s n T = Some (s', i) ->
  exists sl, lookup n (slots s) = Some sl /\ s_alloc sl = Some i /\ s_consumed sl = false /\
             s_table sl = T /\ s' = upd_slots s (assign n (mkSlot (s_table sl) (Some i) true) (slots s)).
Proof.
  unfold consume_for. destruct (lookup n (slots s)) as [sl|]; [|discriminate].
  destruct (s_alloc sl) as [j|] eqn:Ha; [|discriminate].
  destruct (negb (s_consumed sl) && String.eqb (s_table sl) T) eqn:E; [|discriminate].
  intros H. injection H as <- <-. apply andb_true_iff in E. destruct E as [E1 E2].
  exists sl. splits; auto.
  - destruct (s_consumed sl); [discriminate|reflexivity].
  - apply String.eqb_eq. exact E2.
Qed.

Lemma K_consume s n T s' i idx fs :
  consume_for s n T = Some (s', i) -> K s ->
  K (upd_heap s' (heap s' ++ [mkCell T i idx fs])) /\ heap s' = heap s /\ out s' = out s.
Proof.
  intros Hc [[Hwf Hlen] HK]. destruct (consume_for_spec _ _ _ _ _ Hc) as (sl & Hl & Ha & Hnc & Ht & ->).
  cbn [heap out upd_slots upd_heap]. split; [|split; reflexivity]. split.
  - cbn [slots heap upd_heap upd_slots]. split.
    + apply Forall_assign; [exact Hwf|]. unfold slot_ok. cbn. discriminate.
    + rewrite app_length. lia.
  - intros U. destruct (HK U) as [HP Hnn].
    change (last_id (upd_heap (upd_slots s (assign n (mkSlot (s_table sl) (Some i) true) (slots s)))
                       (heap s ++ [mkCell T i idx fs])) U) with (last_id s U).
    unfold nh at 1. cbn [slots heap upd_heap upd_slots]. split; [|exact Hnn].
    destruct (reserved_assign U n sl (mkSlot (s_table sl) (Some i) true) (slots s) Hl)
      as (pre & post & H1 & H2).
    rewrite H2, (nh_snoc s _ Hlen), cell_ids_snoc. rewrite H1 in HP. cbn [c_table c_id].
    unfold slot_res in *. rewrite Ha in HP. cbn [s_alloc s_consumed negb andb app] in *.
    rewrite Hnc, Ht in HP. cbn [negb andb] in HP.
    destruct (String.eqb T U) eqn:E.
    + (* the reserved id moves from the slot to the heap *)
      eapply Permutation_trans; [|exact HP].
      rewrite <- !app_assoc. apply Permutation_app_head. apply Permutation_app_head.
      cbn [app]. apply Permutation_sym.
      rewrite app_assoc. apply Permutation_cons_append.
    + cbn [app] in *. rewrite app_nil_r. exact HP.
Qed.

Lemma K_generate s T idx fs :
  K s ->
  K (upd_heap (fst (generate_id s T)) (heap s ++ [mkCell T (snd (generate_id s T)) idx fs])).
Proof.
  intros [[Hwf Hlen] HK]. split.
  { split; [exact Hwf|]. cbn [heap upd_heap]. rewrite app_length. lia. }
  intros U. destruct (HK U) as [HP Hnn].
  destruct (HK T) as [_ HnT].
  change (last_id (upd_heap (fst (generate_id s T)) (heap s ++ [mkCell T (snd (generate_id s T)) idx fs])) U)
    with (last_id (fst (generate_id s T)) U).
  rewrite last_id_generate. unfold nh at 1. cbn [slots heap upd_heap generate_id fst snd upd_ids].
  rewrite (nh_snoc s _ Hlen), cell_ids_snoc. cbn [c_table c_id].
  destruct (String.eqb U T) eqn:E.
  - apply String.eqb_eq in E. subst U. rewrite String.eqb_refl. split; [|lia].
    rewrite Zseq_snoc by lia. rewrite !app_assoc. apply Permutation_app_tail.
    rewrite <- !app_assoc. exact HP.
  - assert (E2 : String.eqb T U = false) by (rewrite String.eqb_sym; exact E).
    rewrite E2, app_nil_r. split; assumption.
Qed.

Lemma new_row_K s T nick s1 id idx fs :
  new_row_id s T nick = (s1, id) -> K s ->
  K (upd_heap s1 (heap s1 ++ [mkCell T id idx fs])) /\ heap s1 = heap s /\ out s1 = out s.
Proof.
  unfold new_row_id. intros H HK.
  destruct (match nick with Some n => consume_for s n T | None => None end) as [[s' i]|] eqn:E1.
  - injection H as <- <-. destruct nick as [n|]; [|discriminate]. eapply K_consume; eassumption.
  - destruct (consume_for s T T) as [[s' i]|] eqn:E2.
    + injection H as <- <-. eapply K_consume; eassumption.
    + unfold generate_id in H. injection H as <- <-.
      pose proof (K_generate s T idx fs HK) as HG. unfold generate_id in HG. cbn [fst snd] in HG.
      cbn [heap out upd_ids]. splits; try reflexivity. exact HG.
Qed.

(* ------------------------------------------------------------------ created versus written *)

Definition dl (T : string) (s s' : st) (dw dc : list Z) : Prop :=
  Permutation (written T (out s')) (dw ++ written T (out s)) /\
  Permutation (cell_ids T (nh s')) (cell_ids T (nh s) ++ dc).

Lemma dl_refl T s : dl T s s [] [].
Proof. unfold dl. rewrite app_nil_r. split; apply Permutation_refl. Qed.

Lemma dl_trans T s1 s2 s3 a b c d :
  dl T s1 s2 a b -> dl T s2 s3 c d -> dl T s1 s3 (c ++ a) (b ++ d).
Proof.
  unfold dl. intros [H1 H2] [H3 H4]. split.
  - eapply Permutation_trans; [exact H3|]. rewrite <- app_assoc. apply Permutation_app_head. exact H1.
  - eapply Permutation_trans; [exact H4|]. rewrite app_assoc. apply Permutation_app_tail. exact H2.
Qed.

Lemma dl_quiet T s s' :
  out s' = out s -> (forall U, cell_ids U (nh s') = cell_ids U (nh s)) -> dl T s s' [] [].
Proof. intros Ho Hc. unfold dl. rewrite Ho, Hc, app_nil_r. split; apply Permutation_refl. Qed.

(* balanced: what was written equals what was created *)
Definition bal (s s' : st) : Prop :=
  forall T, hidden T = false -> exists dw dc, dl T s s' dw dc /\ Permutation dw dc.

Lemma bal_refl s : bal s s.
Proof. intros T _. exists [], []. split; [apply dl_refl|constructor]. Qed.

Lemma bal_trans s1 s2 s3 : bal s1 s2 -> bal s2 s3 -> bal s1 s3.
Proof.
  intros H1 H2 T HT. destruct (H1 T HT) as (a & b & Hd1 & Hp1). destruct (H2 T HT) as (c & d & Hd2 & Hp2).
  exists (c ++ a), (b ++ d). split; [eapply dl_trans; eassumption|].
  eapply Permutation_trans; [apply Permutation_app_comm|]. apply Permutation_app; assumption.
Qed.

Lemma bal_quiet s s' :
  out s' = out s -> (forall U, cell_ids U (nh s') = cell_ids U (nh s)) -> bal s s'.
Proof. intros Ho Hc T _. exists [], []. split; [apply dl_quiet; assumption|constructor]. Qed.

Lemma tq_bal s s' : tq s s' -> bal s s'.
Proof. intros (Hh & Ho & _). apply bal_quiet; [exact Ho|]. intros U. rewrite (nh_eq _ _ Hh). reflexivity. Qed.

Lemma core_bal s s' : same_core s s' -> out s' = out s -> bal s s'.
Proof. intros (_ & _ & _ & Hc) Ho. apply bal_quiet; assumption. Qed.

(* K and the balance through every task of the evaluator *)
Theorem run_K fuel : forall e tk s s' r,
  run fuel e tk s = Ok (s', r) -> K s -> K s' /\ bal s s'.
Proof.
  induction fuel as [|n IH]; intros e tk s s' r H HK; [discriminate|].
  cbn [run] in H. destruct tk as [l c|x c|t|t i cnt last|t i|h fs|d].
  - (* TStmts *)
    destruct l as [|x l]; [injection H as <- _; split; [exact HK|apply bal_refl]|].
    dbind H as [s1 r1]. destruct (IH _ _ _ _ _ E HK) as [K1 B1].
    destruct (IH _ _ _ _ _ H K1) as [K2 B2]. split; [exact K2|eapply bal_trans; eassumption].
  - (* TStmt *)
    destruct x as [t|name d].
    + destruct (t_once t && c); [injection H as <- _; split; [exact HK|apply bal_refl]|].
      dbind H as [s1 r1]. injection H as <- _. eapply IH; eassumption.
    + assert (Hgen : forall s1 r1, run n e (TField d) (push_frame s) = Ok (s1, r1) ->
                       K (set_var (pop_frame s1) name (ret_value r1)) /\
                       bal s (set_var (pop_frame s1) name (ret_value r1))).
      { intros s1 r1 E.
        assert (K0 : K (push_frame s)) by (eapply K_same_core; [apply push_frame_core|exact HK]).
        destruct (IH _ _ _ _ _ E K0) as [K1 B1].
        assert (C1 : same_core s1 (set_var (pop_frame s1) name (ret_value r1))).
        { eapply same_core_trans; [apply pop_frame_core|apply set_var_core]. }
        split; [eapply K_same_core; eassumption|].
        eapply bal_trans; [apply (core_bal s (push_frame s)); [apply push_frame_core|reflexivity]|].
        eapply bal_trans; [exact B1|]. apply core_bal; [exact C1|].
        rewrite set_var_out, pop_frame_out. reflexivity. }
      destruct d; try discriminate; (dbind H as [s1 r1]; injection H as <- _; eapply Hgen; reflexivity).
  - (* TRows *)
    dbind H as [s1 cnt]. dbind H as [s2 r2]. injection H as <- _.
    assert (K0 : K (push_frame s)) by (eapply K_same_core; [apply push_frame_core|exact HK]).
    assert (H1 : K s1 /\ bal (push_frame s) s1).
    { destruct (t_count t) as [d|].
      - dbind E as [s1' r1]. dbind E as w0. injection E as <- _. eapply IH; eassumption.
      - injection E as <- _. split; [exact K0|apply bal_refl]. }
    destruct H1 as [K1 B1]. destruct (IH _ _ _ _ _ E0 K1) as [K2 B2].
    split; [eapply K_same_core; [apply pop_frame_core|exact K2]|].
    eapply bal_trans; [apply (core_bal s (push_frame s)); [apply push_frame_core|reflexivity]|].
    eapply bal_trans; [exact B1|]. eapply bal_trans; [exact B2|].
    apply core_bal; [apply pop_frame_core|apply pop_frame_out].
  - (* TLoop *)
    destruct (i <? cnt); [|injection H as <- _; split; [exact HK|apply bal_refl]].
    dbind H as [s1 r1].
    assert (K0 : K (set_var s "child_index" (VInt i))) by (eapply K_same_core; [apply set_var_core|exact HK]).
    destruct (IH _ _ _ _ _ E K0) as [K1 B1].
    destruct r1; try discriminate. destruct (IH _ _ _ _ _ H K1) as [K2 B2].
    split; [exact K2|].
    eapply bal_trans; [apply (core_bal s (set_var s "child_index" (VInt i))); [apply set_var_core|apply set_var_out]|].
    eapply bal_trans; eassumption.
  - (* TRow *)
    destruct (new_row_id s (t_table t) (t_nick t)) as [s1 id] eqn:Hid.
    dbind H as [s4 r4].
    destruct (nth_error (heap s4) (length (heap s1))) as [c|] eqn:Hc; [|discriminate].
    dbind H as s5h. dbind H as s6x. dbind H as [s7 r7]. injection H as <- _.
    destruct (remember_history_rnd _ _ _ _ _ _ E0) as [xr ->]. clear E0.
    rewrite write_row_rnd in E1.
    destruct (write_row (remember_deps s4 (t_table t) (c_fields c)) (length (heap s1))) as [s6|] eqn:E0; [|discriminate].
    cbn [liftRS] in E1. injection E1 as <-. rename E2 into E1.
    destruct (new_row_K _ _ _ _ _ i [] Hid HK) as (Kc & Hh1 & Ho1).
    set (s2 := upd_heap s1 (heap s1 ++ [mkCell (t_table t) id i []])) in *.
    set (s3 := register_object (set_obj s2 (length (heap s1))) (length (heap s1)) (t_table t) (t_nick t) (t_once t)) in *.
    assert (C23 : same_core s2 s3).
    { eapply same_core_trans; [apply set_obj_core|apply register_object_core]. }
    assert (K3 : K s3) by (eapply K_same_core; eassumption).
    destruct (IH _ _ _ _ _ E K3) as [K4 B4].
    assert (K5 : K (remember_deps s4 (t_table t) (c_fields c))).
    { eapply K_same_core; [apply remember_deps_core|exact K4]. }
    (* write_row *)
    assert (Hw : K s6 /\
                 (forall U, cell_ids U (nh s6) = cell_ids U (nh s4)) /\
                 forall T, hidden T = false ->
                   Permutation (written T (out s6))
                     ((if String.eqb (c_table c) T then [c_id c] else []) ++ written T (out s4))).
    { pose proof (remember_deps_core (c_fields c) s4 (t_table t)) as (Hi5 & Hs5 & Hl5 & Hc5).
      pose proof (remember_deps_out (c_fields c) s4 (t_table t)) as Ho5.
      set (s5 := remember_deps s4 (t_table t) (c_fields c)) in *.
      unfold write_row in E0.
      destruct (nth_error (heap s5) (length (heap s1))) as [c5|] eqn:Hc5'; [|discriminate].
      (* remember_deps does not touch the heap *)
      assert (Hheap5 : heap s5 = heap s4).
      { unfold s5, remember_deps. clear. generalize s4. induction (c_fields c) as [|[n v] r IHr]; intros s; cbn [fold_left]; [reflexivity|].
        rewrite IHr. destruct (target_table s v); [|reflexivity]. destruct (existsb _ _); reflexivity. }
      rewrite Hheap5, Hc in Hc5'. injection Hc5' as <-.
      destruct (hidden (c_table c)) eqn:Hhid.
      - injection E0 as <-. split; [exact K5|]. split; [exact Hc5|].
        intros T HT. rewrite Ho5.
        destruct (String.eqb (c_table c) T) eqn:ET; [|apply Permutation_refl].
        apply String.eqb_eq in ET. rewrite ET in Hhid. congruence.
      - destruct (flatten_fields s5 (c_fields c)) as [[s5' fs]|] eqn:Efl; cbn [bind] in E0; [|discriminate].
        injection E0 as <-.
        pose proof (flatten_fields_tq _ _ _ _ Efl) as (Hh & Ho & HKk).
        split; [eapply K_same_core; [apply upd_out_core|apply HKk; exact K5]|].
        split.
        + intros U. rewrite <- Hc5. apply f_equal. apply nh_eq. cbn [heap upd_out]. exact Hh.
        + intros T HT. cbn [out upd_out]. rewrite Ho, Ho5. unfold written at 1. cbn [flat_map fst snd orow_id].
          fold (written T (out s4)). apply Permutation_refl. }
    destruct Hw as (K6 & Hcell6 & Hwr6).
    assert (K6x : K (upd_rnd s6 xr)) by exact K6.
    destruct (IH _ _ _ _ _ E1 K6x) as [K7 B7x].
    assert (B7 : bal s6 s7) by exact B7x.
    split; [exact K7|].
    (* the balance: created [id], written [id] (visible tables) *)
    intros T HT.
    destruct (B4 T HT) as (dw4 & dc4 & [Hw4 Hc4] & Hp4).
    destruct (B7 T HT) as (dw7 & dc7 & [Hw7 Hc7] & Hp7).
    (* the cell at position |heap s1| is the one just created *)
    assert (Hcell : c_table c = t_table t /\ c_id c = id).
    { pose proof (run_heap_ext _ _ _ _ _ _ E) as Hext.
      assert (Hn3 : nth_error (heap s3) (length (heap s1)) = Some (mkCell (t_table t) id i [])).
      { unfold s3. rewrite register_object_heap, set_obj_heap. unfold s2. cbn [heap upd_heap].
        rewrite nth_error_app2 by lia. rewrite Nat.sub_diag. reflexivity. }
      destruct (Hext _ _ Hn3) as (c' & Hc' & k1 & k2 & _). rewrite Hc in Hc'. injection Hc' as <-.
      cbn [c_table c_id] in *. auto. }
    destruct Hcell as [Hct Hci].
    set (X := if String.eqb (t_table t) T then [id] else []).
    assert (Hout3 : out s3 = out s).
    { unfold s3. rewrite register_object_out, set_obj_out. unfold s2. cbn [out upd_heap]. exact Ho1. }
    assert (Hcells3 : cell_ids T (nh s3) = cell_ids T (nh s) ++ X).
    { destruct C23 as (_ & _ & _ & Hc23). rewrite Hc23. unfold s2. unfold nh at 1. cbn [heap upd_heap].
      destruct HK as [[_ Hlen] _]. rewrite <- Hh1 in Hlen.
      rewrite (nh_snoc s1 _ Hlen), cell_ids_snoc. cbn [c_table c_id]. fold X.
      rewrite (nh_eq _ _ Hh1). reflexivity. }
    exists (dw7 ++ X ++ dw4), (X ++ dc4 ++ dc7). split; [split|].
    + eapply Permutation_trans; [exact Hw7|]. rewrite <- !app_assoc. apply Permutation_app_head.
      eapply Permutation_trans; [apply (Hwr6 T HT)|]. rewrite Hct, Hci. fold X.
      apply Permutation_app_head. rewrite <- Hout3. exact Hw4.
    + eapply Permutation_trans; [exact Hc7|]. rewrite Hcell6.
      eapply Permutation_trans; [apply Permutation_app_tail; exact Hc4|].
      rewrite Hcells3, <- !app_assoc. apply Permutation_refl.
    + eapply Permutation_trans; [apply Permutation_app_comm|]. rewrite <- !app_assoc.
      apply Permutation_app_head. apply Permutation_app; assumption.
  - (* TFields *)
    destruct fs as [|[name d] fs]; [injection H as <- _; split; [exact HK|apply bal_refl]|].
    destruct (String.eqb name "id"); [discriminate|].
    dbind H as [s1 v]. destruct (IH _ _ _ _ _ E HK) as [K1 B1].
    assert (K1' : K (set_field s1 h name (ret_value v))) by (eapply K_same_core; [apply set_field_core|exact K1]).
    destruct (IH _ _ _ _ _ H K1') as [K2 B2]. split; [exact K2|].
    eapply bal_trans; [exact B1|]. eapply bal_trans; [|exact B2].
    apply core_bal; [apply set_field_core|apply set_field_out].
  - (* TField *)
    destruct d as [z|x|ps|path|t|to].
    + injection H as <- _. split; [exact HK|apply bal_refl].
    + destruct (version e =? 3); [injection H as <- _; split; [exact HK|apply bal_refl]|].
      dbind H as w0. injection H as <- _. split; [exact HK|apply bal_refl].
    + dbind H as [s1 v]. injection H as <- _. apply render_formula_tq in E.
      split; [apply E; exact HK|apply tq_bal; exact E].
    + dbind H as [s1 v]. injection H as <- _. apply reference_tq in E.
      split; [apply E; exact HK|apply tq_bal; exact E].
    + eapply IH; eassumption.
    + dbind H as [s1 v]. injection H as <- _. apply random_reference_rnd in E. apply rnd_only_tq in E.
      split; [apply E; exact HK|apply tq_bal; exact E].
Qed.

(* ------------------------------------------------------------------ iterations *)

Lemma slots_filled_reserved s T : slots_filled s = true -> reserved T (slots s) = [].
Proof.
  unfold slots_filled, reserved. induction (slots s) as [|[n sl] r IH]; cbn [forallb flat_map snd]; [reflexivity|].
  intros H. apply andb_true_iff in H. destruct H as [H1 H2]. rewrite (IH H2), app_nil_r.
  unfold slot_res. destruct (s_alloc sl); [|reflexivity]. rewrite H1. reflexivity.
Qed.

Lemma fresh_slots_reserved e T : reserved T (fresh_slots e) = [].
Proof.
  unfold fresh_slots, reserved. induction (name_slots e) as [|[n t] r IH]; cbn [map flat_map snd]; [reflexivity|].
  rewrite IH. reflexivity.
Qed.

Lemma fresh_slots_ok e : Forall slot_ok (fresh_slots e).
Proof.
  unfold fresh_slots. induction (name_slots e) as [|[n t] r IH]; cbn [map]; constructor; [|exact IH].
  unfold slot_ok. cbn. reflexivity.
Qed.

Strategy 1000 [iteration run].

Lemma iteration_K e stmts c s s' :
  iteration e stmts c s = Ok s' -> K s -> K s' /\ bal s s' /\ (forall T, reserved T (slots s') = []).
Proof.
  unfold iteration. intros H HK. dbind H as [s1 r].
  destruct (slots_filled s1) eqn:Hf; [|discriminate].
  destruct (stale_slot 4 s1 (survivors s1)); [discriminate|]. injection H as <-.
  destruct (run_K _ _ _ _ _ _ E HK) as [[[Hwf Hlen] K1] B1].
  (* reset_hist only touches the random-reference state *)
  cut (K (reset_slots e s1) /\ bal s (reset_slots e s1) /\ (forall T, reserved T (slots (reset_slots e s1)) = [])).
  { intros Hg. exact Hg. }
  splits.
  - split; [split; [apply fresh_slots_ok|exact Hlen]|]. intros T. destruct (K1 T) as [HP Hnn].
    change (last_id (reset_slots e s1) T) with (last_id s1 T).
    change (nh (reset_slots e s1)) with (nh s1). cbn [slots reset_slots].
    rewrite fresh_slots_reserved. rewrite (slots_filled_reserved s1 T Hf) in HP. split; assumption.
  - eapply bal_trans; [exact B1|]. apply bal_quiet; reflexivity.
  - intros T. apply fresh_slots_reserved.
Qed.

Lemma iterations_K k : forall e stmts c s s',
  iterations k e stmts c s = Ok s' -> K s -> (forall T, reserved T (slots s) = []) ->
  K s' /\ bal s s' /\ (forall T, reserved T (slots s') = []).
Proof.
  induction k as [|k IH]; intros e stmts c s s' H HK Hr; cbn [iterations] in H.
  - injection H as <-. splits; [exact HK|apply bal_refl|exact Hr].
  - dbind H as s1. destruct (iteration_K _ _ _ _ _ E HK) as (K1 & B1 & R1).
    destruct (IH _ _ _ _ _ H K1 R1) as (K2 & B2 & R2). splits; [exact K2|eapply bal_trans; eassumption|exact R2].
Qed.

End WithMissing.

(* ------------------------------------------------------------------ C01: one run, fresh or continued *)

(* a state from which a run may start: no pending forward references, nothing written yet *)
Definition start_ok (s0 : st) : Prop :=
  Forall slot_ok (slots s0) /\ (forall T, reserved T (slots s0) = []) /\
  (forall T, 0 <= last_id s0 T) /\ out s0 = [].

Definition miss_of (s0 : st) (T : string) : list Z := Zseq 1 (Z.to_nat (last_id s0 T)).

Lemma start_K s0 : start_ok s0 -> K (miss_of s0) (length (heap s0)) s0.
Proof.
  intros (Hwf & Hr & Hnn & _). split; [split; [exact Hwf|lia]|]. intros T.
  unfold nh. rewrite skipn_all, Hr. cbn [cell_ids filter map app]. rewrite app_nil_r.
  split; [apply Permutation_refl|apply Hnn].
Qed.

Lemma written_rev T l : Permutation (written T (rev l)) (written T l).
Proof.
  unfold written. induction l as [|x r IH]; cbn [rev flat_map]; [constructor|].
  rewrite flat_map_app. cbn [flat_map]. rewrite app_nil_r.
  eapply Permutation_trans; [apply Permutation_app_comm|]. apply Permutation_app_head. exact IH.
Qed.

(* One run of k iterations from any admissible start state: the ids written for a visible
   table are exactly the next block  last0+1 .. last  of that table's counter. *)
Theorem ids_dense_run e stmts c k s0 s :
  start_ok s0 -> iterations k e stmts c s0 = Ok s ->
  start_ok (upd_out s []) /\
  forall T, last_id s0 T <= last_id s T /\
    (hidden T = false ->
     Permutation (written T (out s))
                 (Zseq (last_id s0 T + 1) (Z.to_nat (last_id s T - last_id s0 T)))).
Proof.
  intros Hs0 H. pose proof Hs0 as (_ & _ & Hnn0 & Hout0).
  destruct (iterations_K (miss_of s0) (length (heap s0)) k _ _ _ _ _ H (start_K _ Hs0))
    as ([[Hwf _] HK] & HB & HR).
  { destruct Hs0 as (_ & Hr & _). exact Hr. }
  split.
  { unfold start_ok. cbn [slots out upd_out]. splits; try assumption; try reflexivity.
    intros T. destruct (HK T) as [_ Hn]. exact Hn. }
  intros T. destruct (HK T) as [HP Hnn]. rewrite HR in HP. cbn [app] in HP.
  assert (Hle : last_id s0 T <= last_id s T).
  { apply Permutation_length in HP. rewrite app_length, !Zseq_length in HP.
    specialize (Hnn0 T). unfold miss_of in HP. rewrite Zseq_length in HP. lia. }
  split; [exact Hle|]. intros HT.
  assert (Hsplit : Zseq 1 (Z.to_nat (last_id s T)) =
                   miss_of s0 T ++ Zseq (last_id s0 T + 1) (Z.to_nat (last_id s T - last_id s0 T))).
  { unfold miss_of. specialize (Hnn0 T).
    replace (Z.to_nat (last_id s T)) with (Z.to_nat (last_id s0 T) + Z.to_nat (last_id s T - last_id s0 T))%nat by lia.
    rewrite Zseq_app. do 2 f_equal. lia. }
  rewrite Hsplit in HP. apply Permutation_app_inv_l in HP.
  destruct (HB T HT) as (dw & dc & [Hw Hc] & Hp).
  rewrite Hout0 in Hw. cbn [written flat_map] in Hw. rewrite app_nil_r in Hw.
  unfold nh in Hc at 2. rewrite skipn_all in Hc. cbn [cell_ids filter map app] in Hc.
  eapply Permutation_trans; [exact Hw|]. eapply Permutation_trans; [exact Hp|].
  eapply Permutation_trans; [apply Permutation_sym; exact Hc|]. exact HP.
Qed.

Lemma init_start_ok e dr : start_ok (init_st e dr).
Proof.
  unfold start_ok. cbn [init_st slots out]. split; [|split; [|split]].
  - apply fresh_slots_ok.
  - intros T. apply fresh_slots_reserved.
  - intros T. unfold last_id. cbn. lia.
  - reflexivity.
Qed.

(* After any number of iterations of any recipe of the fragment: for every visible table the
   ids of the rows written to the output are exactly 1..n, n = highest id issued, each once. *)
Theorem ids_dense_fresh r k s :
  run_fresh r k = Ok s ->
  forall T, hidden T = false ->
    Permutation (written T (out s)) (Zseq 1 (Z.to_nat (last_id s T))).
Proof.
  unfold run_fresh. intros H T HT.
  destruct (ids_dense_run _ _ _ _ _ _ (init_start_ok _ _) H) as [_ HD].
  destruct (HD T) as [_ HP]. specialize (HP HT).
  assert (H0 : last_id (init_st (env_of r) (r_draws r)) T = 0) by (unfold last_id; reflexivity).
  rewrite H0 in HP. replace (last_id s T - 0) with (last_id s T) in HP by lia. exact HP.
Qed.

(* ------------------------------------------------------------------ C01: chains of continuation runs *)

Lemma load_spec e c s0 : load e c = Ok s0 ->
  exists h, s0 = mkSt (k_ids c) (fresh_slots e) [] [] (k_p_nicks c) (k_p_tables c) (k_heap c)
                      [mkFrame [] None] (k_deps c) [] (mkR h (k_draws c)).
Proof.
  unfold load. intros H. dbind H as h. injection H as <-. exists h. reflexivity.
Qed.

Lemma load_start_ok e c s0 : load e c = Ok s0 ->
  (forall T, 0 <= match lookup T (k_ids c) with Some z => z | None => 0 end) ->
  start_ok s0.
Proof.
  intros Hl Hnn. destruct (load_spec _ _ _ Hl) as [h ->].
  unfold start_ok. cbn [slots out]. split; [|split; [|split]].
  - apply fresh_slots_ok.
  - intros T. apply fresh_slots_reserved.
  - intros T. unfold last_id. cbn [ids]. apply Hnn.
  - reflexivity.
Qed.

Lemma save_ids s c : save s = Ok c -> k_ids c = ids s.
Proof.
  unfold save. intros H. dbind H as h1. injection H as <-. reflexivity.
Qed.

Lemma load_last_id e c s0 T : load e c = Ok s0 ->
  last_id s0 T = match lookup T (k_ids c) with Some z => z | None => 0 end.
Proof. intros Hl. destruct (load_spec _ _ _ Hl) as [h ->]. reflexivity. Qed.

(* the ids written by a chain of runs, per visible table, starting after the ids [base] *)
Lemma history_dense r ks : forall (c : option cont) (rowss : list (list orow)) (base : string -> Z),
  run_history r ks c = Ok rowss ->
  match c with
  | None => forall T, base T = 0
  | Some c0 => (forall T, base T = match lookup T (k_ids c0) with Some z => z | None => 0 end) /\
               (forall T, 0 <= base T)
  end ->
  forall T, hidden T = false ->
    exists n, Permutation (written T (concat rowss)) (Zseq (base T + 1) n).
Proof.
  induction ks as [|k rest IH]; intros c rowss base H Hc T HT; cbn [run_history] in H.
  - injection H as <-. exists 0%nat. constructor.
  - dbind H as s.
    (* the run itself *)
    assert (Hrun : exists s0, start_ok s0 /\ (forall U, last_id s0 U = base U) /\
                              iterations k (env_of r) (r_stmts r) (match c with None => false | Some _ => true end) s0 = Ok s).
    { destruct c as [c0|]; cbn [run_one] in E.
      - destruct Hc as [Hb Hnn]. dbind E as sl. exists sl.
        splits; [|intros U; rewrite (load_last_id _ _ _ _ E0), Hb; reflexivity|exact E].
        eapply load_start_ok; [exact E0|]. intros U. rewrite <- Hb. apply Hnn.
      - exists (init_st (env_of r) (r_draws r)). splits; [apply init_start_ok|intros U; rewrite Hc; reflexivity|exact E]. }
    destruct Hrun as (s0 & Hs0 & Hbase & Hit).
    destruct (ids_dense_run _ _ _ _ _ _ Hs0 Hit) as [Hok HD].
    destruct (HD T) as [Hle HP]. specialize (HP HT). rewrite Hbase in HP, Hle.
    assert (Hrows : Permutation (written T (rows_of s))
                      (Zseq (base T + 1) (Z.to_nat (last_id s T - base T)))).
    { unfold rows_of. eapply Permutation_trans; [apply written_rev|exact HP]. }
    destruct rest as [|k2 rest2].
    + injection H as <-. cbn [concat]. rewrite app_nil_r. eexists. exact Hrows.
    + dbind H as c1. dbind H as tl. injection H as <-.
      pose proof (save_ids _ _ E0) as Hids.
      destruct Hok as (_ & _ & Hnn & _).
      destruct (IH (Some c1) tl (fun U => last_id s U) E1) with (T := T) as (n2 & Hn2); [|exact HT|].
      { split; [intros U; rewrite Hids; reflexivity|]. intros U. apply (Hnn U). }
      exists (Z.to_nat (last_id s T - base T) + n2)%nat.
      cbn [concat]. unfold written in *. rewrite flat_map_app.
      rewrite Zseq_app. apply Permutation_app; [exact Hrows|].
      replace (base T + 1 + Z.of_nat (Z.to_nat (last_id s T - base T))) with (last_id s T + 1) by lia.
      exact Hn2.
Qed.

(* C01 over any chain of continuation runs: per visible table the ids written over the whole
   history are exactly 1..n. *)
Theorem ids_dense_history r ks rowss :
  run_history r ks None = Ok rowss ->
  forall T, hidden T = false -> exists n, Permutation (written T (concat rowss)) (Zseq 1 n).
Proof.
  intros H T HT.
  destruct (history_dense r ks None rowss (fun _ => 0) H (fun _ => eq_refl) T HT) as (n & Hn).
  exists n. exact Hn.
Qed.

(* each continuation resumes numbering immediately after the highest id recorded in the file *)
Theorem resume_after_highest e s c s0 T : save s = Ok c -> load e c = Ok s0 -> last_id s0 T = last_id s T.
Proof. intros H Hl. rewrite (load_last_id _ _ _ _ Hl), (save_ids _ _ H). reflexivity. Qed.
