(* ScheduleP.v — proofs about the model of Schedule.py (property C15). *)
From Coq Require Import ZArith List Bool String Lia Sorted.
From SFV Require Import Base Schedule.
Import ListNotations. Open Scope Z_scope.

Ltac splits := repeat match goal with |- _ /\ _ => split end.

Lemma bind_ok : forall A B (r : result A) (f : A -> result B) b,
  bind r f = Ok b -> exists a, r = Ok a /\ f a = Ok b.
Proof. intros A B r f b H. destruct r as [a|e]; cbn [bind] in H; [eauto | discriminate]. Qed.

Ltac bind_inv H x Hx :=
  apply bind_ok in H; destruct H as (x & Hx & H).

Definition US_PER_DAY : Z := 86400000000.

Definition instant (off : Z) (x : dt) : Z := d_days x * US_PER_DAY + d_us x - off * 1000000.

(* ------------------------------------------------------------------ wire *)

Definition is_date_like (a : arg) : bool :=
  match a with
  | ADate _ => true
  | AStr s => negb (is_datetime s)
  | _ => false
  end.

(* everything [wire] computes, step by step *)
Lemma wire_inv : forall P now a r p sp,
  wire P now a = Ok (r, p, sp) ->
  exists fq ex inc,
    s_freq a = Some fq /\
    check_undoc (dflt (ABool false) (s_uuf a)) (dflt ANone (s_bysetpos a))
                (dflt ANone (s_byeaster a)) (dflt (ABool false) (s_cache a))
                (dflt ANone (s_byweekno a)) = Ok tt /\
    norm_start P now (dflt ANone (s_start_date a)) = Ok (r_dtstart r, p) /\
    ints (dflt ANone (s_bysetpos a)) = Ok (r_bysetpos r) /\
    ints (dflt ANone (s_bymonth a)) = Ok (r_bymonth r) /\
    ints (dflt ANone (s_bymonthday a)) = Ok (r_bymonthday r) /\
    ints (dflt ANone (s_byyearday a)) = Ok (r_byyearday r) /\
    ints (dflt ANone (s_byeaster a)) = Ok (r_byeaster r) /\
    ints (dflt ANone (s_byhour a)) = Ok (r_byhour r) /\
    ints (dflt ANone (s_byminute a)) = Ok (r_byminute r) /\
    ints (dflt ANone (s_bysecond a)) = Ok (r_bysecond r) /\
    ints (dflt ANone (s_byweekno a)) = Ok (r_byweekno r) /\
    norm_until P (r_dtstart r) (dflt ANone (s_until a)) = Ok (r_until r) /\
    norm_freq fq p = Ok (r_freq r) /\
    weekdays (dflt ANone (s_byweekday a)) = Ok (r_byweekday r) /\
    r_interval r = to_scalar (dflt (AInt 1) (s_interval a)) /\
    r_count r = to_scalar (dflt ANone (s_count a)) /\
    r_wkst r = Some SU /\
    r_cache r = to_scalar (dflt (ABool false) (s_cache a)) /\
    truthy (dflt (AInt 1) (s_interval a)) = true /\
    special_part P (r_dtstart r) MExRule MExDate (dflt ANone (s_exclude a)) = Ok ex /\
    special_part P (r_dtstart r) MRRule MRDate (dflt ANone (s_include a)) = Ok inc /\
    sp = ex ++ inc.
Proof.
  intros P now a r p sp H. unfold wire in H.
  destruct (s_freq a) as [fq|] eqn:Hfq; [|discriminate].
  bind_inv H u Hu. destruct u.
  bind_inv H st Hst. destruct st as [start p0].
  bind_inv H v1 H1. bind_inv H v2 H2. bind_inv H v3 H3. bind_inv H v4 H4. bind_inv H v5 H5.
  bind_inv H v6 H6. bind_inv H v7 H7. bind_inv H v8 H8. bind_inv H v9 H9.
  bind_inv H un Hun. bind_inv H fr Hfr. bind_inv H ci Hci. bind_inv H wd Hwd.
  assert (Hiv : truthy (dflt (AInt 1) (s_interval a)) = true)
    by (unfold check_interval in Hci; destruct (truthy (dflt (AInt 1) (s_interval a))); [reflexivity | discriminate]).
  cbv zeta in H.
  bind_inv H exs Hex. bind_inv H incs Hinc.
  inversion H; subst; clear H.
  exists fq, exs, incs.
  cbn [r_freq r_dtstart r_interval r_wkst r_count r_until r_bysetpos r_bymonth r_bymonthday
       r_byyearday r_byeaster r_byweekno r_byweekday r_byhour r_byminute r_bysecond r_cache].
  splits; auto.
Qed.

(* each engine keyword receives the normalisation of the recipe keyword OF THE SAME NAME *)
Theorem wiring_faithful : forall P now a r p sp,
  wire P now a = Ok (r, p, sp) ->
  exists fq,
    s_freq a = Some fq /\
    norm_freq fq p = Ok (r_freq r) /\
    norm_start P now (dflt ANone (s_start_date a)) = Ok (r_dtstart r, p) /\
    r_interval r = to_scalar (dflt (AInt 1) (s_interval a)) /\
    r_count r = to_scalar (dflt ANone (s_count a)) /\
    norm_until P (r_dtstart r) (dflt ANone (s_until a)) = Ok (r_until r) /\
    ints (dflt ANone (s_bysetpos a)) = Ok (r_bysetpos r) /\
    ints (dflt ANone (s_bymonth a)) = Ok (r_bymonth r) /\
    ints (dflt ANone (s_bymonthday a)) = Ok (r_bymonthday r) /\
    ints (dflt ANone (s_byyearday a)) = Ok (r_byyearday r) /\
    ints (dflt ANone (s_byeaster a)) = Ok (r_byeaster r) /\
    ints (dflt ANone (s_byweekno a)) = Ok (r_byweekno r) /\
    weekdays (dflt ANone (s_byweekday a)) = Ok (r_byweekday r) /\
    ints (dflt ANone (s_byhour a)) = Ok (r_byhour r) /\
    ints (dflt ANone (s_byminute a)) = Ok (r_byminute r) /\
    ints (dflt ANone (s_bysecond a)) = Ok (r_bysecond r) /\
    r_wkst r = Some SU /\
    r_cache r = to_scalar (dflt (ABool false) (s_cache a)).
Proof.
  intros P now a r p sp H.
  destruct (wire_inv _ _ _ _ _ _ H) as (fq & ex & inc & ? & ? & ? & ? & ? & ? & ? & ? & ? & ? & ? & ? & ? & ? & ? & ? & ? & ? & ? & ? & ? & ? & ?).
  exists fq. splits; assumption.
Qed.

(* a keyword that is not given leaves the engine keyword of the same name unset,
   whatever the other keywords are (the byweekno / bysecond mix-up is excluded) *)
Theorem absent_keyword_absent_in_engine : forall P now a r p sp,
  wire P now a = Ok (r, p, sp) ->
  (s_bysetpos a = None -> r_bysetpos r = None) /\
  (s_bymonth a = None -> r_bymonth r = None) /\
  (s_bymonthday a = None -> r_bymonthday r = None) /\
  (s_byyearday a = None -> r_byyearday r = None) /\
  (s_byeaster a = None -> r_byeaster r = None) /\
  (s_byweekno a = None -> r_byweekno r = None) /\
  (s_byweekday a = None -> r_byweekday r = None) /\
  (s_byhour a = None -> r_byhour r = None) /\
  (s_byminute a = None -> r_byminute r = None) /\
  (s_bysecond a = None -> r_bysecond r = None) /\
  (s_until a = None -> r_until r = None) /\
  (s_count a = None -> r_count r = SNone) /\
  (s_interval a = None -> r_interval r = SInt 1).
Proof.
  intros P now a r p sp H.
  destruct (wire_inv _ _ _ _ _ _ H) as (fq & ex & inc & ? & ? & ? & Ha & Hb & Hc & Hd & He & Hf & Hg & Hh & Hi & Hu & ? & Hw & Hiv & Hct & ? & ? & ? & ? & ? & ?).
  splits; intro E; rewrite E in *; cbn [dflt] in *.
  all: try (cbn [ints] in *; congruence).
  - unfold weekdays in Hw. cbn [truthy negb] in Hw. congruence.
  - unfold norm_until in Hu. cbn [truthy negb] in Hu. congruence.
  - rewrite Hct. reflexivity.
  - rewrite Hiv. reflexivity.
Qed.

(* two keyword sets that differ only in bysecond give engine arguments that differ only in bysecond *)
Definition with_bysecond (v : option arg) (a : sched_args) : sched_args :=
  mkS (s_freq a) (s_start_date a) (s_interval a) (s_count a) (s_until a) (s_bysetpos a) (s_bymonth a)
      (s_bymonthday a) (s_byyearday a) (s_byeaster a) (s_byweekno a) (s_byweekday a) (s_byhour a)
      (s_byminute a) v (s_cache a) (s_exclude a) (s_include a) (s_uuf a).

Definition with_r_bysecond (v : option (list Z)) (r : rrule_args) : rrule_args :=
  mkRR (r_freq r) (r_dtstart r) (r_interval r) (r_wkst r) (r_count r) (r_until r) (r_bysetpos r)
       (r_bymonth r) (r_bymonthday r) (r_byyearday r) (r_byeaster r) (r_byweekno r) (r_byweekday r)
       (r_byhour r) (r_byminute r) v (r_cache r).

Theorem bysecond_restricts_only_seconds : forall P now a v r p sp r' p' sp',
  wire P now a = Ok (r, p, sp) ->
  wire P now (with_bysecond v a) = Ok (r', p', sp') ->
  r' = with_r_bysecond (r_bysecond r') r /\ p' = p /\ sp' = sp.
Proof.
  intros P now a v r p sp r' p' sp' H H'.
  destruct (wire_inv _ _ _ _ _ _ H) as (fq & ex & inc & A0 & A1 & A2 & A3 & A4 & A5 & A6 & A7 & A8 & A9 & A10 & A11 & A12 & A13 & A14 & A15 & A16 & A17 & A18 & AI & A19 & A20 & A21).
  destruct (wire_inv _ _ _ _ _ _ H') as (fq' & ex' & inc' & B0 & B1 & B2 & B3 & B4 & B5 & B6 & B7 & B8 & B9 & B10 & B11 & B12 & B13 & B14 & B15 & B16 & B17 & B18 & BI & B19 & B20 & B21).
  unfold with_bysecond in *.
  cbn [s_freq s_start_date s_interval s_count s_until s_bysetpos s_bymonth s_bymonthday s_byyearday
       s_byeaster s_byweekno s_byweekday s_byhour s_byminute s_bysecond s_cache s_exclude s_include s_uuf] in *.
  rewrite A2 in B2. inversion B2 as [[Es Ep]]. subst p'.
  rewrite A0 in B0. inversion B0; subst fq'.
  rewrite <- Es in B12, B19, B20.
  rewrite A19 in B19. inversion B19; subst ex'.
  rewrite A20 in B20. inversion B20; subst inc'.
  splits; auto; [|congruence].
  assert (Eta : forall x, x = mkRR (r_freq x) (r_dtstart x) (r_interval x) (r_wkst x) (r_count x) (r_until x)
                                   (r_bysetpos x) (r_bymonth x) (r_bymonthday x) (r_byyearday x) (r_byeaster x)
                                   (r_byweekno x) (r_byweekday x) (r_byhour x) (r_byminute x) (r_bysecond x)
                                   (r_cache x)) by (intro x; destruct x; reflexivity).
  rewrite (Eta r') at 1. unfold with_r_bysecond.
  rewrite A3 in B3; inversion B3. rewrite A4 in B4; inversion B4. rewrite A5 in B5; inversion B5.
  rewrite A6 in B6; inversion B6. rewrite A7 in B7; inversion B7. rewrite A8 in B8; inversion B8.
  rewrite A9 in B9; inversion B9. rewrite A11 in B11; inversion B11. rewrite A12 in B12; inversion B12.
  rewrite A13 in B13; inversion B13. rewrite A14 in B14; inversion B14.
  rewrite A15, B15, A16, B16, A17, B17, A18, B18, <- Es.
  reflexivity.
Qed.

(* ------------------------------------------------------------------ precision *)

Lemma norm_start_precision : forall P now a start p,
  norm_start P now a = Ok (start, p) -> (p = PDate <-> is_date_like a = true).
Proof.
  intros P now a start p H. unfold norm_start in H.
  destruct a; cbn [is_date_like truthy] in *;
    try (destruct (truthy _) eqn:?; try discriminate);
    try (inversion H; subst; split; intro; congruence).
  - (* bool *) destruct b; try discriminate. inversion H; subst. split; intro; congruence.
  - (* int *) destruct (negb (z =? 0)); try discriminate. inversion H; subst. split; intro; congruence.
  - (* str *) bind_inv H t Ht. inversion H; subst.
    destruct (is_datetime s); cbn [negb]; split; intro; congruence.
  - (* seq *) destruct l; try discriminate. inversion H; subst. split; intro; congruence.
Qed.

Lemma norm_freq_time : forall fq p f,
  norm_freq fq p = Ok f -> is_time_freq f = true -> p = PDateTime.
Proof.
  intros fq p f H Ht. unfold norm_freq in H.
  destruct fq; try discriminate.
  destruct (freq_of (upper s)) as [f0|]; try discriminate.
  destruct p; auto.
  destruct (is_time_freq f0) eqn:E; try discriminate.
  inversion H; subst. congruence.
Qed.

Theorem precision_rule : forall P now a r p sp,
  wire P now a = Ok (r, p, sp) ->
  (p = PDate <-> is_date_like (dflt ANone (s_start_date a)) = true) /\
  (is_time_freq (r_freq r) = true -> p = PDateTime) /\
  (forall x, emit_next p x = match p with PDate => VDate (d_days x) | PDateTime => VDateTime x end).
Proof.
  intros P now a r p sp H.
  destruct (wire_inv _ _ _ _ _ _ H) as (fq & ex & inc & ? & ? & Hs & ? & ? & ? & ? & ? & ? & ? & ? & ? & ? & Hf & ?).
  splits.
  - eapply norm_start_precision; eauto.
  - eapply norm_freq_time; eauto.
  - intro x. destruct p; reflexivity.
Qed.

(* a date-precision start together with an hourly / minutely / secondly frequency is rejected *)
Theorem time_freq_needs_datetime : forall P now a,
  is_date_like (dflt ANone (s_start_date a)) = true ->
  (exists s f, s_freq a = Some (AStr s) /\ freq_of (upper s) = Some f /\ is_time_freq f = true) ->
  is_ok (wire P now a) = false.
Proof.
  intros P now a Hd (s & f & Hs & Hf & Ht).
  destruct (wire P now a) as [[[r p] sp]|e] eqn:H; [|reflexivity].
  exfalso.
  destruct (wire_inv _ _ _ _ _ _ H) as (fq & ex & inc & Hfq & ? & Hst & ? & ? & ? & ? & ? & ? & ? & ? & ? & ? & Hnf & ?).
  assert (p = PDate) by (eapply norm_start_precision; eauto).
  subst p. rewrite Hs in Hfq. inversion Hfq; subst fq.
  unfold norm_freq in Hnf. rewrite Hf, Ht in Hnf. discriminate.
Qed.

Theorem undocumented_rejected : forall P now a fq,
  s_freq a = Some fq ->
  truthy (dflt (ABool false) (s_uuf a)) = false ->
  (truthy (dflt ANone (s_bysetpos a)) || truthy (dflt ANone (s_byeaster a))
   || truthy (dflt (ABool false) (s_cache a)) || truthy (dflt ANone (s_byweekno a))) = true ->
  wire P now a = Err (DGE "").
Proof.
  intros P now a fq Hf Hu Ht. unfold wire. rewrite Hf.
  unfold check_undoc. rewrite Hu, Ht. reflexivity.
Qed.

Theorem bad_frequency_rejected : forall P now a fq,
  s_freq a = Some fq ->
  (forall p, norm_freq fq p = Err (DGE "")) ->
  is_ok (wire P now a) = false.
Proof.
  intros P now a fq Hf Hn.
  destruct (wire P now a) as [[[r p] sp]|e] eqn:H; [|reflexivity].
  destruct (wire_inv _ _ _ _ _ _ H) as (fq' & ex & inc & Hfq & ? & ? & ? & ? & ? & ? & ? & ? & ? & ? & ? & ? & Hnf & ?).
  rewrite Hf in Hfq. inversion Hfq; subst. rewrite Hn in Hnf. discriminate.
Qed.

(* an interval of 0 / None / "" / False is rejected (the engine would never advance); and a rule
   that is built always has a truthy interval *)
Theorem falsy_interval_rejected : forall P now a,
  truthy (dflt (AInt 1) (s_interval a)) = false -> is_ok (wire P now a) = false.
Proof.
  intros P now a Hi.
  destruct (wire P now a) as [[[r p] sp]|e] eqn:H; [|reflexivity].
  destruct (wire_inv _ _ _ _ _ _ H) as (fq & ex & inc & ? & ? & ? & ? & ? & ? & ? & ? & ? & ? & ? & ? & ? & ? & ? & ? & ? & ? & ? & Ht & ?).
  congruence.
Qed.

(* ------------------------------------------------------------------ include / exclude *)

Section ArgInd.
  Variable Q : arg -> Prop.
  Hypothesis HNone : Q ANone.
  Hypothesis HBool : forall b, Q (ABool b).
  Hypothesis HInt : forall z, Q (AInt z).
  Hypothesis HStr : forall s, Q (AStr s).
  Hypothesis HSeq : forall t l, Forall Q l -> Q (ASeq t l).
  Hypothesis HDate : forall d, Q (ADate d).
  Hypothesis HDateTime : forall t, Q (ADateTime t).
  Hypothesis HRule : forall rs, Q (ARule rs).
  Hypothesis HOther : Q AOther.

  Fixpoint arg_ind' (a : arg) : Q a :=
    match a with
    | ANone => HNone
    | ABool b => HBool b
    | AInt z => HInt z
    | AStr s => HStr s
    | ASeq t l =>
      HSeq t l ((fix go (l : list arg) : Forall Q l :=
                   match l with
                   | [] => Forall_nil Q
                   | x :: r => Forall_cons x (arg_ind' x) (go r)
                   end) l)
    | ADate d => HDate d
    | ADateTime t => HDateTime t
    | ARule rs => HRule rs
    | AOther => HOther
    end.
End ArgInd.

Lemma mapM_app : forall A B (f : A -> result B) l1 l2,
  mapM f (l1 ++ l2) = (do a <- mapM f l1; do b <- mapM f l2; Ok (a ++ b)).
Proof.
  intros A B f l1 l2. induction l1 as [|x r IH]; cbn [mapM app bind].
  - destruct (mapM f l2); reflexivity.
  - destruct (f x) as [y|e]; cbn [bind]; [|reflexivity].
    rewrite IH. destruct (mapM f r) as [ys|e]; cbn [bind]; [|reflexivity].
    destruct (mapM f l2) as [zs|e]; cbn [bind]; reflexivity.
Qed.

Lemma mapM_single : forall A B (f : A -> result B) x,
  mapM f [x] = (do y <- f x; Ok [y]).
Proof. intros. cbn [mapM]. destruct (f x); reflexivity. Qed.

(* the engine calls made for an include / exclude value are those of its leaves, in order
   (an equality of results: also the first error is the same) *)
Theorem specials_flatten : forall P start mr md a,
  specials P start mr md a = mapM (leaf_call P start mr md) (flatten a).
Proof.
  intros P start mr md a. induction a using arg_ind';
    try (cbn [specials flatten]; rewrite mapM_single; cbn [leaf_call bind]; reflexivity).
  - (* str *) cbn [specials flatten]. rewrite mapM_single. cbn [leaf_call].
    destruct (P s); reflexivity.
  - (* seq *)
    cbn [specials flatten].
    induction H as [|x r Hx Hr IH].
    + reflexivity.
    + rewrite mapM_app. rewrite <- Hx. rewrite <- IH. reflexivity.
Qed.

Theorem specials_in_wire : forall P now a r p sp,
  wire P now a = Ok (r, p, sp) ->
  exists ex inc,
    sp = ex ++ inc /\
    (if truthy (dflt ANone (s_exclude a))
     then mapM (leaf_call P (r_dtstart r) MExRule MExDate) (flatten (dflt ANone (s_exclude a)))
     else Ok []) = Ok ex /\
    (if truthy (dflt ANone (s_include a))
     then mapM (leaf_call P (r_dtstart r) MRRule MRDate) (flatten (dflt ANone (s_include a)))
     else Ok []) = Ok inc.
Proof.
  intros P now a r p sp H.
  destruct (wire_inv _ _ _ _ _ _ H) as (fq & ex & inc & ? & ? & ? & ? & ? & ? & ? & ? & ? & ? & ? & ? & ? & ? & ? & ? & ? & ? & ? & ? & Hex & Hinc & Hsp).
  exists ex, inc. unfold special_part in *. rewrite !specials_flatten in *. auto.
Qed.

(* what a leaf becomes *)
Theorem leaf_calls : forall P start mr md,
  (forall rs, leaf_call P start mr md (ARule rs) = Ok (CSet mr rs)) /\
  (forall t, leaf_call P start mr md (ADateTime t) = Ok (CDate md (ensure_tz t))) /\
  (forall d, leaf_call P start mr md (ADate d) = Ok (CDate md (mkDT d (d_us start) (d_tz start)))) /\
  (forall s t, P s = Ok t ->
               leaf_call P start mr md (AStr s) = Ok (CDate md (mkDT (d_days t) (d_us start) (d_tz start)))) /\
  (forall a, match a with ARule _ | ADateTime _ | ADate _ | AStr _ | ASeq _ _ => False | _ => True end ->
             leaf_call P start mr md a = Err (Internal "TypeError")).
Proof.
  intros. splits; intros; try reflexivity.
  - cbn [leaf_call]. rewrite H. reflexivity.
  - destruct a; try contradiction; reflexivity.
Qed.

(* a date leaf is the occurrence-shaped value "that day at the start's wall time in the START'S zone":
   it differs from the start only in the day, so for every zone offset it is the same instant as a
   daily occurrence of that day *)
Theorem date_leaf_in_start_zone : forall P start mr md d,
  leaf_call P start mr md (ADate d) = Ok (CDate md (mkDT d (d_us start) (d_tz start))) /\
  forall off, instant off (mkDT d (d_us start) (d_tz start)) - instant off start
              = (d - d_days start) * US_PER_DAY.
Proof. intros. split; [reflexivity|]. intro off. unfold instant. cbn [d_days d_us]. lia. Qed.

(* every value handed to rdate / exdate by a leaf carries a zone when the start does *)
Theorem leaf_dates_aware : forall P start mr md a m x,
  d_tz start <> None ->
  leaf_call P start mr md a = Ok (CDate m x) -> d_tz x <> None.
Proof.
  intros P start mr md a m x Hs H. destruct a; cbn [leaf_call] in H; try discriminate.
  - destruct (P s) as [t|e]; cbn [bind] in H; [|discriminate]. inversion H; subst. exact Hs.
  - inversion H; subst. exact Hs.
  - inversion H; subst. unfold ensure_tz. destruct (d_tz t) eqn:E; cbn [d_tz]; congruence.
Qed.

(* until: what the engine receives for each kind of value *)
Theorem until_normal_forms : forall P start,
  (forall a, truthy a = false -> norm_until P start a = Ok None) /\
  (forall d, norm_until P start (ADate d) = Ok (Some (ensure_tz (mkDT d (d_us start) (d_tz start))))) /\
  (forall t, norm_until P start (ADateTime t) = Ok (Some (ensure_tz t))) /\
  (forall s t, s <> EmptyString -> is_datetime s = true -> parse_dts P s = Ok t ->
               norm_until P start (AStr s) = Ok (Some t)) /\
  (forall s t, s <> EmptyString -> is_datetime s = false -> P s = Ok t ->
               norm_until P start (AStr s) = Ok (Some (ensure_tz (mkDT (d_days t) (d_us start) (d_tz start))))).
Proof.
  intros P start. splits.
  - intros a H. unfold norm_until. rewrite H. reflexivity.
  - reflexivity.
  - reflexivity.
  - intros s t Hne Hd Hp. unfold norm_until. cbn [truthy].
    destruct (String.eqb_spec s EmptyString); [contradiction|]. cbn [negb]. rewrite Hd, Hp. reflexivity.
  - intros s t Hne Hd Hp. unfold norm_until. cbn [truthy].
    destruct (String.eqb_spec s EmptyString); [contradiction|]. cbn [negb]. rewrite Hd, Hp. reflexivity.
Qed.

(* an aware value stays the instant it denotes: nothing is relabelled *)
Theorem until_keeps_aware_datetime : forall P start t off,
  d_tz t = Some off -> norm_until P start (ADateTime t) = Ok (Some t).
Proof.
  intros P start t off H. cbn [norm_until truthy negb]. unfold norm_until. cbn [truthy negb].
  unfold ensure_tz. rewrite H. reflexivity.
Qed.

(* ------------------------------------------------------------------ rows *)

Theorem rows_count_exact : forall p n stream,
  ((n <= List.length stream)%nat ->
     rows p (MCount n) stream = Ok (map (emit_next p) (firstn n stream))) /\
  ((List.length stream < n)%nat -> rows p (MCount n) stream = Err (DGE "")).
Proof.
  intros p n stream. unfold rows. split; intro H.
  - destruct (Nat.ltb_spec (List.length stream) n); [lia | reflexivity].
  - destruct (Nat.ltb_spec (List.length stream) n); [reflexivity | lia].
Qed.

Theorem rows_count_length : forall p n stream vs,
  rows p (MCount n) stream = Ok vs -> List.length vs = n.
Proof.
  intros p n stream vs H. unfold rows in H.
  destruct (Nat.ltb_spec (List.length stream) n); [discriminate|].
  inversion H; subst. rewrite map_length, firstn_length. lia.
Qed.

Theorem for_each_exact : forall p stream,
  rows p MForEach stream = Ok (map VDateTime stream) /\
  List.length (map VDateTime stream) = List.length stream.
Proof. intros. split; [reflexivity | apply map_length]. Qed.

(* ------------------------------------------------------------------ order *)

Lemma In_firstn : forall A n (l : list A) y, In y (firstn n l) -> In y l.
Proof.
  intros A n. induction n as [|n IH]; intros l y H; cbn [firstn] in H; [contradiction|].
  destruct l as [|x r]; [contradiction|]. cbn [In] in *. destruct H; [left; assumption | right; apply IH; assumption].
Qed.

Lemma firstn_StronglySorted : forall A (R : A -> A -> Prop) n l,
  StronglySorted R l -> StronglySorted R (firstn n l).
Proof.
  intros A R n. induction n as [|n IH]; intros l H; cbn [firstn].
  - constructor.
  - destruct l as [|x r]; [constructor|].
    inversion H; subst. constructor; [apply IH; assumption|].
    rewrite Forall_forall in *. intros y Hy. apply H3. eapply In_firstn; eauto.
Qed.

(* with one zone offset for all values, chronological datetimes have non-decreasing local dates *)
Lemma dates_sorted : forall off l,
  Forall (fun x => 0 <= d_us x < US_PER_DAY) l ->
  StronglySorted (fun x y => instant off x <= instant off y) l ->
  StronglySorted (fun x y => d_days x <= d_days y) l.
Proof.
  intros off l Hv Hs. induction Hs as [|x r Hs IH Hx]; [constructor|].
  inversion Hv; subst. constructor; [apply IH; assumption|].
  rewrite Forall_forall in *. intros y Hy.
  specialize (Hx y Hy). specialize (H2 y Hy). unfold instant, US_PER_DAY in *. lia.
Qed.

(* ------------------------------------------------------------------ run / eval *)

Lemma call_event_inv : forall via memo P now kw rs p,
  call_event via memo P now kw = Ok (rs, p) ->
  exists a r sp,
    to_sched_args via kw = Ok a /\ wire P now a = Ok (r, p, sp) /\ rs = ruleset_of a r sp /\
    (memo = true -> forallb (fun kv => hashable (snd kv)) kw = true).
Proof.
  intros via memo P now kw rs p H. unfold call_event in H.
  destruct (memo && negb (forallb (fun kv => hashable (snd kv)) kw)) eqn:Hm; [discriminate|].
  bind_inv H a Ha. bind_inv H w Hw. destruct w as [[r p0] sp]. inversion H; subst.
  exists a, r, sp. splits; auto.
  intro; subst memo. cbn [andb] in Hm. destruct (forallb _ kw); [reflexivity | discriminate].
Qed.

Theorem run_sound : forall via memo P now kw m stream rs vs,
  run via memo P now kw m stream = Ok (rs, vs) ->
  exists kw' a r p sp,
    eval_kw via memo P now kw = Ok kw' /\
    to_sched_args via kw' = Ok a /\
    wire P now a = Ok (r, p, sp) /\
    rs = ruleset_of a r sp /\
    rows p m stream = Ok vs.
Proof.
  intros via memo P now kw m stream rs vs H. unfold run in H.
  bind_inv H kw' Hk. bind_inv H rp Hc. destruct rp as [rs0 p]. bind_inv H vs0 Hr.
  inversion H; subst. cbn [fst snd] in *.
  destruct (call_event_inv _ _ _ _ _ _ _ Hc) as (a & r & sp & ? & ? & ? & ?).
  exists kw', a, r, p, sp. splits; auto.
Qed.

(* Schedule.Functions.Event hands every keyword to CalendarRule under the same name *)
Theorem event_passthrough : forall via kw a,
  to_sched_args via kw = Ok a ->
  s_freq a = assoc "freq" kw /\ s_start_date a = assoc "start_date" kw /\
  s_interval a = assoc "interval" kw /\ s_count a = assoc "count" kw /\
  s_until a = assoc "until" kw /\ s_bysetpos a = assoc "bysetpos" kw /\
  s_bymonth a = assoc "bymonth" kw /\ s_bymonthday a = assoc "bymonthday" kw /\
  s_byyearday a = assoc "byyearday" kw /\ s_byeaster a = assoc "byeaster" kw /\
  s_byweekno a = assoc "byweekno" kw /\ s_byweekday a = assoc "byweekday" kw /\
  s_byhour a = assoc "byhour" kw /\ s_byminute a = assoc "byminute" kw /\
  s_bysecond a = assoc "bysecond" kw /\ s_cache a = assoc "cache" kw /\
  s_exclude a = assoc "exclude" kw /\ s_include a = assoc "include" kw.
Proof.
  intros via kw a H. unfold to_sched_args in H.
  destruct (negb (forallb _ kw)); [discriminate|].
  inversion H; subst.
  cbn [s_freq s_start_date s_interval s_count s_until s_bysetpos s_bymonth s_bymonthday s_byyearday
       s_byeaster s_byweekno s_byweekday s_byhour s_byminute s_bysecond s_cache s_exclude s_include].
  splits; reflexivity.
Qed.

(* ------------------------------------------------------------------ the engine as a named assumption *)

Section Engine.
  Variable engine : ruleset -> list dt.      (* what dateutil's rruleset yields for the calls made on it *)
  Variable rfc5545 : ruleset -> list dt.     (* the RFC 5545 recurrence set described by those calls *)
  Hypothesis engine_is_rfc5545 : forall rs, engine rs = rfc5545 rs.
  Hypothesis rfc5545_chronological :
    forall rs off, StronglySorted (fun x y => instant off x <= instant off y) (rfc5545 rs).

  Theorem event_emits_exactly : forall via memo P now kw n rs vs,
    run via memo P now kw (MCount n) (engine rs) = Ok (rs, vs) ->
    exists kw' a r p sp,
      eval_kw via memo P now kw = Ok kw' /\ to_sched_args via kw' = Ok a /\
      wire P now a = Ok (r, p, sp) /\ rs = ruleset_of a r sp /\
      (n <= List.length (rfc5545 rs))%nat /\
      vs = map (emit_next p) (firstn n (rfc5545 rs)) /\
      forall off, StronglySorted (fun x y => instant off x <= instant off y) (firstn n (rfc5545 rs)).
  Proof.
    intros via memo P now kw n rs vs H.
    destruct (run_sound _ _ _ _ _ _ _ _ _ H) as (kw' & a & r & p & sp & ? & ? & ? & ? & Hr).
    exists kw', a, r, p, sp. splits; auto.
    - rewrite engine_is_rfc5545 in Hr. unfold rows in Hr.
      destruct (Nat.ltb_spec (List.length (rfc5545 rs)) n); [discriminate | lia].
    - rewrite engine_is_rfc5545 in Hr. unfold rows in Hr.
      destruct (Nat.ltb_spec (List.length (rfc5545 rs)) n); [discriminate|]. congruence.
    - intro off. apply firstn_StronglySorted. apply rfc5545_chronological.
  Qed.

  Theorem for_each_emits_exactly : forall via memo P now kw rs vs,
    run via memo P now kw MForEach (engine rs) = Ok (rs, vs) ->
    vs = map VDateTime (rfc5545 rs) /\ List.length vs = List.length (rfc5545 rs).
  Proof.
    intros via memo P now kw rs vs H.
    destruct (run_sound _ _ _ _ _ _ _ _ _ H) as (kw' & a & r & p & sp & ? & ? & ? & ? & Hr).
    rewrite engine_is_rfc5545 in Hr. cbn [rows] in Hr. inversion Hr; subst.
    split; [reflexivity | apply map_length].
  Qed.
End Engine.

(* ================================================================== the recurrence engine model *)
(* Proofs about the executable model of dateutil.rrule / rruleset in Schedule.v (calendar arithmetic,
   one rule: ordered, duplicate-free, exactly the filtered set; rule sets; what the per-run
   comparison with the real engine establishes). *)

(* ---------------------------------------------------------------- Cal *)
Ltac dm := Z.div_mod_to_equations.

Lemma is_leap_true : forall y, is_leap y = true <-> ((y mod 4 = 0 /\ y mod 100 <> 0) \/ y mod 400 = 0).
Proof. intro y. unfold is_leap. rewrite orb_true_iff, andb_true_iff, negb_true_iff, !Z.eqb_eq, Z.eqb_neq. tauto. Qed.

Lemma year_len_pos : forall y, 365 <= year_len y <= 366.
Proof. intro y. unfold year_len. destruct (is_leap y); lia. Qed.

Lemma dby_succ : forall y, days_before_year (y + 1) = days_before_year y + year_len y.
Proof.
  intro y. unfold days_before_year, year_len.
  replace (y + 1 - 1) with y by lia.
  destruct (is_leap y) eqn:E.
  - apply is_leap_true in E. dm. lia.
  - assert (N : ~ ((y mod 4 = 0 /\ y mod 100 <> 0) \/ y mod 400 = 0)) by (rewrite <- is_leap_true; congruence).
    dm. lia.
Qed.

Lemma year_of_bracket : forall n,
  days_before_year (year_of n) < n <= days_before_year (year_of n) + year_len (year_of n).
Proof.
  intro n. unfold year_of.
  set (n0 := n - 1).
  set (n400 := n0 / 146097). set (r1 := n0 mod 146097).
  set (n100 := r1 / 36524). set (r2 := r1 mod 36524).
  set (n4 := r2 / 1461). set (r3 := r2 mod 1461).
  set (n1 := r3 / 365).
  assert (H1 : n0 = 146097 * n400 + r1 /\ 0 <= r1 < 146097) by (subst n400 r1; dm; lia).
  assert (H2 : r1 = 36524 * n100 + r2 /\ 0 <= r2 < 36524) by (subst n100 r2; dm; lia).
  assert (H3 : r2 = 1461 * n4 + r3 /\ 0 <= r3 < 1461) by (subst n4 r3; dm; lia).
  assert (H4 : 0 <= r3 - 365 * n1 < 365) by (subst n1; dm; lia).
  clearbody n400 r1 n100 r2 n4 r3 n1.
  assert (B100 : 0 <= n100 <= 4) by lia.
  assert (B4 : 0 <= n4 <= 24) by lia.
  assert (B1 : 0 <= n1 <= 4) by lia.
  unfold year_len.
  destruct ((n1 =? 4) || (n100 =? 4)) eqn:E.
  - (* last day of a leap cycle *)
    replace (400 * n400 + 100 * n100 + 4 * n4 + n1 + 1 - 1) with (400 * n400 + 100 * n100 + 4 * n4 + n1) by lia.
    set (y := 400 * n400 + 100 * n100 + 4 * n4 + n1).
    assert (L : is_leap y = true).
    { apply is_leap_true. subst y. apply orb_true_iff in E. rewrite !Z.eqb_eq in E.
      destruct E as [E|E]; subst; dm; lia. }
    rewrite L. unfold days_before_year. subst y.
    apply orb_true_iff in E. rewrite !Z.eqb_eq in E.
    destruct E as [E|E]; subst; dm; lia.
  - apply orb_false_iff in E. rewrite !Z.eqb_neq in E. destruct E as [E1 E100].
    set (y := 400 * n400 + 100 * n100 + 4 * n4 + n1 + 1).
    unfold days_before_year.
    replace (y - 1) with (400 * n400 + 100 * n100 + 4 * n4 + n1) by (subst y; lia).
    destruct (is_leap y) eqn:L.
    + dm. lia.
    + assert (N : ~ ((y mod 4 = 0 /\ y mod 100 <> 0) \/ y mod 400 = 0)) by (rewrite <- is_leap_true; congruence).
      subst y. dm. lia.
Qed.

Lemma dby_mono_le : forall y y', y <= y' -> days_before_year y <= days_before_year y'.
Proof.
  intros y y' H. replace y' with (y + (y' - y)) by lia.
  assert (0 <= y' - y) by lia. generalize dependent (y' - y). clear y' H.
  intros d Hd. pattern d. apply natlike_ind; [| |exact Hd].
  - rewrite Z.add_0_r. lia.
  - intros x Hx IH. replace (y + Z.succ x) with (y + x + 1) by lia. rewrite dby_succ.
    pose proof (year_len_pos (y + x)). lia.
Qed.

Lemma dby_mono_lt : forall y y', y < y' -> days_before_year y + year_len y <= days_before_year y'.
Proof.
  intros y y' H. rewrite <- dby_succ. apply dby_mono_le. lia.
Qed.

(* the year is determined by the bracket *)
Lemma year_unique : forall n y,
  days_before_year y < n <= days_before_year y + year_len y -> year_of n = y.
Proof.
  intros n y H. pose proof (year_of_bracket n) as B.
  destruct (Z.lt_trichotomy (year_of n) y) as [L|[E|G]]; [|exact E|].
  - pose proof (dby_mono_lt _ _ L). lia.
  - pose proof (dby_mono_lt _ _ G). lia.
Qed.

Lemma month_cases : forall m, 1 <= m <= 12 ->
  m = 1 \/ m = 2 \/ m = 3 \/ m = 4 \/ m = 5 \/ m = 6 \/ m = 7 \/ m = 8 \/ m = 9 \/ m = 10 \/ m = 11 \/ m = 12.
Proof. intros. lia. Qed.

Ltac each_month H :=
  destruct (month_cases _ H) as [?|[?|[?|[?|[?|[?|[?|[?|[?|[?|[?|?]]]]]]]]]]]; subst.

Lemma dbm_succ : forall y m, 1 <= m <= 12 ->
  days_before_month y (m + 1) = days_before_month y m + month_len y m.
Proof.
  intros y m H. unfold days_before_month, month_len.
  each_month H; destruct (is_leap y); vm_compute; reflexivity.
Qed.

Lemma dbm_1 : forall y, days_before_month y 1 = 0.
Proof. intro y. unfold days_before_month. vm_compute. reflexivity. Qed.

Lemma dbm_13 : forall y, days_before_month y 13 = year_len y.
Proof. intro y. unfold days_before_month, year_len. destruct (is_leap y); vm_compute; reflexivity. Qed.

Lemma month_len_pos : forall y m, 28 <= month_len y m <= 31.
Proof. intros. unfold month_len. destruct (m =? 2); [destruct (is_leap y); lia|]. destruct (_ || _); lia. Qed.

Lemma dbm_mono : forall y m m', 1 <= m -> m < m' -> m' <= 13 ->
  days_before_month y m + month_len y m <= days_before_month y m'.
Proof.
  intros y m m' H1 H2 H3. 
  replace m' with (m + 1 + (m' - m - 1)) by lia.
  assert (Hd : 0 <= m' - m - 1) by lia. assert (Hb : m + 1 + (m' - m - 1) <= 13) by lia.
  generalize dependent (m' - m - 1). intros d Hd. pattern d. apply natlike_ind; [| |exact Hd].
  - intros _. rewrite Z.add_0_r. rewrite dbm_succ by lia. lia.
  - intros x Hx IH Hb. replace (m + 1 + Z.succ x) with (m + 1 + x + 1) by lia.
    rewrite dbm_succ by lia. pose proof (month_len_pos y (m + 1 + x)). specialize (IH ltac:(lia)). lia.
Qed.

Lemma dbm_nonneg : forall y m, 1 <= m <= 13 -> 0 <= days_before_month y m.
Proof.
  intros y m H. pose proof (dbm_1 y). destruct (Z.eq_dec m 1) as [->|]; [lia|].
  pose proof (dbm_mono y 1 m ltac:(lia) ltac:(lia) ltac:(lia)). pose proof (month_len_pos y 1). lia.
Qed.

Lemma dbm_le_year : forall y m, 1 <= m <= 12 -> days_before_month y m + month_len y m <= year_len y.
Proof.
  intros y m H. pose proof (dbm_13 y). pose proof (dbm_mono y m 13 ltac:(lia) ltac:(lia) ltac:(lia)). lia.
Qed.

Lemma month_of_bracket : forall y yd, 1 <= yd <= year_len y ->
  1 <= month_of y yd <= 12 /\
  days_before_month y (month_of y yd) < yd <= days_before_month y (month_of y yd) + month_len y (month_of y yd).
Proof.
  intros y yd H. unfold month_of.
  pose proof (dbm_1 y) as D1. pose proof (dbm_13 y) as D13.
  pose proof (dbm_succ y 1 ltac:(lia)) as S1. pose proof (dbm_succ y 2 ltac:(lia)) as S2.
  pose proof (dbm_succ y 3 ltac:(lia)) as S3. pose proof (dbm_succ y 4 ltac:(lia)) as S4.
  pose proof (dbm_succ y 5 ltac:(lia)) as S5. pose proof (dbm_succ y 6 ltac:(lia)) as S6.
  pose proof (dbm_succ y 7 ltac:(lia)) as S7. pose proof (dbm_succ y 8 ltac:(lia)) as S8.
  pose proof (dbm_succ y 9 ltac:(lia)) as S9. pose proof (dbm_succ y 10 ltac:(lia)) as S10.
  pose proof (dbm_succ y 11 ltac:(lia)) as S11. pose proof (dbm_succ y 12 ltac:(lia)) as S12.
  change (1 + 1) with 2 in *. change (2 + 1) with 3 in *. change (3 + 1) with 4 in *. change (4 + 1) with 5 in *.
  change (5 + 1) with 6 in *. change (6 + 1) with 7 in *. change (7 + 1) with 8 in *. change (8 + 1) with 9 in *.
  change (9 + 1) with 10 in *. change (10 + 1) with 11 in *. change (11 + 1) with 12 in *. change (12 + 1) with 13 in *.
  repeat match goal with |- context [if ?a <=? ?b then _ else _] => destruct (Z.leb_spec a b) end; lia.
Qed.

Lemma month_unique : forall y yd m, 1 <= m <= 12 ->
  days_before_month y m < yd <= days_before_month y m + month_len y m -> month_of y yd = m.
Proof.
  intros y yd m Hm H.
  assert (Hy : 1 <= yd <= year_len y).
  { pose proof (dbm_nonneg y m ltac:(lia)). pose proof (dbm_le_year y m Hm). lia. }
  destruct (month_of_bracket y yd Hy) as [B1 B2].
  destruct (Z.lt_trichotomy (month_of y yd) m) as [L|[E|G]]; [|exact E|].
  - assert (X := dbm_mono y (month_of y yd) m). specialize (X ltac:(lia) L ltac:(lia)). lia.
  - assert (X := dbm_mono y m (month_of y yd)). specialize (X ltac:(lia) G ltac:(lia)). lia.
Qed.

(* ---- the two directions of the calendar conversion *)
Lemma civil_of_days : forall n y m d, civil_from_days n = (y, m, d) ->
  1 <= m <= 12 /\ 1 <= d <= month_len y m /\ days_from_civil y m d = n /\
  y = year_of n /\ 1 <= n - days_before_year y <= year_len y.
Proof.
  intros n y m d H. unfold civil_from_days in H. inversion H; subst; clear H.
  pose proof (year_of_bracket n) as B.
  destruct (month_of_bracket (year_of n) (n - days_before_year (year_of n)) ltac:(lia)) as [M1 M2].
  unfold days_from_civil. repeat split; lia.
Qed.

Lemma days_of_civil : forall y m d, 1 <= m <= 12 -> 1 <= d <= month_len y m ->
  civil_from_days (days_from_civil y m d) = (y, m, d).
Proof.
  intros y m d Hm Hd. unfold civil_from_days, days_from_civil.
  assert (Hyd : 1 <= days_before_month y m + d <= year_len y).
  { pose proof (dbm_nonneg y m ltac:(lia)). pose proof (dbm_le_year y m Hm). lia. }
  assert (Ey : year_of (days_before_year y + days_before_month y m + d) = y) by (apply year_unique; lia).
  rewrite Ey.
  replace (days_before_year y + days_before_month y m + d - days_before_year y) with (days_before_month y m + d) by lia.
  assert (Em : month_of y (days_before_month y m + d) = m) by (apply month_unique; lia).
  rewrite Em. f_equal. lia.
Qed.

Lemma weekday_range : forall n, 0 <= weekday n <= 6.
Proof. intro n. unfold weekday. dm. lia. Qed.

(* ---------------------------------------------------------------- Rec1 *)
(* ---- zrange *)
Definition zr (lo : Z) (n : nat) : list Z := map (fun i => lo + Z.of_nat i) (seq 0 n).

Lemma zrange_zr : forall lo len, zrange lo len = zr lo (Z.to_nat len).
Proof. reflexivity. Qed.

Lemma zr_S : forall lo n, zr lo (S n) = lo :: zr (lo + 1) n.
Proof.
  intros lo n. unfold zr. cbn [seq map]. f_equal; [lia|].
  rewrite <- seq_shift, map_map. apply map_ext. intro i. lia.
Qed.

Lemma zr_app : forall a b lo, zr lo (a + b) = zr lo a ++ zr (lo + Z.of_nat a) b.
Proof.
  induction a as [|a IH]; intros b lo.
  - cbn [plus]. unfold zr at 2. cbn [seq map app]. f_equal. lia.
  - cbn [plus]. rewrite !zr_S, IH. cbn [app]. do 3 f_equal. lia.
Qed.

Lemma in_zrange : forall lo len n, In n (zrange lo len) <-> lo <= n < lo + len.
Proof.
  intros lo len n. unfold zrange. rewrite in_map_iff. split.
  - intros (i & E & Hi). apply in_seq in Hi. lia.
  - intro H. exists (Z.to_nat (n - lo)). split; [lia|]. apply in_seq. lia.
Qed.

Lemma zrange_app : forall lo a b, 0 <= a -> 0 <= b -> zrange lo (a + b) = zrange lo a ++ zrange (lo + a) b.
Proof.
  intros lo a b Ha Hb. rewrite !zrange_zr, Z2Nat.inj_add by lia. rewrite zr_app. do 2 f_equal. lia.
Qed.

Lemma zrange_nil : forall lo len, len <= 0 -> zrange lo len = [].
Proof. intros lo len H. rewrite zrange_zr. replace (Z.to_nat len) with 0%nat by lia. reflexivity. Qed.

Lemma zrange_sorted : forall len lo, StronglySorted Z.lt (zrange lo len).
Proof.
  intros len lo. rewrite zrange_zr. generalize (Z.to_nat len). intro n. revert lo.
  induction n as [|n IH]; intro lo; [constructor|].
  rewrite zr_S. constructor; [apply IH|].
  apply Forall_forall. intros x Hx. rewrite <- (Nat2Z.id n), <- zrange_zr in Hx. apply in_zrange in Hx. lia.
Qed.

(* mapping over a shifted range *)
Lemma map_zrange_shift : forall {A} (f g : Z -> A) a b len,
  (forall i, 0 <= i < len -> f (a + i) = g (b + i)) -> map f (zrange a len) = map g (zrange b len).
Proof.
  intros A f g a b len H. unfold zrange. rewrite !map_map. apply map_ext_in.
  intros i Hi. apply in_seq in Hi. apply H. lia.
Qed.

(* ---- month_days / period_days *)
Lemma dfc_first : forall y m d, days_from_civil y m d = days_from_civil y m 1 + d - 1.
Proof. intros. unfold days_from_civil. lia. Qed.

Lemma dfc_next_month : forall y m, 1 <= m <= 12 ->
  days_from_civil y m 1 + month_len y m =
  if m =? 12 then days_from_civil (y + 1) 1 1 else days_from_civil y (m + 1) 1.
Proof.
  intros y m H. unfold days_from_civil. destruct (Z.eqb_spec m 12) as [->|N].
  - rewrite dby_succ. rewrite dbm_1. pose proof (dbm_succ y 12 ltac:(lia)) as S. change (12 + 1) with 13 in S.
    rewrite dbm_13 in S. lia.
  - rewrite dbm_succ by lia. lia.
Qed.

Lemma info_of_civil : forall y m d, 1 <= m <= 12 -> 1 <= d <= month_len y m ->
  info_of (days_from_civil y m d) =
  (days_from_civil y m d, m, d, days_before_month y m + d, month_len y m, year_len y).
Proof.
  intros y m d Hm Hd. unfold info_of. rewrite days_of_civil by assumption.
  replace (days_from_civil y m d - days_before_year y) with (days_before_month y m + d)
    by (unfold days_from_civil; lia).
  reflexivity.
Qed.

Lemma month_days_spec : forall y m, 1 <= m <= 12 ->
  month_days y m = map info_of (zrange (days_from_civil y m 1) (month_len y m)).
Proof.
  intros y m Hm. unfold month_days.
  apply map_zrange_shift. intros i Hi.
  replace (days_from_civil y m 1 + i) with (days_from_civil y m (1 + i)) by (rewrite (dfc_first y m (1 + i)); lia).
  rewrite info_of_civil by lia. rewrite (dfc_first y m (1 + i)). repeat f_equal; lia.
Qed.

Lemma year_days_spec : forall y,
  flat_map (month_days y) [1; 2; 3; 4; 5; 6; 7; 8; 9; 10; 11; 12]
  = map info_of (zrange (days_from_civil y 1 1) (year_len y)).
Proof.
  intro y. cbn [flat_map]. rewrite app_nil_r.
  rewrite !month_days_spec by lia. rewrite <- !map_app. f_equal.
  pose proof (dfc_next_month y 1 ltac:(lia)) as E1. pose proof (dfc_next_month y 2 ltac:(lia)) as E2.
  pose proof (dfc_next_month y 3 ltac:(lia)) as E3. pose proof (dfc_next_month y 4 ltac:(lia)) as E4.
  pose proof (dfc_next_month y 5 ltac:(lia)) as E5. pose proof (dfc_next_month y 6 ltac:(lia)) as E6.
  pose proof (dfc_next_month y 7 ltac:(lia)) as E7. pose proof (dfc_next_month y 8 ltac:(lia)) as E8.
  pose proof (dfc_next_month y 9 ltac:(lia)) as E9. pose proof (dfc_next_month y 10 ltac:(lia)) as E10.
  pose proof (dfc_next_month y 11 ltac:(lia)) as E11.
  cbn [Z.eqb Pos.eqb] in *.
  change (1 + 1) with 2 in *. change (2 + 1) with 3 in *. change (3 + 1) with 4 in *. change (4 + 1) with 5 in *.
  change (5 + 1) with 6 in *. change (6 + 1) with 7 in *. change (7 + 1) with 8 in *. change (8 + 1) with 9 in *.
  change (9 + 1) with 10 in *. change (10 + 1) with 11 in *. change (11 + 1) with 12 in *.
  rewrite <- E11, <- E10, <- E9, <- E8, <- E7, <- E6, <- E5, <- E4, <- E3, <- E2, <- E1.
  pose proof (month_len_pos y 1). pose proof (month_len_pos y 2). pose proof (month_len_pos y 3).
  pose proof (month_len_pos y 4). pose proof (month_len_pos y 5). pose proof (month_len_pos y 6).
  pose proof (month_len_pos y 7). pose proof (month_len_pos y 8). pose proof (month_len_pos y 9).
  pose proof (month_len_pos y 10). pose proof (month_len_pos y 11). pose proof (month_len_pos y 12).
  rewrite <- !zrange_app by lia.
  f_equal.
  (* the twelve month lengths add up to the length of the year *)
  pose proof (dbm_13 y) as D13. pose proof (dbm_1 y) as D1.
  pose proof (dbm_succ y 1 ltac:(lia)). pose proof (dbm_succ y 2 ltac:(lia)). pose proof (dbm_succ y 3 ltac:(lia)).
  pose proof (dbm_succ y 4 ltac:(lia)). pose proof (dbm_succ y 5 ltac:(lia)). pose proof (dbm_succ y 6 ltac:(lia)).
  pose proof (dbm_succ y 7 ltac:(lia)). pose proof (dbm_succ y 8 ltac:(lia)). pose proof (dbm_succ y 9 ltac:(lia)).
  pose proof (dbm_succ y 10 ltac:(lia)). pose proof (dbm_succ y 11 ltac:(lia)). pose proof (dbm_succ y 12 ltac:(lia)).
  change (1 + 1) with 2 in *. change (2 + 1) with 3 in *. change (3 + 1) with 4 in *. change (4 + 1) with 5 in *.
  change (5 + 1) with 6 in *. change (6 + 1) with 7 in *. change (7 + 1) with 8 in *. change (8 + 1) with 9 in *.
  change (9 + 1) with 10 in *. change (10 + 1) with 11 in *. change (11 + 1) with 12 in *. change (12 + 1) with 13 in *.
  lia.
Qed.

(* ---------------------------------------------------------------- Rec2 *)
Definition plo (q : rule) (k : Z) : Z := fst (period q k).
Definition phi (q : rule) (k : Z) : Z := snd (period q k).

(* first day of the month with index mi = 12 * year + (month - 1) *)
Definition mfirst (mi : Z) : Z := days_from_civil (mi / 12) (mi mod 12 + 1) 1.

Lemma mfirst_succ : forall mi, mfirst (mi + 1) = mfirst mi + month_len (mi / 12) (mi mod 12 + 1).
Proof.
  intro mi. unfold mfirst.
  rewrite (dfc_next_month (mi / 12) (mi mod 12 + 1)) by (dm; lia).
  destruct (Z.eqb_spec (mi mod 12 + 1) 12) as [E|N].
  - replace ((mi + 1) / 12) with (mi / 12 + 1) by (dm; lia).
    replace ((mi + 1) mod 12 + 1) with 1 by (dm; lia). reflexivity.
  - replace ((mi + 1) / 12) with (mi / 12) by (dm; lia).
    replace ((mi + 1) mod 12 + 1) with (mi mod 12 + 1 + 1) by (dm; lia). reflexivity.
Qed.

Lemma mfirst_mono : forall a b, a <= b -> mfirst a <= mfirst b.
Proof.
  intros a b H. replace b with (a + (b - a)) by lia.
  assert (Hd : 0 <= b - a) by lia. generalize dependent (b - a). clear b H.
  intros d Hd. pattern d. apply natlike_ind; [| |exact Hd].
  - rewrite Z.add_0_r. lia.
  - intros x Hx IH. replace (a + Z.succ x) with (a + x + 1) by lia. rewrite mfirst_succ.
    pose proof (month_len_pos ((a + x) / 12) ((a + x) mod 12 + 1)). lia.
Qed.

Lemma yfirst_succ : forall y, days_from_civil (y + 1) 1 1 = days_from_civil y 1 1 + year_len y.
Proof. intro y. unfold days_from_civil. rewrite dby_succ, !dbm_1. lia. Qed.

Lemma yfirst_mono : forall a b, a <= b -> days_from_civil a 1 1 <= days_from_civil b 1 1.
Proof. intros a b H. unfold days_from_civil. rewrite !dbm_1. pose proof (dby_mono_le a b H). lia. Qed.

Lemma period_lt : forall q k, plo q k < phi q k.
Proof.
  intros q k. unfold plo, phi, period.
  destruct (q_freq q =? 0); cbn [fst snd].
  - rewrite yfirst_succ. pose proof (year_len_pos (fst (start_ym q) + k * q_interval q)). lia.
  - destruct (q_freq q =? 1); cbn [fst snd].
    + match goal with |- context [month_len ?a ?b] => pose proof (month_len_pos a b) end. lia.
    + destruct (q_freq q =? 2); cbn [fst snd]; lia.
Qed.

Lemma period_mono : forall q k, 1 <= q_interval q -> phi q k <= plo q (k + 1).
Proof.
  intros q k Hi. unfold plo, phi, period.
  destruct (q_freq q =? 0); cbn [fst snd].
  - apply yfirst_mono. nia.
  - destruct (q_freq q =? 1); cbn [fst snd].
    + set (mi := 12 * fst (start_ym q) + (snd (start_ym q) - 1) + k * q_interval q).
      fold (mfirst mi). rewrite <- mfirst_succ.
      replace (12 * fst (start_ym q) + (snd (start_ym q) - 1) + (k + 1) * q_interval q) with (mi + q_interval q) by (subst mi; lia).
      fold (mfirst (mi + q_interval q)). apply mfirst_mono. lia.
    + destruct (q_freq q =? 2); cbn [fst snd]; nia.
Qed.

Lemma period_mono_lt : forall q k j, 1 <= q_interval q -> k < j -> phi q k <= plo q j.
Proof.
  intros q k j Hi H. replace j with (k + 1 + (j - k - 1)) by lia.
  assert (Hd : 0 <= j - k - 1) by lia. generalize dependent (j - k - 1). intros d Hd.
  pattern d. apply natlike_ind; [| |exact Hd].
  - rewrite Z.add_0_r. apply period_mono; assumption.
  - intros x Hx IH. replace (k + 1 + Z.succ x) with (k + 1 + x + 1) by lia.
    pose proof (period_mono q (k + 1 + x) Hi). pose proof (period_lt q (k + 1 + x)). lia.
Qed.

Lemma period_days_spec : forall q k,
  period_days q k = map info_of (zrange (plo q k) (phi q k - plo q k)).
Proof.
  intros q k. unfold period_days, plo, phi, period.
  destruct (q_freq q =? 0); cbn [fst snd].
  - rewrite year_days_spec. rewrite yfirst_succ. do 2 f_equal. lia.
  - destruct (q_freq q =? 1); cbn [fst snd].
    + rewrite month_days_spec by (dm; lia). do 2 f_equal. lia.
    + destruct (q_freq q =? 2); cbn [fst snd]; reflexivity.
Qed.

(* ---- well-formed rules *)
Definition rule_ok (q : rule) : Prop :=
  1 <= q_interval q /\ Forall (fun t => 0 <= t < 86400) (q_times q) /\ StronglySorted Z.lt (q_times q).

Lemma insert_uniq_in : forall x y l, In y (insert_uniq x l) <-> y = x \/ In y l.
Proof.
  intros x y l. induction l as [|z r IH]; cbn [insert_uniq In]; [intuition|].
  destruct (Z.ltb_spec x z); cbn [In]; [intuition|].
  destruct (Z.eqb_spec x z); cbn [In]; [subst; intuition|]. rewrite IH. intuition.
Qed.

Lemma insert_uniq_sorted : forall x l, StronglySorted Z.lt l -> StronglySorted Z.lt (insert_uniq x l).
Proof.
  intros x l H. induction H as [|z r Hr IH Hz]; cbn [insert_uniq]; [repeat constructor|].
  destruct (Z.ltb_spec x z).
  - constructor; [constructor; assumption|]. constructor; [assumption|].
    eapply Forall_impl; [|exact Hz]. intros; lia.
  - destruct (Z.eqb_spec x z); [constructor; assumption|].
    constructor; [assumption|]. apply Forall_forall. intros y Hy. apply insert_uniq_in in Hy.
    rewrite Forall_forall in Hz. destruct Hy as [->|Hy]; [lia | apply Hz; assumption].
Qed.

Lemma sort_uniq_in : forall y l, In y (sort_uniq l) <-> In y l.
Proof.
  intros y l. unfold sort_uniq. induction l as [|x r IH]; cbn [fold_right In]; [tauto|].
  rewrite insert_uniq_in, IH. intuition.
Qed.

Lemma sort_uniq_sorted : forall l, StronglySorted Z.lt (sort_uniq l).
Proof.
  intro l. unfold sort_uniq. induction l as [|x r IH]; cbn [fold_right]; [constructor|].
  apply insert_uniq_sorted. assumption.
Qed.

Lemma in_range_spec : forall lo hi l x, in_range lo hi l = true -> In x l -> lo <= x <= hi.
Proof.
  intros lo hi l x H Hx. unfold in_range in H. rewrite forallb_forall in H.
  specialize (H x Hx). lia.
Qed.

Lemma normalize_ok : forall r q, normalize r = Some q -> rule_ok q.
Proof.
  intros r q H. unfold normalize in H.
  destruct (d_tz (r_dtstart r)) as [tz|]; [|discriminate].
  destruct (r_interval r) as [| |iv| |]; try discriminate.
  destruct (r_wkst r) as [[wk [n|]]|]; try discriminate.
  destruct (civil_from_days (d_days (r_dtstart r))) as [[y0 m0] dd0].
  match type of H with (match ?c with _ => _ end) = _ => destruct c as [cnt|]; [|discriminate] end.
  match type of H with (match ?c with _ => _ end) = _ => destruct c as [unt|]; [|discriminate] end.
  match type of H with (if ?c then _ else _) = _ => destruct c eqn:C; [|discriminate] end.
  inversion H; subst; clear H.
  rewrite !andb_true_iff in C.
  destruct C as [[[[[[[[[[[[[C1 C2] C3] C4] C5] C6] C7] C8] C9] C10] C11] Ch] Cm] Cs].
  unfold rule_ok. cbn [q_interval q_times]. split; [lia|]. split; [|apply sort_uniq_sorted].
  apply Forall_forall. intros t Ht. rewrite sort_uniq_in in Ht.
  apply in_flat_map in Ht. destruct Ht as (h & Hh & Ht).
  apply in_flat_map in Ht. destruct Ht as (m & Hm & Ht).
  apply in_map_iff in Ht. destruct Ht as (s & <- & Hs).
  pose proof (in_range_spec _ _ _ _ Ch Hh). pose proof (in_range_spec _ _ _ _ Cm Hm).
  pose proof (in_range_spec _ _ _ _ Cs Hs). lia.
Qed.

(* ---------------------------------------------------------------- Rec3 *)
(* ---- sorted lists *)
Lemma ss_app : forall l1 l2, StronglySorted Z.lt l1 -> StronglySorted Z.lt l2 ->
  (forall x y, In x l1 -> In y l2 -> x < y) -> StronglySorted Z.lt (l1 ++ l2).
Proof.
  induction l1 as [|a r IH]; intros l2 H1 H2 H; cbn [app]; [assumption|].
  inversion H1; subst. constructor.
  - apply IH; auto. intros; apply H; cbn [In]; auto.
  - apply Forall_app. split; [assumption|]. apply Forall_forall. intros y Hy. apply H; cbn [In]; auto.
Qed.

Lemma ss_filter : forall (f : Z -> bool) l, StronglySorted Z.lt l -> StronglySorted Z.lt (filter f l).
Proof.
  intros f l H. induction H as [|a r Hr IH Ha]; cbn [filter]; [constructor|].
  destruct (f a); [|assumption]. constructor; [assumption|].
  rewrite Forall_forall in *. intros y Hy. apply filter_In in Hy. apply Ha. tauto.
Qed.

Lemma ss_map : forall (f : Z -> Z) l, (forall x y, x < y -> f x < f y) ->
  StronglySorted Z.lt l -> StronglySorted Z.lt (map f l).
Proof.
  intros f l Hf H. induction H as [|a r Hr IH Ha]; cbn [map]; [constructor|].
  constructor; [assumption|]. rewrite Forall_forall in *. intros y Hy.
  apply in_map_iff in Hy. destruct Hy as (x & <- & Hx). apply Hf, Ha, Hx.
Qed.

Lemma ss_firstn : forall n l, StronglySorted Z.lt l -> StronglySorted Z.lt (firstn n l).
Proof.
  induction n as [|n IH]; intros l H; cbn [firstn]; [constructor|].
  destruct l as [|x r]; [constructor|]. inversion H; subst. constructor; [apply IH; assumption|].
  rewrite Forall_forall in *. intros y Hy. apply H3. revert Hy. clear. revert r.
  induction n as [|n IH]; intros r Hy; cbn [firstn] in Hy; [contradiction|].
  destruct r; [contradiction|]. cbn [In] in *. destruct Hy; [auto | right; apply IH; assumption].
Qed.

Lemma in_firstn : forall (n : nat) (l : list Z) y, In y (firstn n l) -> In y l.
Proof.
  induction n as [|n IH]; intros l y H; cbn [firstn] in H; [contradiction|].
  destruct l; [contradiction|]. cbn [In] in *. destruct H; [auto | right; apply IH; assumption].
Qed.

(* flat_map of sorted blocks whose ranges follow each other *)
Lemma ss_flat_map : forall (f : Z -> list Z) (lo hi : Z -> Z) ks,
  StronglySorted Z.lt ks ->
  (forall k, StronglySorted Z.lt (f k)) ->
  (forall k s, In s (f k) -> lo k <= s < hi k) ->
  (forall k j, In k ks -> In j ks -> k < j -> hi k <= lo j) ->
  StronglySorted Z.lt (flat_map f ks).
Proof.
  intros f lo hi ks Hk Hf Hb Hm. induction Hk as [|k r Hr IH Ha]; cbn [flat_map]; [constructor|].
  apply ss_app; [apply Hf| |].
  - apply IH. intros; apply Hm; cbn [In]; auto.
  - intros x y Hx Hy. apply in_flat_map in Hy. destruct Hy as (j & Hj & Hy).
    rewrite Forall_forall in Ha. specialize (Ha j Hj).
    pose proof (Hb k x Hx). pose proof (Hb j y Hy).
    specialize (Hm k j ltac:(cbn [In]; auto) ltac:(cbn [In]; auto) Ha). lia.
Qed.

(* ---- one period *)
Definition occ_in (q : rule) (k : Z) (s : Z) : Prop :=
  exists n t, plo q k <= n < phi q k /\ day_ok q (info_of n) = true /\ In t (q_times q) /\
              s = n * US_DAY + t * 1000000 /\ stamp_ok q s = true.

Lemma info_of_fst : forall n, exists m d yd ml yl, info_of n = (n, m, d, yd, ml, yl).
Proof. intro n. unfold info_of. destruct (civil_from_days n) as [[y m] d]. repeat eexists. Qed.

Lemma day_stamps_info : forall q n,
  day_stamps q (info_of n) =
  if day_ok q (info_of n) then map (fun t => n * US_DAY + t * 1000000) (q_times q) else [].
Proof.
  intros q n. unfold day_stamps. destruct (info_of_fst n) as (m & d & yd & ml & yl & E). rewrite E. reflexivity.
Qed.

Lemma chunk_eq : forall q k,
  chunk q k = filter (stamp_ok q)
                (flat_map (fun n => day_stamps q (info_of n)) (zrange (plo q k) (phi q k - plo q k))).
Proof.
  intros q k. unfold chunk. rewrite period_days_spec. f_equal.
  generalize (zrange (plo q k) (phi q k - plo q k)). intro l.
  induction l as [|x r IH]; cbn [map flat_map]; [reflexivity | rewrite IH; reflexivity].
Qed.

Lemma chunk_in : forall q k s, In s (chunk q k) <-> occ_in q k s.
Proof.
  intros q k s. rewrite chunk_eq, filter_In, in_flat_map. unfold occ_in. split.
  - intros ((n & Hn & Hs) & Hok). apply in_zrange in Hn. rewrite day_stamps_info in Hs.
    destruct (day_ok q (info_of n)) eqn:D; [|contradiction].
    apply in_map_iff in Hs. destruct Hs as (t & <- & Ht). exists n, t. repeat split; auto; lia.
  - intros (n & t & Hn & D & Ht & -> & Hok). split; [|assumption].
    exists n. split; [apply in_zrange; lia|]. rewrite day_stamps_info, D. apply in_map_iff. eauto.
Qed.

Lemma occ_in_bounds : forall q k s, rule_ok q -> occ_in q k s -> plo q k * US_DAY <= s < phi q k * US_DAY.
Proof.
  intros q k s (Hi & Ht & Hs) (n & t & Hn & D & Hin & -> & Hok).
  rewrite Forall_forall in Ht. specialize (Ht t Hin). unfold US_DAY. nia.
Qed.

Lemma day_stamps_sorted : forall q n, rule_ok q -> StronglySorted Z.lt (day_stamps q (info_of n)).
Proof.
  intros q n (Hi & Ht & Hs). rewrite day_stamps_info. destruct (day_ok q (info_of n)); [|constructor].
  apply ss_map; [intros; lia | assumption].
Qed.

Lemma chunk_sorted : forall q k, rule_ok q -> StronglySorted Z.lt (chunk q k).
Proof.
  intros q k Hq. rewrite chunk_eq. apply ss_filter.
  apply (ss_flat_map _ (fun n => n * US_DAY) (fun n => (n + 1) * US_DAY)).
  - apply zrange_sorted.
  - intro n. apply day_stamps_sorted. assumption.
  - intros n s Hs. rewrite day_stamps_info in Hs. destruct (day_ok q (info_of n)); [|contradiction].
    apply in_map_iff in Hs. destruct Hs as (t & <- & Hin). destruct Hq as (_ & Ht & _).
    rewrite Forall_forall in Ht. specialize (Ht t Hin). unfold US_DAY. lia.
  - intros a b _ _ Hab. unfold US_DAY. nia.
Qed.

(* ---- several periods *)
Definition chunks (q : rule) (k : Z) (j : nat) : list Z := flat_map (chunk q) (zr k j).

Lemma chunks_S : forall q k j, chunks q k (S j) = chunk q k ++ chunks q (k + 1) j.
Proof. intros. unfold chunks. rewrite zr_S. reflexivity. Qed.

Lemma in_zr : forall lo j n, In n (zr lo j) <-> lo <= n < lo + Z.of_nat j.
Proof. intros lo j n. rewrite <- (Nat2Z.id j) at 1. rewrite <- zrange_zr. apply in_zrange. Qed.

Lemma chunks_in : forall q k j s, In s (chunks q k j) <-> exists k', k <= k' < k + Z.of_nat j /\ occ_in q k' s.
Proof.
  intros q k j s. unfold chunks. rewrite in_flat_map. split.
  - intros (k' & Hk & Hs). apply in_zr in Hk. apply chunk_in in Hs. eauto.
  - intros (k' & Hk & Hs). exists k'. split; [apply in_zr; assumption | apply chunk_in; assumption].
Qed.

Lemma plo_mono : forall q k j, 1 <= q_interval q -> k <= j -> plo q k <= plo q j.
Proof.
  intros q k j Hi H. destruct (Z.eq_dec k j) as [->|N]; [lia|].
  pose proof (period_mono_lt q k j Hi ltac:(lia)). pose proof (period_lt q k). lia.
Qed.

Lemma chunks_sorted : forall q k j, rule_ok q -> StronglySorted Z.lt (chunks q k j).
Proof.
  intros q k j Hq. unfold chunks.
  apply (ss_flat_map _ (fun k => plo q k * US_DAY) (fun k => phi q k * US_DAY)).
  - rewrite <- (Nat2Z.id j), <- zrange_zr. apply zrange_sorted.
  - intro. apply chunk_sorted. assumption.
  - intros k' s Hs. apply chunk_in in Hs. apply occ_in_bounds; assumption.
  - intros a b _ _ Hab. destruct Hq as (Hi & _). pose proof (period_mono_lt q a b Hi Hab). unfold US_DAY. lia.
Qed.

(* ---- gen *)
Definition take (need : option Z) (l : list Z) : list Z :=
  match need with Some c => firstn (Z.to_nat c) l | None => l end.

Lemma gen_spec : forall q H fuel B k need l b,
  gen q H fuel B k need = Some (l, b) ->
  exists j : nat,
    l = take need (chunks q k j) /\
    ((exists c, need = Some c /\ c <= Z.of_nat (List.length (chunks q k j)) /\ b = true) \/
     (exists u, q_until q = Some u /\ u < plo q (k + Z.of_nat j) * US_DAY /\ b = true) \/
     (q_until q = None /\ need = None /\ H <= plo q (k + Z.of_nat j) /\ b = false)).
Proof.
  intros q H fuel. induction fuel as [|f IH]; intros B k need l b G; cbn [gen] in G.
  - (* no fuel: only the stop tests can answer *)
    destruct (match need with Some c => c <=? 0 | None => false end) eqn:T1.
    { inversion G; subst. destruct need as [c|]; [|discriminate]. exists 0%nat. split.
      - cbn [take chunks zr seq map flat_map]. destruct (Z.to_nat c); reflexivity.
      - left. exists c. cbn. repeat split; auto. lia. }
    destruct (match q_until q with Some u => u <? fst (period q k) * US_DAY | None => false end) eqn:T2.
    { inversion G; subst. destruct (q_until q) as [u|] eqn:U; [|discriminate]. exists 0%nat. split.
      - destruct need; cbn [take chunks zr seq map flat_map]; [destruct (Z.to_nat z)|]; reflexivity.
      - right; left. exists u. rewrite Z.add_0_r. fold (plo q k) in T2. repeat split; auto. lia. }
    destruct (match q_until q, need with None, None => H <=? fst (period q k) | _, _ => false end) eqn:T3; [|discriminate].
    inversion G; subst. destruct (q_until q) eqn:U; [discriminate|]. destruct need; [discriminate|].
    exists 0%nat. split; [reflexivity|]. right; right. rewrite Z.add_0_r. fold (plo q k) in T3. repeat split; auto. lia.
  - destruct (match need with Some c => c <=? 0 | None => false end) eqn:T1.
    { inversion G; subst. destruct need as [c|]; [|discriminate]. exists 0%nat. split.
      - cbn [take chunks zr seq map flat_map]. destruct (Z.to_nat c); reflexivity.
      - left. exists c. cbn. repeat split; auto. lia. }
    destruct (match q_until q with Some u => u <? fst (period q k) * US_DAY | None => false end) eqn:T2.
    { inversion G; subst. destruct (q_until q) as [u|] eqn:U; [|discriminate]. exists 0%nat. split.
      - destruct need; cbn [take chunks zr seq map flat_map]; [destruct (Z.to_nat z)|]; reflexivity.
      - right; left. exists u. rewrite Z.add_0_r. fold (plo q k) in T2. repeat split; auto. lia. }
    destruct (match q_until q, need with None, None => H <=? fst (period q k) | _, _ => false end) eqn:T3.
    { inversion G; subst. destruct (q_until q) eqn:U; [discriminate|]. destruct need; [discriminate|].
      exists 0%nat. split; [reflexivity|]. right; right. rewrite Z.add_0_r. fold (plo q k) in T3. repeat split; auto. lia. }
    destruct (B <? 0); [discriminate|].
    match type of G with context [gen q H f ?B' (k + 1) ?need'] =>
      destruct (gen q H f B' (k + 1) need') as [[l' b']|] eqn:G'; [|discriminate] end.
    inversion G; subst; clear G.
    apply IH in G'. destruct G' as (j & El & Stop).
    exists (S j). rewrite chunks_S.
    replace (k + Z.of_nat (S j)) with (k + 1 + Z.of_nat j) by lia.
    destruct need as [n|]; cbn [option_map take] in *.
    + (* count *)
      assert (Hn : 0 < n) by lia.
      set (c := chunk q k) in *. set (rest := chunks q (k + 1) j) in *.
      assert (Hlen : List.length (firstn (Z.to_nat n) c) = Nat.min (Z.to_nat n) (List.length c)) by apply firstn_length.
      split.
      * rewrite firstn_app. f_equal. rewrite El. f_equal. lia.
      * destruct Stop as [(c0 & Ec & Hc & Hb)|[S2|S3]].
        -- left. exists n. inversion Ec; subst. rewrite app_length. repeat split; auto. lia.
        -- right; left. exact S2.
        -- destruct S3 as (_ & X & _). discriminate.
    + split; [rewrite El; reflexivity|].
      destruct Stop as [(c0 & Ec & _)|[S2|S3]]; [discriminate | right; left; exact S2 | right; right; exact S3].
Qed.

(* ---------------------------------------------------------------- Rec4 *)
(* an occurrence of the rule: in some period k >= 0 of the interval grid, on a day that passes every
   filter, at one of the rule's times, not before dtstart and not after until *)
Definition is_occ (q : rule) (s : Z) : Prop := exists k, 0 <= k /\ occ_in q k s.

Lemma firstn_skipn_lt : forall (n : nat) (l : list Z) x y,
  StronglySorted Z.lt l -> In x (firstn n l) -> In y l -> ~ In y (firstn n l) -> x < y.
Proof.
  intros n l x y Hs Hx Hy Hn.
  rewrite <- (firstn_skipn n l) in Hy, Hs. apply in_app_or in Hy. destruct Hy as [Hy|Hy]; [contradiction|].
  revert Hs Hx Hy. generalize (firstn n l) (skipn n l). clear. intros l1 l2 Hs Hx Hy.
  induction l1 as [|a r IH]; [contradiction|].
  cbn [app] in Hs. inversion Hs; subst. cbn [In] in Hx. destruct Hx as [->|Hx].
  - rewrite Forall_forall in H2. apply H2. apply in_or_app. auto.
  - apply IH; assumption.
Qed.

Theorem gen_exact : forall q H F B l b, rule_ok q ->
  gen q H F B 0 (q_count q) = Some (l, b) ->
  StronglySorted Z.lt l /\
  (forall s, In s l -> is_occ q s) /\
  (forall c, q_count q = Some c -> Z.of_nat (List.length l) <= Z.max c 0) /\
  (forall s, is_occ q s ->
     In s l \/
     (exists c, q_count q = Some c /\ Z.of_nat (List.length l) = Z.max c 0 /\ forall x, In x l -> x < s) \/
     (b = false /\ H * US_DAY <= s)).
Proof.
  intros q H F B l b Hq G. apply gen_spec in G. destruct G as (j & El & Stop).
  rewrite Z.add_0_l in Stop.
  pose proof (chunks_sorted q 0 j Hq) as Hall. set (all := chunks q 0 j) in *.
  assert (Hsub : forall s, In s l -> In s all).
  { intros s Hs. rewrite El in Hs. destruct (q_count q); cbn [take] in Hs; [eapply in_firstn; eauto | assumption]. }
  split; [|split; [|split]].
  - rewrite El. destruct (q_count q); cbn [take]; [apply ss_firstn|]; assumption.
  - intros s Hs. apply Hsub in Hs. apply chunks_in in Hs. destruct Hs as (k' & Hk & Ho). exists k'. split; [lia | assumption].
  - intros c Ec. rewrite El, Ec. cbn [take]. pose proof (firstn_le_length (Z.to_nat c) all). lia.
  - intros s (k' & Hk' & Ho).
    pose proof (occ_in_bounds q k' s Hq Ho) as Bs.
    destruct Hq as (Hi & Hq2). 
    destruct (Z.ltb_spec k' (Z.of_nat j)) as [Hlt|Hge].
    + (* a scanned period *)
      assert (Hin : In s all) by (apply chunks_in; exists k'; split; [lia | assumption]).
      destruct (q_count q) as [c|] eqn:Ec; cbn [take] in El; [|left; rewrite El; assumption].
      destruct (in_dec Z.eq_dec s l) as [Y|N]; [left; assumption|].
      right; left. exists c. split; [reflexivity|]. rewrite El in N.
      assert (Hlen : List.length l = Z.to_nat c).
      { rewrite El. rewrite firstn_length. destruct (Nat.le_gt_cases (Z.to_nat c) (List.length all)); [lia|].
        exfalso. apply N. rewrite firstn_all2 by lia. assumption. }
      split; [lia|]. intros x Hx. rewrite El in Hx. eapply firstn_skipn_lt; eauto.
    + (* a period that was not scanned: why did the scan stop? *)
      assert (Hp : plo q (Z.of_nat j) <= plo q k') by (apply plo_mono; lia).
      destruct Stop as [(c & Ec & Hc & Hb)|[(u & Eu & Hu & Hb)|(Eu & En & HH & Hb)]].
      * right; left. exists c. rewrite Ec in El. cbn [take] in El. split; [assumption|].
        split.
        -- rewrite El, firstn_length. lia.
        -- intros x Hx. apply Hsub in Hx. apply chunks_in in Hx. destruct Hx as (k2 & Hk2 & Ho2).
           pose proof (occ_in_bounds q k2 x (conj Hi Hq2) Ho2).
           pose proof (period_mono_lt q k2 k' Hi ltac:(lia)). unfold US_DAY in *. lia.
      * exfalso. destruct Ho as (n & t & _ & _ & _ & _ & Hok). unfold stamp_ok in Hok. rewrite Eu in Hok.
        unfold US_DAY in *. lia.
      * right; right. split; [assumption|]. unfold US_DAY in *. lia.
Qed.

(* ---- the interval grid, declaratively: which days lie in some period k >= 0 *)
Definition aligned (q : rule) (n : Z) : Prop :=
  let '(y, m, _) := civil_from_days n in
  let iv := q_interval q in
  if q_freq q =? 0 then q_y0 q <= y /\ (y - q_y0 q) mod iv = 0
  else if q_freq q =? 1 then
    let mi := 12 * y + (m - 1) in let mi0 := 12 * q_y0 q + (q_m0 q - 1) in
    mi0 <= mi /\ (mi - mi0) mod iv = 0
  else if q_freq q =? 2 then
    let s := q_d0 q - (weekday (q_d0 q) - q_wkst q) mod 7 in
    s <= n /\ ((n - s) / 7) mod iv = 0
  else q_d0 q <= n /\ (n - q_d0 q) mod iv = 0.

Lemma year_range : forall y n, days_from_civil y 1 1 <= n < days_from_civil (y + 1) 1 1 <-> year_of n = y.
Proof.
  intros y n. rewrite yfirst_succ. unfold days_from_civil. rewrite dbm_1. split.
  - intro H. apply year_unique. lia.
  - intros <-. pose proof (year_of_bracket n). lia.
Qed.

Lemma month_range : forall mi n,
  mfirst mi <= n < mfirst (mi + 1) <->
  (let '(y, m, _) := civil_from_days n in 12 * y + (m - 1)) = mi.
Proof.
  intros mi n. rewrite mfirst_succ. unfold mfirst.
  destruct (civil_from_days n) as [[y m] d] eqn:E.
  destruct (civil_of_days _ _ _ _ E) as (Hm & Hd & Hn & Hy & Hyd).
  assert (M12 : 1 <= mi mod 12 + 1 <= 12) by (dm; lia).
  split.
  - intro H.
    assert (E2 : civil_from_days n = (mi / 12, mi mod 12 + 1, n - days_from_civil (mi / 12) (mi mod 12 + 1) 1 + 1)).
    { rewrite <- (days_of_civil (mi / 12) (mi mod 12 + 1) (n - days_from_civil (mi / 12) (mi mod 12 + 1) 1 + 1)) by lia.
      f_equal. rewrite (dfc_first _ _ (n - _ + 1)). lia. }
    rewrite E in E2. inversion E2; subst. dm; lia.
  - intros <-. replace ((12 * y + (m - 1)) / 12) with y by (dm; lia).
    replace ((12 * y + (m - 1)) mod 12 + 1) with m by (dm; lia).
    rewrite <- Hn. rewrite (dfc_first y m d). lia.
Qed.

Lemma aligned_iff : forall q n, 1 <= q_interval q ->
  (aligned q n <-> exists k, 0 <= k /\ plo q k <= n < phi q k).
Proof.
  intros q n Hi. unfold aligned, plo, phi, period, start_ym, start_day. cbn [fst snd].
  destruct (civil_from_days n) as [[y m] d] eqn:E.
  destruct (civil_of_days _ _ _ _ E) as (Hm & Hd & Hn & Hy & Hyd).
  destruct (q_freq q =? 0); cbn [fst snd].
  - split.
    + intros (H1 & H2). exists ((y - q_y0 q) / q_interval q). split; [apply Z.div_pos; lia|].
      apply year_range. replace ((y - q_y0 q) / q_interval q * q_interval q) with (y - q_y0 q); [lia|].
      pose proof (Z.div_mod (y - q_y0 q) (q_interval q) ltac:(lia)). lia.
    + intros (k & Hk & H). apply year_range in H. rewrite <- Hy in H. rewrite H. split; [nia|].
      replace (q_y0 q + k * q_interval q - q_y0 q) with (k * q_interval q) by lia. apply Z.mod_mul. lia.
  - destruct (q_freq q =? 1); cbn [fst snd].
    + set (mi0 := 12 * q_y0 q + (q_m0 q - 1)).
      assert (R : forall mi, (mfirst mi <= n < mfirst mi + month_len (mi / 12) (mi mod 12 + 1)) <-> 12 * y + (m - 1) = mi).
      { intro mi. rewrite <- mfirst_succ. pose proof (month_range mi n) as X. rewrite E in X. exact X. }
      split.
      * intros (H1 & H2). exists ((12 * y + (m - 1) - mi0) / q_interval q). split; [apply Z.div_pos; lia|].
        apply R. pose proof (Z.div_mod (12 * y + (m - 1) - mi0) (q_interval q) ltac:(lia)). lia.
      * intros (k & Hk & H). apply R in H. rewrite H. split; [nia|].
        replace (mi0 + k * q_interval q - mi0) with (k * q_interval q) by lia. apply Z.mod_mul. lia.
    + destruct (q_freq q =? 2); cbn [fst snd].
      * set (s := q_d0 q - (weekday (q_d0 q) - q_wkst q) mod 7). split.
        -- intros (H1 & H2). exists ((n - s) / 7 / q_interval q). split; [apply Z.div_pos; [apply Z.div_pos|]; lia|].
           pose proof (Z.div_mod ((n - s) / 7) (q_interval q) ltac:(lia)) as X. rewrite H2 in X.
           replace (7 * q_interval q * ((n - s) / 7 / q_interval q)) with (7 * ((n - s) / 7)) by lia.
           clear X H2. clearbody s. pose proof (Z.div_mod (n - s) 7 ltac:(lia)). pose proof (Z.mod_pos_bound (n - s) 7 ltac:(lia)). lia.
        -- intros (k & Hk & H). split; [nia|].
           replace ((n - s) / 7) with (q_interval q * k); [rewrite Z.mul_comm; apply Z.mod_mul; lia|].
           clearbody s. apply (Z.div_unique (n - s) 7 (q_interval q * k) (n - s - 7 * (q_interval q * k))); lia.
      * split.
        -- intros (H1 & H2). exists ((n - q_d0 q) / q_interval q). split; [apply Z.div_pos; lia|].
           pose proof (Z.div_mod (n - q_d0 q) (q_interval q) ltac:(lia)). lia.
        -- intros (k & Hk & H). split; [nia|]. replace (n - q_d0 q) with (k * q_interval q) by lia.
           apply Z.mod_mul. lia.
Qed.

(* ---------------------------------------------------------------- Rec5 *)
(* ---- one rule: ordered, duplicate-free, exactly the filtered set *)
Theorem rr_exact : forall F H r q l b,
  normalize r = Some q -> rr_occ F H r = Some (l, b) ->
  StronglySorted Z.lt l /\
  (forall s, In s l -> is_occ q s) /\
  (forall c, q_count q = Some c -> Z.of_nat (List.length l) <= Z.max c 0) /\
  (forall s, is_occ q s ->
     In s l \/
     (exists c, q_count q = Some c /\ Z.of_nat (List.length l) = Z.max c 0 /\ forall x, In x l -> x < s) \/
     (b = false /\ H * US_DAY <= s)).
Proof.
  intros F H r q l b N R. unfold rr_occ in R. rewrite N in R.
  eapply gen_exact; [eapply normalize_ok; eassumption | eassumption].
Qed.

Lemma ss_nodup : forall l, StronglySorted Z.lt l -> NoDup l.
Proof.
  intros l H. induction H as [|a r Hr IH Ha]; constructor; [|assumption].
  intro Hin. rewrite Forall_forall in Ha. specialize (Ha a Hin). lia.
Qed.

(* ---- until enters only as an instant *)
Definition with_r_until (u : option dt) (r : rrule_args) : rrule_args :=
  mkRR (r_freq r) (r_dtstart r) (r_interval r) (r_wkst r) (r_count r) u (r_bysetpos r)
       (r_bymonth r) (r_bymonthday r) (r_byyearday r) (r_byeaster r) (r_byweekno r) (r_byweekday r)
       (r_byhour r) (r_byminute r) (r_bysecond r) (r_cache r).

Theorem until_only_instant : forall r u u',
  d_tz u <> None -> d_tz u' <> None -> inst_us u = inst_us u' ->
  normalize (with_r_until (Some u') r) = normalize (with_r_until (Some u) r).
Proof.
  intros r u u' Hu Hu' E. unfold normalize, with_r_until.
  cbn [r_dtstart r_interval r_wkst r_freq r_byweekno r_byyearday r_bymonthday r_byweekday r_byeaster
       r_bymonth r_byhour r_byminute r_bysecond r_count r_until r_bysetpos].
  destruct (d_tz u); [|congruence]. destruct (d_tz u'); [|congruence]. rewrite E. reflexivity.
Qed.

Corollary rr_occ_until_instant : forall F H r u u',
  d_tz u <> None -> d_tz u' <> None -> inst_us u = inst_us u' ->
  rr_occ F H (with_r_until (Some u') r) = rr_occ F H (with_r_until (Some u) r).
Proof. intros. unfold rr_occ. rewrite (until_only_instant r u u') by assumption. reflexivity. Qed.

(* ---- rule sets *)
Lemma fold_insert_in : forall y l acc, In y (fold_right insert_uniq acc l) <-> In y l \/ In y acc.
Proof.
  intros y l acc. induction l as [|x r IH]; cbn [fold_right In]; [tauto|].
  rewrite insert_uniq_in, IH. intuition.
Qed.

Lemma fold_insert_sorted : forall l acc, StronglySorted Z.lt acc -> StronglySorted Z.lt (fold_right insert_uniq acc l).
Proof. intros l acc H. induction l as [|x r IH]; cbn [fold_right]; [assumption | apply insert_uniq_sorted; assumption]. Qed.

Lemma union_all_in : forall y parts, In y (union_all parts) <-> exists p, In p parts /\ In y (fst p).
Proof.
  intros y parts. unfold union_all. induction parts as [|p r IH]; cbn [fold_right In].
  - split; [contradiction | intros (p & [] & _)].
  - rewrite fold_insert_in, IH. split.
    + intros [H|(p' & Hp & Hy)]; [exists p; auto | exists p'; auto].
    + intros (p' & [->|Hp] & Hy); [left; assumption | right; exists p'; auto].
Qed.

Lemma union_all_sorted : forall parts, StronglySorted Z.lt (union_all parts).
Proof.
  intro parts. unfold union_all. induction parts as [|p r IH]; cbn [fold_right]; [constructor|].
  apply fold_insert_sorted. assumption.
Qed.

Lemma memz_in : forall x l, memz x l = true <-> In x l.
Proof.
  intros x l. unfold memz. rewrite existsb_exists. split.
  - intros (y & Hy & E). apply Z.eqb_eq in E. subst. assumption.
  - intro H. exists x. split; [assumption | apply Z.eqb_refl].
Qed.

Lemma lastz_max : forall l d x, StronglySorted Z.lt l -> In x l -> x <= lastz d l.
Proof.
  induction l as [|a r IH]; intros d x Hs Hx; [contradiction|].
  cbn [lastz]. inversion Hs; subst. destruct Hx as [->|Hx]; [|apply IH; assumption].
  destruct r as [|b r']; [cbn; lia|]. rewrite Forall_forall in H2.
  specialize (IH x b H1 (or_introl eq_refl)). specialize (H2 b (or_introl eq_refl)). lia.
Qed.

(* "united with include and minus exclude": the result is ordered and duplicate-free; a stamp is in it
   iff some included part yields it (before the horizon, unless every included part is complete) and
   no excluded part does; and the excluded parts were computed up to a horizon beyond every result *)
Theorem combine_spec : forall H parts l c,
  combine H parts = Some (l, c) ->
  exists incs excs H',
    parts H true = Some incs /\ parts H' false = Some excs /\ H <= H' /\ c = forallb snd incs /\
    StronglySorted Z.lt l /\
    (forall s, In s l <-> ((exists p, In p incs /\ In s (fst p)) /\ (c = true \/ s < H * US_DAY) /\
                           ~ (exists p, In p excs /\ In s (fst p)))) /\
    (forall s, In s l -> s < H' * US_DAY).
Proof.
  intros H parts l c G. unfold combine in G.
  destruct (parts H true) as [incs|] eqn:Ei; [|discriminate].
  set (cpl := forallb snd incs) in *.
  set (r1 := if cpl then union_all incs else filter (fun s => s <? H * US_DAY) (union_all incs)) in *.
  set (H' := if cpl then Z.max H (lastz 0 r1 / US_DAY + 1) else H) in *.
  destruct (parts H' false) as [excs|] eqn:Ee; [|discriminate].
  injection G as El Ec. rewrite <- El, <- Ec. clear El Ec l c.
  assert (S1 : StronglySorted Z.lt r1).
  { subst r1. destruct cpl; [apply union_all_sorted | apply ss_filter, union_all_sorted]. }
  assert (I1 : forall s, In s r1 <-> (exists p, In p incs /\ In s (fst p)) /\ (cpl = true \/ s < H * US_DAY)).
  { intro s. subst r1. destruct cpl.
    - rewrite union_all_in. intuition.
    - rewrite filter_In, union_all_in. rewrite Z.ltb_lt. intuition; discriminate. }
  exists incs, excs, H'. split; [reflexivity|]. split; [assumption|].
  split; [subst H'; destruct cpl; lia|]. split; [reflexivity|].
  split; [apply ss_filter; assumption|]. split.
  - intro s. rewrite filter_In, negb_true_iff. rewrite <- (union_all_in s excs). rewrite <- (memz_in s (union_all excs)).
    rewrite I1. destruct (memz s (union_all excs)).
    + split; [intros [_ X]; discriminate | intros [_ [_ X]]; exfalso; apply X; reflexivity].
    + split; [intros [[X Y] _]; split; [exact X | split; [exact Y | intro; discriminate]]
             | intros [X [Y _]]; split; [split; assumption | reflexivity]].
  - intros s Hs. apply filter_In in Hs. destruct Hs as [Hs _].
    subst H'. destruct cpl eqn:C.
    + pose proof (lastz_max r1 0 s S1 Hs) as L.
      assert (s / US_DAY <= lastz 0 r1 / US_DAY) by (apply Z.div_le_mono; [unfold US_DAY|]; lia).
      pose proof (Z.div_mod s US_DAY ltac:(unfold US_DAY; lia)).
      pose proof (Z.mod_pos_bound s US_DAY ltac:(unfold US_DAY; lia)).
      unfold US_DAY in *. nia.
    + apply I1 in Hs. destruct Hs as [_ [X|X]]; [discriminate | assumption].
Qed.

(* ---- what the per-run check [engine_ok] establishes *)
Lemma dt_eqb_eq : forall a b, dt_eqb a b = true -> a = b.
Proof.
  intros [d1 u1 t1] [d2 u2 t2] H. unfold dt_eqb in H. cbn [d_days d_us d_tz] in H.
  rewrite !andb_true_iff, !Z.eqb_eq in H. destruct H as [[-> ->] T].
  f_equal. destruct t1, t2; cbn in T; try discriminate; [apply Z.eqb_eq in T; subst|]; reflexivity.
Qed.

Lemma list_eqb_dt_eq : forall l1 l2, list_eqb dt_eqb l1 l2 = true -> l1 = l2.
Proof.
  induction l1 as [|a r IH]; intros [|b r'] H; cbn [list_eqb] in H; try discriminate; [reflexivity|].
  apply andb_true_iff in H. destruct H as [H1 H2]. f_equal; [apply dt_eqb_eq; assumption | apply IH; assumption].
Qed.

Theorem engine_ok_sound : forall rs stream fin tz l c,
  engine_ok rs stream fin = true ->
  top_tz rs = Some tz -> in_fragment tz rs = true ->
  rs_occ ENGINE_FUEL (max_day 0 stream) tz rs = Some (l, c) ->
  stream = map (dt_of_stamp tz) (firstn (List.length stream) l) /\
  (fin = true -> c = true -> List.length l = List.length stream).
Proof.
  intros rs stream fin tz l c H T Fr R. unfold engine_ok in H. rewrite T, Fr, R in H.
  apply andb_true_iff in H. destruct H as [H1 H2]. split; [apply list_eqb_dt_eq; assumption|].
  intros -> ->. cbn [andb] in H2. apply Nat.eqb_eq in H2. assumption.
Qed.

(* ---------------------------------------------------------------- Rec6 *)
(* ---- the parts of a rule set, named *)
Definition part_of (F : nat) (tz : Z) (H : Z) (c : call) : option (list Z * bool) :=
  match c with
  | CRule _ x => if option_eqb Z.eqb (d_tz (r_dtstart x)) (Some tz) then rr_occ F H x else None
  | CSet _ s => rs_occ F H tz s
  | CDate _ d => if option_eqb Z.eqb (d_tz d) (Some tz) && (0 <=? d_us d) && (d_us d <? US_DAY)
                 then Some ([d_days d * US_DAY + d_us d], true) else None
  end.

Fixpoint parts_of (F : nat) (tz : Z) (H : Z) (want_incl : bool) (calls : list call)
  : option (list (list Z * bool)) :=
  match calls with
  | [] => Some []
  | c :: r =>
    if Bool.eqb (is_incl (call_method c)) want_incl
    then match part_of F tz H c, parts_of F tz H want_incl r with
         | Some p, Some ps => Some (p :: ps)
         | _, _ => None
         end
    else parts_of F tz H want_incl r
  end.

Lemma combine_ext : forall H f g, (forall H' w, f H' w = g H' w) -> combine H f = combine H g.
Proof. intros H f g E. unfold combine. rewrite E. destruct (g H true); [|reflexivity]. rewrite E. reflexivity. Qed.

Theorem rs_occ_unfold : forall F H tz c calls,
  rs_occ F H tz (RS c calls) = combine H (fun H' w => parts_of F tz H' w calls).
Proof.
  intros F H tz c calls. cbn [rs_occ]. apply combine_ext. intros H' w.
  induction calls as [|x r IH]; [reflexivity|].
  cbn [parts_of]. rewrite <- IH. destruct x; reflexivity.
Qed.

(* ---- rows of a recipe are the first n values of the model's recurrence set *)
Lemma firstn_map_firstn : forall {A B} (f : A -> B) n m (l : list A), (n <= m)%nat ->
  firstn n (map f (firstn m l)) = map f (firstn n l).
Proof.
  intros A B f n m l H. rewrite firstn_map. f_equal. rewrite firstn_firstn. f_equal. lia.
Qed.

Theorem rows_are_model_recurrence : forall via memo P now kw n stream rs vs tz l c,
  run via memo P now kw (MCount n) stream = Ok (rs, vs) ->
  engine_ok rs stream false = true ->
  top_tz rs = Some tz -> in_fragment tz rs = true ->
  rs_occ ENGINE_FUEL (max_day 0 stream) tz rs = Some (l, c) ->
  exists p, vs = map (emit_next p) (map (dt_of_stamp tz) (firstn n l)) /\ List.length vs = n.
Proof.
  intros via memo P now kw n stream rs vs tz l c R E T Fr O.
  destruct (run_sound _ _ _ _ _ _ _ _ _ R) as (kw' & a & r & p & sp & _ & _ & _ & _ & Hr).
  destruct (engine_ok_sound _ _ _ _ _ _ E T Fr O) as [Es _].
  exists p. unfold rows in Hr. destruct (Nat.ltb_spec (List.length stream) n); [discriminate|].
  inversion Hr; subst vs. split.
  - f_equal. rewrite Es at 1. apply firstn_map_firstn. assumption.
  - rewrite map_length, firstn_length. lia.
Qed.
