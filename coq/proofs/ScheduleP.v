(* ScheduleP.v — proofs about the model of Schedule.py (property C15). *)
From Coq Require Import ZArith List Bool String Lia Sorted.
From SFV Require Import Base Schedule.
Import ListNotations. Open Scope Z_scope.

Ltac splits := repeat match goal with |- _ /\ _ => split end.

Lemma bind_ok : forall A B (r : result A) (f : A -> result B) b,
  bind r f = Ok b -> exists a, r = Ok a /\ f a = Ok b.
Proof. intros A B r f b H. destruct r as [a|e]; cbn [bind] in H; [eauto | discriminate]. Qed.

Ltac bind_inv H x Hx :=
  apply bind_ok in H; destruct H as (x & Hx & H).

Definition US_PER_DAY : Z := 86400000000.

Definition instant (off : Z) (x : dt) : Z := d_days x * US_PER_DAY + d_us x - off * 1000000.

(* ------------------------------------------------------------------ wire *)

Definition is_date_like (a : arg) : bool :=
  match a with
  | ADate _ => true
  | AStr s => negb (is_datetime s)
  | _ => false
  end.

(* everything [wire] computes, step by step *)
Lemma wire_inv : forall P now a r p sp,
  wire P now a = Ok (r, p, sp) ->
  exists fq ex inc,
    s_freq a = Some fq /\
    check_undoc (dflt (ABool false) (s_uuf a)) (dflt ANone (s_bysetpos a))
                (dflt ANone (s_byeaster a)) (dflt (ABool false) (s_cache a))
                (dflt ANone (s_byweekno a)) = Ok tt /\
    norm_start P now (dflt ANone (s_start_date a)) = Ok (r_dtstart r, p) /\
    ints (dflt ANone (s_bysetpos a)) = Ok (r_bysetpos r) /\
    ints (dflt ANone (s_bymonth a)) = Ok (r_bymonth r) /\
    ints (dflt ANone (s_bymonthday a)) = Ok (r_bymonthday r) /\
    ints (dflt ANone (s_byyearday a)) = Ok (r_byyearday r) /\
    ints (dflt ANone (s_byeaster a)) = Ok (r_byeaster r) /\
    ints (dflt ANone (s_byhour a)) = Ok (r_byhour r) /\
    ints (dflt ANone (s_byminute a)) = Ok (r_byminute r) /\
    ints (dflt ANone (s_bysecond a)) = Ok (r_bysecond r) /\
    ints (dflt ANone (s_byweekno a)) = Ok (r_byweekno r) /\
    norm_until P (r_dtstart r) (dflt ANone (s_until a)) = Ok (r_until r) /\
    norm_freq fq p = Ok (r_freq r) /\
    weekdays (dflt ANone (s_byweekday a)) = Ok (r_byweekday r) /\
    r_interval r = to_scalar (dflt (AInt 1) (s_interval a)) /\
    r_count r = to_scalar (dflt ANone (s_count a)) /\
    r_wkst r = Some SU /\
    r_cache r = to_scalar (dflt (ABool false) (s_cache a)) /\
    truthy (dflt (AInt 1) (s_interval a)) = true /\
    special_part P (r_dtstart r) MExRule MExDate (dflt ANone (s_exclude a)) = Ok ex /\
    special_part P (r_dtstart r) MRRule MRDate (dflt ANone (s_include a)) = Ok inc /\
    sp = ex ++ inc.
Proof.
  intros P now a r p sp H. unfold wire in H.
  destruct (s_freq a) as [fq|] eqn:Hfq; [|discriminate].
  bind_inv H u Hu. destruct u.
  bind_inv H st Hst. destruct st as [start p0].
  bind_inv H v1 H1. bind_inv H v2 H2. bind_inv H v3 H3. bind_inv H v4 H4. bind_inv H v5 H5.
  bind_inv H v6 H6. bind_inv H v7 H7. bind_inv H v8 H8. bind_inv H v9 H9.
  bind_inv H un Hun. bind_inv H fr Hfr. bind_inv H ci Hci. bind_inv H wd Hwd.
  assert (Hiv : truthy (dflt (AInt 1) (s_interval a)) = true)
    by (unfold check_interval in Hci; destruct (truthy (dflt (AInt 1) (s_interval a))); [reflexivity | discriminate]).
  cbv zeta in H.
  bind_inv H exs Hex. bind_inv H incs Hinc.
  inversion H; subst; clear H.
  exists fq, exs, incs.
  cbn [r_freq r_dtstart r_interval r_wkst r_count r_until r_bysetpos r_bymonth r_bymonthday
       r_byyearday r_byeaster r_byweekno r_byweekday r_byhour r_byminute r_bysecond r_cache].
  splits; auto.
Qed.

(* each engine keyword receives the normalisation of the recipe keyword OF THE SAME NAME *)
Theorem wiring_faithful : forall P now a r p sp,
  wire P now a = Ok (r, p, sp) ->
  exists fq,
    s_freq a = Some fq /\
    norm_freq fq p = Ok (r_freq r) /\
    norm_start P now (dflt ANone (s_start_date a)) = Ok (r_dtstart r, p) /\
    r_interval r = to_scalar (dflt (AInt 1) (s_interval a)) /\
    r_count r = to_scalar (dflt ANone (s_count a)) /\
    norm_until P (r_dtstart r) (dflt ANone (s_until a)) = Ok (r_until r) /\
    ints (dflt ANone (s_bysetpos a)) = Ok (r_bysetpos r) /\
    ints (dflt ANone (s_bymonth a)) = Ok (r_bymonth r) /\
    ints (dflt ANone (s_bymonthday a)) = Ok (r_bymonthday r) /\
    ints (dflt ANone (s_byyearday a)) = Ok (r_byyearday r) /\
    ints (dflt ANone (s_byeaster a)) = Ok (r_byeaster r) /\
    ints (dflt ANone (s_byweekno a)) = Ok (r_byweekno r) /\
    weekdays (dflt ANone (s_byweekday a)) = Ok (r_byweekday r) /\
    ints (dflt ANone (s_byhour a)) = Ok (r_byhour r) /\
    ints (dflt ANone (s_byminute a)) = Ok (r_byminute r) /\
    ints (dflt ANone (s_bysecond a)) = Ok (r_bysecond r) /\
    r_wkst r = Some SU /\
    r_cache r = to_scalar (dflt (ABool false) (s_cache a)).
Proof.
  intros P now a r p sp H.
  destruct (wire_inv _ _ _ _ _ _ H) as (fq & ex & inc & ? & ? & ? & ? & ? & ? & ? & ? & ? & ? & ? & ? & ? & ? & ? & ? & ? & ? & ? & ? & ? & ? & ?).
  exists fq. splits; assumption.
Qed.

(* a keyword that is not given leaves the engine keyword of the same name unset,
   whatever the other keywords are (the byweekno / bysecond mix-up is excluded) *)
Theorem absent_keyword_absent_in_engine : forall P now a r p sp,
  wire P now a = Ok (r, p, sp) ->
  (s_bysetpos a = None -> r_bysetpos r = None) /\
  (s_bymonth a = None -> r_bymonth r = None) /\
  (s_bymonthday a = None -> r_bymonthday r = None) /\
  (s_byyearday a = None -> r_byyearday r = None) /\
  (s_byeaster a = None -> r_byeaster r = None) /\
  (s_byweekno a = None -> r_byweekno r = None) /\
  (s_byweekday a = None -> r_byweekday r = None) /\
  (s_byhour a = None -> r_byhour r = None) /\
  (s_byminute a = None -> r_byminute r = None) /\
  (s_bysecond a = None -> r_bysecond r = None) /\
  (s_until a = None -> r_until r = None) /\
  (s_count a = None -> r_count r = SNone) /\
  (s_interval a = None -> r_interval r = SInt 1).
Proof.
  intros P now a r p sp H.
  destruct (wire_inv _ _ _ _ _ _ H) as (fq & ex & inc & ? & ? & ? & Ha & Hb & Hc & Hd & He & Hf & Hg & Hh & Hi & Hu & ? & Hw & Hiv & Hct & ? & ? & ? & ? & ? & ?).
  splits; intro E; rewrite E in *; cbn [dflt] in *.
  all: try (cbn [ints] in *; congruence).
  - unfold weekdays in Hw. cbn [truthy negb] in Hw. congruence.
  - unfold norm_until in Hu. cbn [truthy negb] in Hu. congruence.
  - rewrite Hct. reflexivity.
  - rewrite Hiv. reflexivity.
Qed.

(* two keyword sets that differ only in bysecond give engine arguments that differ only in bysecond *)
Definition with_bysecond (v : option arg) (a : sched_args) : sched_args :=
  mkS (s_freq a) (s_start_date a) (s_interval a) (s_count a) (s_until a) (s_bysetpos a) (s_bymonth a)
      (s_bymonthday a) (s_byyearday a) (s_byeaster a) (s_byweekno a) (s_byweekday a) (s_byhour a)
      (s_byminute a) v (s_cache a) (s_exclude a) (s_include a) (s_uuf a).

Definition with_r_bysecond (v : option (list Z)) (r : rrule_args) : rrule_args :=
  mkRR (r_freq r) (r_dtstart r) (r_interval r) (r_wkst r) (r_count r) (r_until r) (r_bysetpos r)
       (r_bymonth r) (r_bymonthday r) (r_byyearday r) (r_byeaster r) (r_byweekno r) (r_byweekday r)
       (r_byhour r) (r_byminute r) v (r_cache r).

Theorem bysecond_restricts_only_seconds : forall P now a v r p sp r' p' sp',
  wire P now a = Ok (r, p, sp) ->
  wire P now (with_bysecond v a) = Ok (r', p', sp') ->
  r' = with_r_bysecond (r_bysecond r') r /\ p' = p /\ sp' = sp.
Proof.
  intros P now a v r p sp r' p' sp' H H'.
  destruct (wire_inv _ _ _ _ _ _ H) as (fq & ex & inc & A0 & A1 & A2 & A3 & A4 & A5 & A6 & A7 & A8 & A9 & A10 & A11 & A12 & A13 & A14 & A15 & A16 & A17 & A18 & AI & A19 & A20 & A21).
  destruct (wire_inv _ _ _ _ _ _ H') as (fq' & ex' & inc' & B0 & B1 & B2 & B3 & B4 & B5 & B6 & B7 & B8 & B9 & B10 & B11 & B12 & B13 & B14 & B15 & B16 & B17 & B18 & BI & B19 & B20 & B21).
  unfold with_bysecond in *.
  cbn [s_freq s_start_date s_interval s_count s_until s_bysetpos s_bymonth s_bymonthday s_byyearday
       s_byeaster s_byweekno s_byweekday s_byhour s_byminute s_bysecond s_cache s_exclude s_include s_uuf] in *.
  rewrite A2 in B2. inversion B2 as [[Es Ep]]. subst p'.
  rewrite A0 in B0. inversion B0; subst fq'.
  rewrite <- Es in B12, B19, B20.
  rewrite A19 in B19. inversion B19; subst ex'.
  rewrite A20 in B20. inversion B20; subst inc'.
  splits; auto; [|congruence].
  assert (Eta : forall x, x = mkRR (r_freq x) (r_dtstart x) (r_interval x) (r_wkst x) (r_count x) (r_until x)
                                   (r_bysetpos x) (r_bymonth x) (r_bymonthday x) (r_byyearday x) (r_byeaster x)
                                   (r_byweekno x) (r_byweekday x) (r_byhour x) (r_byminute x) (r_bysecond x)
                                   (r_cache x)) by (intro x; destruct x; reflexivity).
  rewrite (Eta r') at 1. unfold with_r_bysecond.
  rewrite A3 in B3; inversion B3. rewrite A4 in B4; inversion B4. rewrite A5 in B5; inversion B5.
  rewrite A6 in B6; inversion B6. rewrite A7 in B7; inversion B7. rewrite A8 in B8; inversion B8.
  rewrite A9 in B9; inversion B9. rewrite A11 in B11; inversion B11. rewrite A12 in B12; inversion B12.
  rewrite A13 in B13; inversion B13. rewrite A14 in B14; inversion B14.
  rewrite A15, B15, A16, B16, A17, B17, A18, B18, <- Es.
  reflexivity.
Qed.

(* ------------------------------------------------------------------ precision *)

Lemma norm_start_precision : forall P now a start p,
  norm_start P now a = Ok (start, p) -> (p = PDate <-> is_date_like a = true).
Proof.
  intros P now a start p H. unfold norm_start in H.
  destruct a; cbn [is_date_like truthy] in *;
    try (destruct (truthy _) eqn:?; try discriminate);
    try (inversion H; subst; split; intro; congruence).
  - (* bool *) destruct b; try discriminate. inversion H; subst. split; intro; congruence.
  - (* int *) destruct (negb (z =? 0)); try discriminate. inversion H; subst. split; intro; congruence.
  - (* str *) bind_inv H t Ht. inversion H; subst.
    destruct (is_datetime s); cbn [negb]; split; intro; congruence.
  - (* seq *) destruct l; try discriminate. inversion H; subst. split; intro; congruence.
Qed.

Lemma norm_freq_time : forall fq p f,
  norm_freq fq p = Ok f -> is_time_freq f = true -> p = PDateTime.
Proof.
  intros fq p f H Ht. unfold norm_freq in H.
  destruct fq; try discriminate.
  destruct (freq_of (upper s)) as [f0|]; try discriminate.
  destruct p; auto.
  destruct (is_time_freq f0) eqn:E; try discriminate.
  inversion H; subst. congruence.
Qed.

Theorem precision_rule : forall P now a r p sp,
  wire P now a = Ok (r, p, sp) ->
  (p = PDate <-> is_date_like (dflt ANone (s_start_date a)) = true) /\
  (is_time_freq (r_freq r) = true -> p = PDateTime) /\
  (forall x, emit_next p x = match p with PDate => VDate (d_days x) | PDateTime => VDateTime x end).
Proof.
  intros P now a r p sp H.
  destruct (wire_inv _ _ _ _ _ _ H) as (fq & ex & inc & ? & ? & Hs & ? & ? & ? & ? & ? & ? & ? & ? & ? & ? & Hf & ?).
  splits.
  - eapply norm_start_precision; eauto.
  - eapply norm_freq_time; eauto.
  - intro x. destruct p; reflexivity.
Qed.

(* a date-precision start together with an hourly / minutely / secondly frequency is rejected *)
Theorem time_freq_needs_datetime : forall P now a,
  is_date_like (dflt ANone (s_start_date a)) = true ->
  (exists s f, s_freq a = Some (AStr s) /\ freq_of (upper s) = Some f /\ is_time_freq f = true) ->
  is_ok (wire P now a) = false.
Proof.
  intros P now a Hd (s & f & Hs & Hf & Ht).
  destruct (wire P now a) as [[[r p] sp]|e] eqn:H; [|reflexivity].
  exfalso.
  destruct (wire_inv _ _ _ _ _ _ H) as (fq & ex & inc & Hfq & ? & Hst & ? & ? & ? & ? & ? & ? & ? & ? & ? & ? & Hnf & ?).
  assert (p = PDate) by (eapply norm_start_precision; eauto).
  subst p. rewrite Hs in Hfq. inversion Hfq; subst fq.
  unfold norm_freq in Hnf. rewrite Hf, Ht in Hnf. discriminate.
Qed.

Theorem undocumented_rejected : forall P now a fq,
  s_freq a = Some fq ->
  truthy (dflt (ABool false) (s_uuf a)) = false ->
  (truthy (dflt ANone (s_bysetpos a)) || truthy (dflt ANone (s_byeaster a))
   || truthy (dflt (ABool false) (s_cache a)) || truthy (dflt ANone (s_byweekno a))) = true ->
  wire P now a = Err (DGE "").
Proof.
  intros P now a fq Hf Hu Ht. unfold wire. rewrite Hf.
  unfold check_undoc. rewrite Hu, Ht. reflexivity.
Qed.

Theorem bad_frequency_rejected : forall P now a fq,
  s_freq a = Some fq ->
  (forall p, norm_freq fq p = Err (DGE "")) ->
  is_ok (wire P now a) = false.
Proof.
  intros P now a fq Hf Hn.
  destruct (wire P now a) as [[[r p] sp]|e] eqn:H; [|reflexivity].
  destruct (wire_inv _ _ _ _ _ _ H) as (fq' & ex & inc & Hfq & ? & ? & ? & ? & ? & ? & ? & ? & ? & ? & ? & ? & Hnf & ?).
  rewrite Hf in Hfq. inversion Hfq; subst. rewrite Hn in Hnf. discriminate.
Qed.

(* an interval of 0 / None / "" / False is rejected (the engine would never advance); and a rule
   that is built always has a truthy interval *)
Theorem falsy_interval_rejected : forall P now a,
  truthy (dflt (AInt 1) (s_interval a)) = false -> is_ok (wire P now a) = false.
Proof.
  intros P now a Hi.
  destruct (wire P now a) as [[[r p] sp]|e] eqn:H; [|reflexivity].
  destruct (wire_inv _ _ _ _ _ _ H) as (fq & ex & inc & ? & ? & ? & ? & ? & ? & ? & ? & ? & ? & ? & ? & ? & ? & ? & ? & ? & ? & ? & Ht & ?).
  congruence.
Qed.

(* ------------------------------------------------------------------ include / exclude *)

Section ArgInd.
  Variable Q : arg -> Prop.
  Hypothesis HNone : Q ANone.
  Hypothesis HBool : forall b, Q (ABool b).
  Hypothesis HInt : forall z, Q (AInt z).
  Hypothesis HStr : forall s, Q (AStr s).
  Hypothesis HSeq : forall t l, Forall Q l -> Q (ASeq t l).
  Hypothesis HDate : forall d, Q (ADate d).
  Hypothesis HDateTime : forall t, Q (ADateTime t).
  Hypothesis HRule : forall rs, Q (ARule rs).
  Hypothesis HOther : Q AOther.

  Fixpoint arg_ind' (a : arg) : Q a :=
    match a with
    | ANone => HNone
    | ABool b => HBool b
    | AInt z => HInt z
    | AStr s => HStr s
    | ASeq t l =>
      HSeq t l ((fix go (l : list arg) : Forall Q l :=
                   match l with
                   | [] => Forall_nil Q
                   | x :: r => Forall_cons x (arg_ind' x) (go r)
                   end) l)
    | ADate d => HDate d
    | ADateTime t => HDateTime t
    | ARule rs => HRule rs
    | AOther => HOther
    end.
End ArgInd.

Lemma mapM_app : forall A B (f : A -> result B) l1 l2,
  mapM f (l1 ++ l2) = (do a <- mapM f l1; do b <- mapM f l2; Ok (a ++ b)).
Proof.
  intros A B f l1 l2. induction l1 as [|x r IH]; cbn [mapM app bind].
  - destruct (mapM f l2); reflexivity.
  - destruct (f x) as [y|e]; cbn [bind]; [|reflexivity].
    rewrite IH. destruct (mapM f r) as [ys|e]; cbn [bind]; [|reflexivity].
    destruct (mapM f l2) as [zs|e]; cbn [bind]; reflexivity.
Qed.

Lemma mapM_single : forall A B (f : A -> result B) x,
  mapM f [x] = (do y <- f x; Ok [y]).
Proof. intros. cbn [mapM]. destruct (f x); reflexivity. Qed.

(* the engine calls made for an include / exclude value are those of its leaves, in order
   (an equality of results: also the first error is the same) *)
Theorem specials_flatten : forall P start mr md a,
  specials P start mr md a = mapM (leaf_call P start mr md) (flatten a).
Proof.
  intros P start mr md a. induction a using arg_ind';
    try (cbn [specials flatten]; rewrite mapM_single; cbn [leaf_call bind]; reflexivity).
  - (* str *) cbn [specials flatten]. rewrite mapM_single. cbn [leaf_call].
    destruct (P s); reflexivity.
  - (* seq *)
    cbn [specials flatten].
    induction H as [|x r Hx Hr IH].
    + reflexivity.
    + rewrite mapM_app. rewrite <- Hx. rewrite <- IH. reflexivity.
Qed.

Theorem specials_in_wire : forall P now a r p sp,
  wire P now a = Ok (r, p, sp) ->
  exists ex inc,
    sp = ex ++ inc /\
    (if truthy (dflt ANone (s_exclude a))
     then mapM (leaf_call P (r_dtstart r) MExRule MExDate) (flatten (dflt ANone (s_exclude a)))
     else Ok []) = Ok ex /\
    (if truthy (dflt ANone (s_include a))
     then mapM (leaf_call P (r_dtstart r) MRRule MRDate) (flatten (dflt ANone (s_include a)))
     else Ok []) = Ok inc.
Proof.
  intros P now a r p sp H.
  destruct (wire_inv _ _ _ _ _ _ H) as (fq & ex & inc & ? & ? & ? & ? & ? & ? & ? & ? & ? & ? & ? & ? & ? & ? & ? & ? & ? & ? & ? & ? & Hex & Hinc & Hsp).
  exists ex, inc. unfold special_part in *. rewrite !specials_flatten in *. auto.
Qed.

(* what a leaf becomes *)
Theorem leaf_calls : forall P start mr md,
  (forall rs, leaf_call P start mr md (ARule rs) = Ok (CSet mr rs)) /\
  (forall t, leaf_call P start mr md (ADateTime t) = Ok (CDate md (ensure_tz t))) /\
  (forall d, leaf_call P start mr md (ADate d) = Ok (CDate md (mkDT d (d_us start) (d_tz start)))) /\
  (forall s t, P s = Ok t ->
               leaf_call P start mr md (AStr s) = Ok (CDate md (mkDT (d_days t) (d_us start) (d_tz start)))) /\
  (forall a, match a with ARule _ | ADateTime _ | ADate _ | AStr _ | ASeq _ _ => False | _ => True end ->
             leaf_call P start mr md a = Err (Internal "TypeError")).
Proof.
  intros. splits; intros; try reflexivity.
  - cbn [leaf_call]. rewrite H. reflexivity.
  - destruct a; try contradiction; reflexivity.
Qed.

(* a date leaf is the occurrence-shaped value "that day at the start's wall time in the START'S zone":
   it differs from the start only in the day, so for every zone offset it is the same instant as a
   daily occurrence of that day *)
Theorem date_leaf_in_start_zone : forall P start mr md d,
  leaf_call P start mr md (ADate d) = Ok (CDate md (mkDT d (d_us start) (d_tz start))) /\
  forall off, instant off (mkDT d (d_us start) (d_tz start)) - instant off start
              = (d - d_days start) * US_PER_DAY.
Proof. intros. split; [reflexivity|]. intro off. unfold instant. cbn [d_days d_us]. lia. Qed.

(* every value handed to rdate / exdate by a leaf carries a zone when the start does *)
Theorem leaf_dates_aware : forall P start mr md a m x,
  d_tz start <> None ->
  leaf_call P start mr md a = Ok (CDate m x) -> d_tz x <> None.
Proof.
  intros P start mr md a m x Hs H. destruct a; cbn [leaf_call] in H; try discriminate.
  - destruct (P s) as [t|e]; cbn [bind] in H; [|discriminate]. inversion H; subst. exact Hs.
  - inversion H; subst. exact Hs.
  - inversion H; subst. unfold ensure_tz. destruct (d_tz t) eqn:E; cbn [d_tz]; congruence.
Qed.

(* until: what the engine receives for each kind of value *)
Theorem until_normal_forms : forall P start,
  (forall a, truthy a = false -> norm_until P start a = Ok None) /\
  (forall d, norm_until P start (ADate d) = Ok (Some (ensure_tz (mkDT d (d_us start) (d_tz start))))) /\
  (forall t, norm_until P start (ADateTime t) = Ok (Some (ensure_tz t))) /\
  (forall s t, s <> EmptyString -> is_datetime s = true -> parse_dts P s = Ok t ->
               norm_until P start (AStr s) = Ok (Some t)) /\
  (forall s t, s <> EmptyString -> is_datetime s = false -> P s = Ok t ->
               norm_until P start (AStr s) = Ok (Some (ensure_tz (mkDT (d_days t) (d_us start) (d_tz start))))).
Proof.
  intros P start. splits.
  - intros a H. unfold norm_until. rewrite H. reflexivity.
  - reflexivity.
  - reflexivity.
  - intros s t Hne Hd Hp. unfold norm_until. cbn [truthy].
    destruct (String.eqb_spec s EmptyString); [contradiction|]. cbn [negb]. rewrite Hd, Hp. reflexivity.
  - intros s t Hne Hd Hp. unfold norm_until. cbn [truthy].
    destruct (String.eqb_spec s EmptyString); [contradiction|]. cbn [negb]. rewrite Hd, Hp. reflexivity.
Qed.

(* an aware value stays the instant it denotes: nothing is relabelled *)
Theorem until_keeps_aware_datetime : forall P start t off,
  d_tz t = Some off -> norm_until P start (ADateTime t) = Ok (Some t).
Proof.
  intros P start t off H. cbn [norm_until truthy negb]. unfold norm_until. cbn [truthy negb].
  unfold ensure_tz. rewrite H. reflexivity.
Qed.

(* ------------------------------------------------------------------ rows *)

Theorem rows_count_exact : forall p n stream,
  ((n <= List.length stream)%nat ->
     rows p (MCount n) stream = Ok (map (emit_next p) (firstn n stream))) /\
  ((List.length stream < n)%nat -> rows p (MCount n) stream = Err (DGE "")).
Proof.
  intros p n stream. unfold rows. split; intro H.
  - destruct (Nat.ltb_spec (List.length stream) n); [lia | reflexivity].
  - destruct (Nat.ltb_spec (List.length stream) n); [reflexivity | lia].
Qed.

Theorem rows_count_length : forall p n stream vs,
  rows p (MCount n) stream = Ok vs -> List.length vs = n.
Proof.
  intros p n stream vs H. unfold rows in H.
  destruct (Nat.ltb_spec (List.length stream) n); [discriminate|].
  inversion H; subst. rewrite map_length, firstn_length. lia.
Qed.

Theorem for_each_exact : forall p stream,
  rows p MForEach stream = Ok (map VDateTime stream) /\
  List.length (map VDateTime stream) = List.length stream.
Proof. intros. split; [reflexivity | apply map_length]. Qed.

(* ------------------------------------------------------------------ order *)

Lemma In_firstn : forall A n (l : list A) y, In y (firstn n l) -> In y l.
Proof.
  intros A n. induction n as [|n IH]; intros l y H; cbn [firstn] in H; [contradiction|].
  destruct l as [|x r]; [contradiction|]. cbn [In] in *. destruct H; [left; assumption | right; apply IH; assumption].
Qed.

Lemma firstn_StronglySorted : forall A (R : A -> A -> Prop) n l,
  StronglySorted R l -> StronglySorted R (firstn n l).
Proof.
  intros A R n. induction n as [|n IH]; intros l H; cbn [firstn].
  - constructor.
  - destruct l as [|x r]; [constructor|].
    inversion H; subst. constructor; [apply IH; assumption|].
    rewrite Forall_forall in *. intros y Hy. apply H3. eapply In_firstn; eauto.
Qed.

(* with one zone offset for all values, chronological datetimes have non-decreasing local dates *)
Lemma dates_sorted : forall off l,
  Forall (fun x => 0 <= d_us x < US_PER_DAY) l ->
  StronglySorted (fun x y => instant off x <= instant off y) l ->
  StronglySorted (fun x y => d_days x <= d_days y) l.
Proof.
  intros off l Hv Hs. induction Hs as [|x r Hs IH Hx]; [constructor|].
  inversion Hv; subst. constructor; [apply IH; assumption|].
  rewrite Forall_forall in *. intros y Hy.
  specialize (Hx y Hy). specialize (H2 y Hy). unfold instant, US_PER_DAY in *. lia.
Qed.

(* ------------------------------------------------------------------ run / eval *)

Lemma call_event_inv : forall via memo P now kw rs p,
  call_event via memo P now kw = Ok (rs, p) ->
  exists a r sp,
    to_sched_args via kw = Ok a /\ wire P now a = Ok (r, p, sp) /\ rs = ruleset_of a r sp /\
    (memo = true -> forallb (fun kv => hashable (snd kv)) kw = true).
Proof.
  intros via memo P now kw rs p H. unfold call_event in H.
  destruct (memo && negb (forallb (fun kv => hashable (snd kv)) kw)) eqn:Hm; [discriminate|].
  bind_inv H a Ha. bind_inv H w Hw. destruct w as [[r p0] sp]. inversion H; subst.
  exists a, r, sp. splits; auto.
  intro; subst memo. cbn [andb] in Hm. destruct (forallb _ kw); [reflexivity | discriminate].
Qed.

Theorem run_sound : forall via memo P now kw m stream rs vs,
  run via memo P now kw m stream = Ok (rs, vs) ->
  exists kw' a r p sp,
    eval_kw via memo P now kw = Ok kw' /\
    to_sched_args via kw' = Ok a /\
    wire P now a = Ok (r, p, sp) /\
    rs = ruleset_of a r sp /\
    rows p m stream = Ok vs.
Proof.
  intros via memo P now kw m stream rs vs H. unfold run in H.
  bind_inv H kw' Hk. bind_inv H rp Hc. destruct rp as [rs0 p]. bind_inv H vs0 Hr.
  inversion H; subst. cbn [fst snd] in *.
  destruct (call_event_inv _ _ _ _ _ _ _ Hc) as (a & r & sp & ? & ? & ? & ?).
  exists kw', a, r, p, sp. splits; auto.
Qed.

(* Schedule.Functions.Event hands every keyword to CalendarRule under the same name *)
Theorem event_passthrough : forall via kw a,
  to_sched_args via kw = Ok a ->
  s_freq a = assoc "freq" kw /\ s_start_date a = assoc "start_date" kw /\
  s_interval a = assoc "interval" kw /\ s_count a = assoc "count" kw /\
  s_until a = assoc "until" kw /\ s_bysetpos a = assoc "bysetpos" kw /\
  s_bymonth a = assoc "bymonth" kw /\ s_bymonthday a = assoc "bymonthday" kw /\
  s_byyearday a = assoc "byyearday" kw /\ s_byeaster a = assoc "byeaster" kw /\
  s_byweekno a = assoc "byweekno" kw /\ s_byweekday a = assoc "byweekday" kw /\
  s_byhour a = assoc "byhour" kw /\ s_byminute a = assoc "byminute" kw /\
  s_bysecond a = assoc "bysecond" kw /\ s_cache a = assoc "cache" kw /\
  s_exclude a = assoc "exclude" kw /\ s_include a = assoc "include" kw.
Proof.
  intros via kw a H. unfold to_sched_args in H.
  destruct (negb (forallb _ kw)); [discriminate|].
  inversion H; subst.
  cbn [s_freq s_start_date s_interval s_count s_until s_bysetpos s_bymonth s_bymonthday s_byyearday
       s_byeaster s_byweekno s_byweekday s_byhour s_byminute s_bysecond s_cache s_exclude s_include].
  splits; reflexivity.
Qed.

(* ------------------------------------------------------------------ the engine as a named assumption *)

Section Engine.
  Variable engine : ruleset -> list dt.      (* what dateutil's rruleset yields for the calls made on it *)
  Variable rfc5545 : ruleset -> list dt.     (* the RFC 5545 recurrence set described by those calls *)
  Hypothesis engine_is_rfc5545 : forall rs, engine rs = rfc5545 rs.
  Hypothesis rfc5545_chronological :
    forall rs off, StronglySorted (fun x y => instant off x <= instant off y) (rfc5545 rs).

  Theorem event_emits_exactly : forall via memo P now kw n rs vs,
    run via memo P now kw (MCount n) (engine rs) = Ok (rs, vs) ->
    exists kw' a r p sp,
      eval_kw via memo P now kw = Ok kw' /\ to_sched_args via kw' = Ok a /\
      wire P now a = Ok (r, p, sp) /\ rs = ruleset_of a r sp /\
      (n <= List.length (rfc5545 rs))%nat /\
      vs = map (emit_next p) (firstn n (rfc5545 rs)) /\
      forall off, StronglySorted (fun x y => instant off x <= instant off y) (firstn n (rfc5545 rs)).
  Proof.
    intros via memo P now kw n rs vs H.
    destruct (run_sound _ _ _ _ _ _ _ _ _ H) as (kw' & a & r & p & sp & ? & ? & ? & ? & Hr).
    exists kw', a, r, p, sp. splits; auto.
    - rewrite engine_is_rfc5545 in Hr. unfold rows in Hr.
      destruct (Nat.ltb_spec (List.length (rfc5545 rs)) n); [discriminate | lia].
    - rewrite engine_is_rfc5545 in Hr. unfold rows in Hr.
      destruct (Nat.ltb_spec (List.length (rfc5545 rs)) n); [discriminate|]. congruence.
    - intro off. apply firstn_StronglySorted. apply rfc5545_chronological.
  Qed.

  Theorem for_each_emits_exactly : forall via memo P now kw rs vs,
    run via memo P now kw MForEach (engine rs) = Ok (rs, vs) ->
    vs = map VDateTime (rfc5545 rs) /\ List.length vs = List.length (rfc5545 rs).
  Proof.
    intros via memo P now kw rs vs H.
    destruct (run_sound _ _ _ _ _ _ _ _ _ H) as (kw' & a & r & p & sp & ? & ? & ? & ? & Hr).
    rewrite engine_is_rfc5545 in Hr. cbn [rows] in Hr. inversion Hr; subst.
    split; [reflexivity | apply map_length].
  Qed.
End Engine.
