(* C11 — bounded random functions stay inside their bounds and can reach both ends.
   Model: theories/RandFuncs.v (snowfakery/template_funcs.py random_number, random_choice /
   choice, date_between, datetime_between; CPython randrange / choices and Faker's between
   functions as transcribed there).  Only statements here; proofs live in proofs/RandFuncsP.v.

   The random draw is universally quantified: k ranges over all values _randbelow(n) can
   return, num/den over all rationals in [0,1) random() can return.

   The defects K4 / K10 / K11 / K12 found by the first version of this check were repaired in
   /repo (5f128ae, 9e24eea, d67b12a); the model transcribes the repaired code, the former
   `_partial` statements are now proved at full strength and the former `_refuted` witnesses
   are kept as regression lemmas; so is the witness of K13 (timezone: False rejected after the
   clamp was introduced, repaired by 354b020). *)
From Coq Require Import ZArith List String Ascii.
From SFV Require Import Base RandFuncs.
From SFV.P Require Import RandFuncsP.
Import ListNotations. Open Scope Z_scope.

(* ------------------------------------------------------------------ random_number *)

(* For min <= max, step >= 1: randrange asks for n = (max-min)/step + 1 draws, and every draw k
   gives min + step*k, inside [min,max] and on the lattice. *)
Theorem C11_random_number_lattice :
  forall mn mx step, mn <= mx -> 1 <= step ->
  exists n, randrange_n mn (mx + 1) step = Ok n /\ n = (mx - mn) / step + 1 /\ 1 <= n /\
    forall k, 0 <= k < n ->
      random_number mn mx step (Some k) = Ok (mn + step * k) /\
      mn <= mn + step * k <= mx /\ (mn + step * k - mn) mod step = 0.
Proof. exact random_number_lattice. Qed.
Print Assumptions C11_random_number_lattice.

(* Whatever the draw (in range, out of range, absent), an Ok result is on the lattice. *)
Theorem C11_random_number_never_outside :
  forall mn mx step d x, 1 <= step -> random_number mn mx step d = Ok x ->
  mn <= x <= mx /\ (x - mn) mod step = 0 /\ on_lattice mn mx step x = true.
Proof. exact random_number_sound. Qed.
Print Assumptions C11_random_number_never_outside.

(* Every lattice point is produced by some admissible draw ... *)
Theorem C11_random_number_every_point_attainable :
  forall mn mx step v, mn <= mx -> 1 <= step -> mn <= v <= mx -> (v - mn) mod step = 0 ->
  exists k, 0 <= k < (mx - mn) / step + 1 /\ random_number mn mx step (Some k) = Ok v.
Proof. exact random_number_complete. Qed.
Print Assumptions C11_random_number_every_point_attainable.

(* ... in particular both ends of the lattice. *)
Theorem C11_ends_attainable :
  forall mn mx step, mn <= mx -> 1 <= step ->
  (exists k, 0 <= k < (mx - mn) / step + 1 /\ random_number mn mx step (Some k) = Ok mn) /\
  (exists k, 0 <= k < (mx - mn) / step + 1 /\
             random_number mn mx step (Some k) = Ok (mx - (mx - mn) mod step)).
Proof.
  intros mn mx step H Hs. split.
  - exact (random_number_min_attained mn mx step H Hs).
  - exact (random_number_max_attained mn mx step H Hs).
Qed.
Print Assumptions C11_ends_attainable.

(* Empty range (max < min) and zero step: an error for every draw. *)
Theorem C11_random_number_empty_range_is_error :
  forall mn mx step d,
    (mx < mn -> 1 <= step -> random_number mn mx step d = Err (Internal "ValueError")) /\
    random_number mn mx 0 d = Err (Internal "ValueError").
Proof.
  intros mn mx step d. split.
  - intros H Hs. exact (random_number_empty mn mx step d H Hs).
  - exact (random_number_zero_step mn mx d).
Qed.
Print Assumptions C11_random_number_empty_range_is_error.

(* The predicate the free-draw correspondence uses is exactly "some draw gives v". *)
Theorem C11_number_possible_exact :
  forall mn mx step v,
    number_possible mn mx step v = true <-> exists k, random_number mn mx step (Some k) = Ok v.
Proof. exact number_possible_iff. Qed.
Print Assumptions C11_number_possible_exact.

(* ------------------------------------------------------------------ random_choice *)

(* CPython's bisect_right, as transcribed, finds the boundary of a monotone predicate within its
   fuel (the fuel S (length cum) given by weighted_choice always suffices). *)
Theorem C11_bisect_correct :
  forall cum xn den (P : Z -> bool) len,
  (forall i, 0 <= i < len -> lt_at cum xn den i = Ok (P i)) ->
  (forall i j, 0 <= i <= j -> j < len -> P i = true -> P j = true) ->
  forall fuel lo hi, 0 <= lo -> lo <= hi -> hi <= len -> hi - lo < Z.of_nat fuel ->
  exists r, bisect_right fuel cum xn den lo hi = Ok r /\ lo <= r <= hi /\
            (forall i, lo <= i < r -> P i = false) /\ (forall i, r <= i < hi -> P i = true).
Proof. exact bisect_spec. Qed.
Print Assumptions C11_bisect_correct.

(* random.choices with weights that are all present, >= 0 and not all 0: for every value of
   random() the call succeeds, returns a listed option, and that option's weight is > 0. *)
Theorem C11_choice_support :
  forall zs opts num den,
  length opts = length zs -> Forall (fun z => 0 <= z) zs -> 0 < zsum zs -> 0 <= num < den ->
  exists i o w, weighted_choice (map Some zs) opts (Some num) den = Ok o /\
                nth_error opts i = Some o /\ nth_error zs i = Some w /\ 0 < w.
Proof. exact weighted_choice_support. Qed.
Print Assumptions C11_choice_support.

(* random_choice in the dict form and the choice-item form (rc_weights / rc_options are the
   vectors handed to random.choices): same statement at the level of the template function. *)
Theorem C11_random_choice_never_zero_weight :
  forall a zs num den,
  match a with RCList _ => False | _ => True end ->
  rc_weights a = map Some zs -> Forall (fun z => 0 <= z) zs -> 0 < zsum zs -> 0 <= num < den ->
  exists i o w, random_choice a (Some num) den = Ok o /\
                nth_error (rc_options a) i = Some o /\ nth_error zs i = Some w /\ 0 < w.
Proof. exact random_choice_support. Qed.
Print Assumptions C11_random_choice_never_zero_weight.

(* All the weight on position i0: that option, for every draw. *)
Theorem C11_single_weight :
  forall a zs num den i0,
  match a with RCList _ => False | _ => True end ->
  rc_weights a = map Some zs -> Forall (fun z => 0 <= z) zs -> 0 < zsum zs -> 0 <= num < den ->
  (forall j w, nth_error zs j = Some w -> 0 < w -> j = i0) ->
  exists o, random_choice a (Some num) den = Ok o /\ nth_error (rc_options a) i0 = Some o.
Proof. exact random_choice_single. Qed.
Print Assumptions C11_single_weight.

(* dict form spelled out: the returned key is listed with a positive weight *)
Theorem C11_dict_form :
  forall items num den,
  Forall (fun it => 0 <= snd it) items -> 0 < zsum (map snd items) -> 0 <= num < den ->
  exists o w, random_choice (RCDict items) (Some num) den = Ok o /\ In (o, w) items /\ 0 < w.
Proof. exact random_choice_dict. Qed.
Print Assumptions C11_dict_form.

(* choice-item form at full strength: probabilities present, >= 0, not all 0: the pick is a
   listed item whose probability is > 0 -- an item with probability 0 is never picked *)
Theorem C11_choice_items :
  forall items num den,
  Forall (fun it => exists p, fst it = Some p /\ 0 <= p) items ->
  0 < zsum (map (fun it => match fst it with Some p => p | None => 0 end) items) ->
  0 <= num < den ->
  exists o p, random_choice (RCChoices items) (Some num) den = Ok o /\ In (Some p, o) items /\ 0 < p.
Proof. exact random_choice_choices. Qed.
Print Assumptions C11_choice_items.

(* regression for the repaired defect K12 (probability 0 made the call fail) *)
Example C11_choice_items_zero_probability_regression :
  random_choice (RCChoices [(Some 0, 1); (Some 200, 2)]) (Some 0) 1024 = Ok 2 /\
  random_choice (RCChoices [(Some 0, 1); (Some 200, 2)]) (Some 1023) 1024 = Ok 2.
Proof. exact regression_zero_probability. Qed.
Print Assumptions C11_choice_items_zero_probability_regression.

(* plain list: only listed options, each of them reachable; empty list: error *)
Theorem C11_only_listed :
  forall opts, opts <> [] ->
  (forall k, 0 <= k < Z.of_nat (length opts) ->
     exists o, random_choice (RCList opts) (Some k) 0 = Ok o /\
               nth_error opts (Z.to_nat k) = Some o /\ In o opts) /\
  (forall o, In o opts -> exists k, 0 <= k < Z.of_nat (length opts) /\
                                    forall den, random_choice (RCList opts) (Some k) den = Ok o).
Proof. exact random_choice_list. Qed.
Print Assumptions C11_only_listed.

(* a result of a weighted form is always accepted by the predicate used for free draws:
   listed, with a positive weight at that position *)
Theorem C11_choice_possible_sound :
  forall a zs num den o,
  match a with RCList _ => False | _ => True end ->
  rc_weights a = map Some zs -> Forall (fun z => 0 <= z) zs -> 0 < zsum zs -> 0 <= num < den ->
  random_choice a (Some num) den = Ok o -> choice_possible a o = true.
Proof. exact random_choice_possible. Qed.
Print Assumptions C11_choice_possible_sound.

(* ------------------------------------------------------------------ date_between *)

(* Both bounds resolved to day numbers (as written / today / today + relative offset): for every
   draw the result lies between them; reversed bounds give None (the swallowed "empty range"). *)
Theorem C11_date_between_bounds :
  forall c s e ds de num den,
  resolve_date c s = Ok ds -> resolve_date c e = Ok de -> 0 <= num < den ->
  (ds <= de -> exists v, date_between c s e (Some num) den = Ok (Some v) /\ ds <= v <= de) /\
  (de < ds -> forall d, date_between c s e d den = Ok None).
Proof. exact date_between_bounds. Qed.
Print Assumptions C11_date_between_bounds.

(* Independent of how Faker draws: ANY timestamp (microseconds) inside the closed interval it is
   given falls on a day between the bounds. *)
Theorem C11_date_any_draw_between :
  forall ds de ts_us, ds * DAYUS <= ts_us <= de * DAYUS -> ds <= ts_us / DAYUS <= de.
Proof. exact date_any_draw_between. Qed.
Print Assumptions C11_date_any_draw_between.

(* what a bound denotes *)
Theorem C11_resolve_date_meaning :
  forall c,
  (forall d, resolve_date c (SDate d) = Ok d) /\
  (forall w o, resolve_date c (SStamp (mkStamp w o)) = Ok (w / DAYUS)) /\
  resolve_date c SToday = Ok (today c) /\ resolve_date c SNow = Ok (today c) /\
  (forall y mo w d h mi s,
      resolve_date c (SRel y mo w d h mi s) = Ok (today c + rel_seconds y mo w d h mi s / DAY)).
Proof. exact resolve_date_meaning. Qed.
Print Assumptions C11_resolve_date_meaning.

(* ------------------------------------------------------------------ datetime_between *)

(* normalisation keeps the instant the user wrote, for every specification (offsets included) *)
Theorem C11_instants_preserved :
  forall c sp ps, parse_datetimespec c sp = Ok ps ->
  exists s', datetime_fn c sp = Ok s' /\ instant s' = instant ps /\ off s' = Some 0.
Proof. exact datetime_fn_instant. Qed.
Print Assumptions C11_instants_preserved.

(* THE PROPERTY at full strength: every pair of bounds (absolute with offsets / fractional
   seconds, equal bounds, now / today, relative such as -30d or +1y), every draw, every
   presentation zone tz (None = timezone: False): start <= v <= end as the instants the user
   wrote; reversed bounds are a DataGenError.  The clock is an input: cs is the reading used when
   the start bound is resolved, ce the reading used for the end bound (the code reads the clock
   once per bound); the instants are those of C11_parse_datetimespec_meaning.  In the
   correspondence runs the harness freezes the clock (template_funcs' `datetime.now`) at one
   reading and passes that reading as cs = ce. *)
Theorem C11_datetime_between_bounds :
  forall cs ce s e tz num den ps pe,
  parse_datetimespec cs s = Ok ps -> parse_datetimespec ce e = Ok pe -> 0 <= num < den ->
  (instant pe < instant ps ->
     forall d, exists m, datetime_between cs ce s e tz d den = Err (DGE m)) /\
  (instant ps <= instant pe ->
     exists v o, datetime_between cs ce s e tz (Some num) den = Ok (v, o) /\
                 instant ps <= v <= instant pe /\ (o = tz \/ o = bound_zone tz)).
Proof. exact datetime_between_bounds. Qed.
Print Assumptions C11_datetime_between_bounds.

(* what a datetime bound denotes *)
Theorem C11_parse_datetimespec_meaning :
  forall c,
  (forall w o, exists ps, parse_datetimespec c (SStamp (mkStamp w o)) = Ok ps /\
                          instant ps = instant (mkStamp w o)) /\
  (forall d, exists ps, parse_datetimespec c (SDate d) = Ok ps /\ instant ps = d * DAYUS) /\
  (exists ps, parse_datetimespec c SToday = Ok ps /\ instant ps = today c * DAYUS) /\
  (exists ps, parse_datetimespec c SNow = Ok ps /\ instant ps = now_us c) /\
  (forall y mo w d h mi s, exists ps,
      parse_datetimespec c (SRel y mo w d h mi s) = Ok ps /\
      instant ps = now_us c + rel_seconds y mo w d h mi s * US).
Proof. exact parse_datetimespec_meaning. Qed.
Print Assumptions C11_parse_datetimespec_meaning.

(* relative bounds spelled out (-30d .. +1y): a = reading + offset, b = later reading + offset *)
Theorem C11_datetime_between_relative_bounds :
  forall cs ce y1 mo1 w1 d1 h1 mi1 s1 y2 mo2 w2 d2 h2 mi2 s2 tz num den,
  0 <= num < den ->
  let a := now_us cs + rel_seconds y1 mo1 w1 d1 h1 mi1 s1 * US in
  let b := now_us ce + rel_seconds y2 mo2 w2 d2 h2 mi2 s2 * US in
  (b < a -> forall d, exists m,
      datetime_between cs ce (SRel y1 mo1 w1 d1 h1 mi1 s1) (SRel y2 mo2 w2 d2 h2 mi2 s2) tz d den
      = Err (DGE m)) /\
  (a <= b -> exists v o,
      datetime_between cs ce (SRel y1 mo1 w1 d1 h1 mi1 s1) (SRel y2 mo2 w2 d2 h2 mi2 s2) tz
                       (Some num) den = Ok (v, o) /\ a <= v <= b).
Proof. exact datetime_between_relative. Qed.
Print Assumptions C11_datetime_between_relative_bounds.

(* independent of Faker: whatever value rc it returns, min(max(rc, start), end) is inside *)
Theorem C11_clamp_any_draw :
  forall rc lo hi tz, lo <= hi ->
  lo <= fst (clamp rc lo hi tz) <= hi /\
  (snd (clamp rc lo hi tz) = tz \/ snd (clamp rc lo hi tz) = bound_zone tz).
Proof. exact clamp_between. Qed.
Print Assumptions C11_clamp_any_draw.

(* the clamp is not what produces the values: on whole-second starts with the end in a later
   second the result is exactly Faker's draw *)
Theorem C11_datetime_between_unclamped :
  forall cs ce s e tz num den ps pe,
  parse_datetimespec cs s = Ok ps -> parse_datetimespec ce e = Ok pe -> 0 <= num < den ->
  instant ps mod US = 0 -> floor_sec (instant ps) < floor_sec (instant pe) ->
  datetime_between cs ce s e tz (Some num) den =
    Ok (faker_dt_between (floor_sec (instant ps)) (floor_sec (instant pe)) num den, tz).
Proof. exact datetime_between_unclamped. Qed.
Print Assumptions C11_datetime_between_unclamped.

(* regression for K13 (timezone: False raised after the clamp was introduced; 354b020) *)
Example C11_timezone_false_regression :
  let c := mkClock 0 0 in
  let s := mkStamp (w_10h + 900000) None in
  let e := mkStamp (w_10h + 3 * US) None in
  datetime_between c c (SStamp s) (SStamp e) None (Some 0) 1024 = Ok (instant s, None) /\
  datetime_between c c (SStamp s) (SStamp e) None (Some 512) 1024 = Ok (w_10h + 1500000, None).
Proof. exact regression_timezone_false. Qed.
Print Assumptions C11_timezone_false_regression.

(* regressions for the repaired defects: the old witnesses now satisfy the property *)
Example C11_offset_regression :      (* K4: start 10:00-05:00 = 15:00Z, end 18:00Z *)
  (let c := mkClock 0 0 in
   let s := mkStamp w_10h (Some (-18000)) in
   let e := mkStamp (w_10h + 8 * 3600 * US) (Some 0) in
   datetime_between c c (SStamp s) (SStamp e) (Some 0) (Some 0) 1024 = Ok (instant s, Some 0) /\
   datetime_between c c (SStamp s) (SStamp e) (Some 0) (Some 1023) 1024
     = Ok (instant e - 10546875, Some 0)) /\
  (let c := mkClock 0 0 in            (* start 10:00+05:00 = 05:00Z, end 06:00Z: accepted *)
   let s := mkStamp w_10h (Some 18000) in
   let e := mkStamp (w_10h - 4 * 3600 * US) (Some 0) in
   datetime_between c c (SStamp s) (SStamp e) (Some 0) (Some 512) 1024
     = Ok (instant s + 1800 * US, Some 0)).
Proof. split; [exact regression_offset | exact regression_offset_valid_range_accepted]. Qed.
Print Assumptions C11_offset_regression.

Example C11_equal_bounds_regression : (* K10 *)
  let c := mkClock 0 0 in
  let s := mkStamp w_10h None in
  datetime_between c c (SStamp s) (SStamp s) (Some 0) (Some 512) 1024 = Ok (instant s, Some 0).
Proof. exact regression_equal_bounds. Qed.
Print Assumptions C11_equal_bounds_regression.

Example C11_subsecond_start_regression : (* K11: start 10:00:00.9 *)
  let c := mkClock 0 0 in
  let s := mkStamp (w_10h + 900000) None in
  let e := mkStamp (w_10h + 5 * US) None in
  datetime_between c c (SStamp s) (SStamp e) (Some 0) (Some 0) 1024 = Ok (instant s, Some 0).
Proof. exact regression_subsecond_start. Qed.
Print Assumptions C11_subsecond_start_regression.

(* results of the date functions are accepted by the predicates used for free draws *)
Theorem C11_between_possible_sound :
  (forall c s e num den v,
     0 <= num < den -> run_fn (FDate c s e) (Some num) den = Ok v ->
     possible (FDate c s e) v = true) /\
  (forall cs ce s e tz num den v,
     0 <= num < den -> run_fn (FDateTime cs ce s e tz) (Some num) den = Ok v ->
     possible (FDateTime cs ce s e tz) v = true).
Proof. split; [exact date_between_possible | exact datetime_between_possible]. Qed.
Print Assumptions C11_between_possible_sound.

(* ------------------------------------------------------------------ round 3: blocks rendered row by row *)

(* random.choices only sees the ratios of the weights: a common positive factor changes nothing.
   This is what allows the model to compute with integer numerators. *)
Theorem C11_weighted_choice_scale_invariant :
  forall k ws opts d den, 0 < k ->
  weighted_choice (map (option_map (Z.mul k)) ws) opts d den = weighted_choice ws opts d den.
Proof. exact weighted_choice_scale. Qed.
Print Assumptions C11_weighted_choice_scale_invariant.

(* decimal weights (12.5, 0.25 ...): whichever common denominator 10^Q they are brought to *)
Theorem C11_common_denominator_irrelevant :
  forall ws Q opts d den, (max_places ws <= Q)%nat ->
  weighted_choice (scale_with Q ws) opts d den = weighted_choice (scale_weights ws) opts d den.
Proof. exact common_denominator_irrelevant. Qed.
Print Assumptions C11_common_denominator_irrelevant.

(* A `random_choice` block whose probabilities are literals or formulas of the row and whose picks
   are labels or formulas of the row, rendered for the row with key k: if the probabilities AS
   EVALUATED FOR THIS ROW all parse (parse_weight_str) to numbers >= 0, not all 0, then for every
   draw the result is the pick (as evaluated for this row) of an item at some position i whose
   probability text, as evaluated for this row, parses to a POSITIVE number.  The weights of
   another row (an earlier rendering of the same block) play no role: run_block is a function
   of the block, the row key and the draw. *)
Theorem C11_block_row_never_zero_weight :
  forall (b : block) k ds num den,
  parse_weights (block_toks k b) = Ok (map Some ds) ->
  Forall (fun d => 0 <= dnum d) ds -> Exists (fun d => 0 < dnum d) ds -> 0 <= num < den ->
  exists i it e d o,
    run_block b k (Some num) den = Ok o /\ nth_error b i = Some it /\ o = eval_pexpr k (snd it) /\
    fst it = Some e /\ parse_weight_str (eval_wexpr k e) = Ok d /\ nth_error ds i = Some d /\ 0 < dnum d.
Proof. exact block_row_support. Qed.
Print Assumptions C11_block_row_never_zero_weight.

(* all the weight of the row on item i0 (e.g. 0 / 100 / 0 in this row, 100 / 0 / 0 in the next):
   that item's pick, for every draw *)
Theorem C11_block_row_single_weight :
  forall (b : block) k ds num den i0,
  parse_weights (block_toks k b) = Ok (map Some ds) ->
  Forall (fun d => 0 <= dnum d) ds -> 0 <= num < den ->
  (exists d, nth_error ds i0 = Some d /\ 0 < dnum d) ->
  (forall j d, nth_error ds j = Some d -> 0 < dnum d -> j = i0) ->
  exists it, nth_error b i0 = Some it /\ run_block b k (Some num) den = Ok (eval_pexpr k (snd it)).
Proof. exact block_row_single. Qed.
Print Assumptions C11_block_row_single_weight.

(* ------------------------------------------------------------------ round 3: the text of a weight *)

(* what parse_weight_str reads from a probability written as a string: blanks, optional sign,
   integer digits, optional point and fraction digits, blanks, any number of trailing '%':
   sign * (the digits read as one number) / 10^(number of fraction digits); same numeral written
   as a YAML / Python float.  In particular the weight is 0 iff all digits are 0. *)
Theorem C11_weight_text_meaning :
  forall a b k sg ip fp, decimal_ok ip fp ->
  parse_weight_str (WStr (string_of_list_ascii
     (repeat " "%char a ++ decimal_text sg ip fp ++ repeat " "%char b ++ repeat "%"%char k)))
  = Ok (mkDec (sign_val sg * dval 0 (ip ++ fraction_digits fp)) (length (fraction_digits fp))) /\
  parse_weight_str (WFlt (string_of_list_ascii (decimal_text sg ip fp)))
  = Ok (mkDec (sign_val sg * dval 0 (ip ++ fraction_digits fp)) (length (fraction_digits fp))).
Proof.
  intros a b k sg ip fp H. split;
    [exact (parse_weight_str_text a b k sg ip fp H)|exact (parse_weight_flt_text sg ip fp H)].
Qed.
Print Assumptions C11_weight_text_meaning.

(* ------------------------------------------------------------------ round 3: the text of the bounds *)

(* relative bounds (Faker's pattern, fullmatch): one optional group per unit in the order
   y M w d h m s, each `sign digits unit`: every written group is read as sign * digits, absent
   groups as 0 *)
Theorem C11_relative_text_meaning :
  forall g0 g1 g2 g3 g4 g5 g6,
  Forall slot_ok [g0; g1; g2; g3; g4; g5; g6] ->
  parse_rel (rel_text rel_units [g0; g1; g2; g3; g4; g5; g6])
  = Some (map slot_val [g0; g1; g2; g3; g4; g5; g6]) /\
  (rel_text rel_units [g0; g1; g2; g3; g4; g5; g6] <> [] ->
   spec_of_text (string_of_list_ascii (rel_text rel_units [g0; g1; g2; g3; g4; g5; g6]))
   = SRel (slot_z g0) (slot_z g1) (slot_z g2) (slot_z g3) (slot_z g4) (slot_z g5) (slot_z g6)).
Proof.
  intros g0 g1 g2 g3 g4 g5 g6 H. split.
  - exact (parse_rel_text _ H eq_refl).
  - exact (spec_of_text_relative g0 g1 g2 g3 g4 g5 g6 H).
Qed.
Print Assumptions C11_relative_text_meaning.

(* a larger count of any unit never gives an earlier instant (datetime_between) or day
   (date_between); with C11_parse_datetimespec_meaning / C11_resolve_date_meaning: the bound is
   the clock reading + rel_seconds, resp. today + rel_days *)
Theorem C11_relative_monotone :
  forall y mo w d h mi s y' mo' w' d' h' mi' s',
  y <= y' -> mo <= mo' -> w <= w' -> d <= d' -> h <= h' -> mi <= mi' -> s <= s' ->
  rel_seconds y mo w d h mi s <= rel_seconds y' mo' w' d' h' mi' s' /\
  rel_days y mo w d h mi s <= rel_days y' mo' w' d' h' mi' s'.
Proof. exact rel_seconds_mono. Qed.
Print Assumptions C11_relative_monotone.

(* the day number the model computes for a calendar date: the next day of the calendar (next day
   of the month, first of the next month, 1 January of the next year; leap years per the Gregorian
   rule) is the next number, for every year *)
Theorem C11_calendar_next_day :
  forall y m d, valid_md y m d ->
  (d < days_in_month y m -> days_of_civil y m (d + 1) = days_of_civil y m d + 1) /\
  (d = days_in_month y m -> m < 12 -> days_of_civil y (m + 1) 1 = days_of_civil y m d + 1) /\
  (d = days_in_month y m -> m = 12 -> days_of_civil (y + 1) 1 1 = days_of_civil y m d + 1).
Proof. exact days_of_civil_next. Qed.
Print Assumptions C11_calendar_next_day.

(* ... and it is strictly increasing in the calendar order: bounds are compared as the user wrote them *)
Theorem C11_calendar_monotone :
  forall y m d y' m' d', valid_md y m d -> valid_md y' m' d' -> ymd_lt y m d y' m' d' ->
  days_of_civil y m d < days_of_civil y' m' d'.
Proof. exact days_of_civil_mono. Qed.
Print Assumptions C11_calendar_monotone.

(* a bound written YYYY-MM-DD is that day *)
Theorem C11_iso_date_text_meaning :
  forall y4 m2 d2,
  fields_ok [(y4, 4%nat); (m2, 2%nat); (d2, 2%nat)] ->
  valid_date (dval 0 y4) (dval 0 m2) (dval 0 d2) = true ->
  spec_of_text (string_of_list_ascii (iso_date_text y4 m2 d2 []))
  = SDate (days_of_civil (dval 0 y4) (dval 0 m2) (dval 0 d2)).
Proof. exact spec_of_text_date. Qed.
Print Assumptions C11_iso_date_text_meaning.

(* a bound written YYYY-MM-DD(T| )HH:MM:SS[.f{1,6}][Z|+HH:MM|-HH:MM] denotes, for datetime_between,
   the instant: that reading of the clock minus the written offset (no offset: UTC) *)
Theorem C11_iso_datetime_text_instant :
  forall c y4 m2 d2 sep h2 mi2 s2 f z,
  fields_ok [(y4, 4%nat); (m2, 2%nat); (d2, 2%nat); (h2, 2%nat); (mi2, 2%nat); (s2, 2%nat)] ->
  is_sep sep = true -> frac_ok f -> zone_ok z ->
  valid_date (dval 0 y4) (dval 0 m2) (dval 0 d2) = true ->
  valid_time (dval 0 h2) (dval 0 mi2) (dval 0 s2) = true ->
  exists ps,
    parse_datetimespec c (spec_of_text (string_of_list_ascii
       (iso_date_text y4 m2 d2 (iso_time_text sep h2 mi2 s2 f z)))) = Ok ps /\
    instant ps = (days_of_civil (dval 0 y4) (dval 0 m2) (dval 0 d2) * DAY
                  + dval 0 h2 * 3600 + dval 0 mi2 * 60 + dval 0 s2) * US + frac_val f
                 - match zone_val z with Some o => o * US | None => 0 end.
Proof. exact datetime_text_instant. Qed.
Print Assumptions C11_iso_datetime_text_instant.

(* the property for bounds given as the texts the user wrote *)
Theorem C11_datetime_between_text_bounds :
  forall cs ce ts te tz num den ps pe,
  parse_datetimespec cs (spec_of_text ts) = Ok ps -> parse_datetimespec ce (spec_of_text te) = Ok pe ->
  0 <= num < den -> instant ps <= instant pe ->
  exists v o, datetime_between cs ce (spec_of_text ts) (spec_of_text te) tz (Some num) den = Ok (v, o) /\
              instant ps <= v <= instant pe.
Proof.
  intros cs ce ts te tz num den ps pe Hs He Hnum Hle.
  destruct (datetime_between_bounds cs ce _ _ tz num den ps pe Hs He Hnum) as (_ & H).
  destruct (H Hle) as (v & o & Hr & Hb & _). exists v, o. split; assumption.
Qed.
Print Assumptions C11_datetime_between_text_bounds.

(* ------------------------------------------------------------------ non-vacuity *)

Example C11_ex_number : random_number 1 10 3 (Some 3) = Ok 10 /\ random_number 1 10 3 (Some 0) = Ok 1
                        /\ randrange_n 1 11 3 = Ok 4.
Proof. vm_compute. repeat split. Qed.

Example C11_ex_number_big :
  random_number (- 2 ^ 70) (2 ^ 70) 7 (Some 337311891633546086692) = Ok (2 ^ 70 - 4).
Proof. vm_compute. reflexivity. Qed.

Example C11_ex_choice_dict :   (* weights 50, 0, 12.5 in quarters; random() = 1023/1024 *)
  random_choice (RCDict [(1, 200); (2, 0); (3, 50)]) (Some 1023) 1024 = Ok 3 /\
  random_choice (RCDict [(1, 200); (2, 0); (3, 50)]) (Some 0) 1024 = Ok 1 /\
  random_choice (RCDict [(1, 0); (2, 40); (3, 0)]) (Some 1023) 1024 = Ok 2.
Proof. vm_compute. repeat split. Qed.

Example C11_ex_date :          (* 2024-02-28 .. 2024-03-01 = days 19781 .. 19783 *)
  date_between (mkClock 0 20000) (SDate 19781) (SDate 19783) (Some 1023) 1024 = Ok (Some 19782) /\
  date_between (mkClock 0 20000) (SRel 0 0 0 (-30) 0 0 0) (SRel 1 0 0 0 0 0 0) (Some 0) 1024
    = Ok (Some 19970) /\
  date_between (mkClock 0 20000) (SDate 5) (SDate 3) (Some 0) 1024 = Ok None.
Proof. vm_compute. repeat split. Qed.

Example C11_ex_datetime :
  datetime_between (mkClock 0 0) (mkClock 0 0) (SStamp (mkStamp w_10h None))
                   (SStamp (mkStamp (w_10h + 7200 * US) None)) (Some 18000) (Some 1023) 1024
  = Ok (w_10h + 7192968750, Some 18000).
Proof. vm_compute. reflexivity. Qed.

Example C11_ex_datetime_relative :   (* -30d .. +1y at the reading 2023-01-01T10:00:00.25Z *)
  datetime_between (mkClock (w_10h + 250000) 19358) (mkClock (w_10h + 250000) 19358)
                   (SRel 0 0 0 (-30) 0 0 0) (SRel 1 0 0 0 0 0 0) (Some 0) (Some 0) 1024
  = Ok (w_10h + 250000 - 30 * 86400 * US, Some 0).
Proof. vm_compute. reflexivity. Qed.

(* the block of notes/missed/r3_C11_1: a literal 0 and two formulas alternating between 0 and 100
   with the parity of the row: every row gets the option that carries all the weight in THAT row *)
Example C11_ex_block_mixed :
  let b := [(Some (WLit (WInt 0)), PLab 1);
            (Some (WByKey [(0, WInt 100)] (WStr "0%")), PLab 2);
            (Some (WByKey [(0, WFlt "0.0")] (WStr " +100.0 %")), PKey 1000)] in
  run_block b 0 (Some 0) 1024 = Ok 2 /\ run_block b 0 (Some 1023) 1024 = Ok 2 /\
  run_block b 1 (Some 0) 1024 = Ok 1001 /\ run_block b 1 (Some 1023) 1024 = Ok 1001 /\
  run_block b 2 (Some 512) 1024 = Ok 1002.
Proof. vm_compute. repeat split. Qed.

Example C11_ex_weight_text :
  parse_weight_str (WStr " +012.50 %%") = Ok (mkDec 1250 2) /\
  parse_weight_str (WStr "60%") = Ok (mkDec 60 0) /\ parse_weight_str (WFlt "-0.25") = Ok (mkDec (-25) 2) /\
  parse_weight_str (WStr "5%5") = Err (Internal "ValueError") /\ parse_weight_str (WStr "") = Err (Internal "ValueError") /\
  scale_weights [Some (mkDec 125 1); None; Some (mkDec 25 2); Some (mkDec 3 0)] = [Some 1250; None; Some 25; Some 300].
Proof. vm_compute. repeat split. Qed.

Example C11_ex_text_bounds :
  spec_of_text "-30d" = SRel 0 0 0 (-30) 0 0 0 /\ spec_of_text "+1y" = SRel 1 0 0 0 0 0 0 /\
  spec_of_text "-2w+3h" = SRel 0 0 (-2) 0 3 0 0 /\ spec_of_text "+1d+1y" = SUnsup /\
  spec_of_text "2024-02-29" = SDate 19782 /\ spec_of_text "2023-02-29" = SBad /\
  spec_of_text "2024-02-29T10:00:00-05:00" = SStamp (mkStamp 1709200800000000 (Some (-18000))) /\
  spec_of_text "1970-01-01 00:00:01.5Z" = SStamp (mkStamp 1500000 (Some 0)) /\
  value_of_text "2024-02-29T15:00:00+00:00" = VDT 1709218800000000 (Some 0) /\
  days_of_civil 1970 1 1 = 0 /\ days_of_civil 1 1 1 = -719162.
Proof. vm_compute. repeat split. Qed.

(* ------------------------------------------------------------------ round 5: the source of the draws *)

(* "Attainable" is about what the user's processes can draw.  For a fixed recipe and position of the run
   the draw is a function of the entropy the process started with (RandFuncs.number_at / values_over).
   The check runs the recipe in several fresh processes and looks at each position:
   the values are equal in all processes exactly when the draws are (random_number is injective in the draw) ... *)
Theorem C11_stuck_values_iff_stuck_draws :
  forall mn mx step draw es, mn <= mx -> 1 <= step ->
  (forall e, In e es -> 0 <= draw e < (mx - mn) / step + 1) ->
  (stuck (number_at mn mx step draw) es <-> stuck draw es).
Proof. exact stuck_values_iff_stuck_draws. Qed.
Print Assumptions C11_stuck_values_iff_stuck_draws.

(* ... a position whose draw no longer depends on the process (the generator was re-seeded with a constant
   before it) shows one lattice point only: for every lattice with at least two points and every list of
   processes, the two ends are never both produced ... *)
Theorem C11_reseeded_source_misses_an_end :
  forall mn mx step draw es, mn + step <= mx -> 1 <= step -> stuck draw es ->
  ~ (In (Ok mn) (values_over mn mx step draw es) /\
     In (Ok (mx - (mx - mn) mod step)) (values_over mn mx step draw es)).
Proof. exact reseeded_source_misses_an_end. Qed.
Print Assumptions C11_reseeded_source_misses_an_end.

(* ... whereas a source that can deliver the lowest and the highest draw shows both ends in two processes. *)
Theorem C11_free_source_reaches_both_ends :
  forall mn mx step draw e0 e1, mn <= mx -> 1 <= step -> draw e0 = 0 -> draw e1 = (mx - mn) / step ->
  values_over mn mx step draw [e0; e1] = [Ok mn; Ok (mx - (mx - mn) mod step)].
Proof. exact free_source_reaches_both_ends. Qed.
Print Assumptions C11_free_source_reaches_both_ends.

(* non-vacuity: the demo of notes/missed/r5_C11_3 (random_number(1, 2) after a unique_id: every process draws 0)
   against a free source *)
Example C11_ex_source :
  values_over 1 2 1 (fun _ => 0) [11; 12; 13] = [Ok 1; Ok 1; Ok 1] /\
  values_over 1 2 1 (fun e => e mod 2) [11; 12; 13] = [Ok 2; Ok 1; Ok 2] /\
  values_over 1 10 3 (fun e => e) [0; 3] = [Ok 1; Ok 10].
Proof. vm_compute. repeat split. Qed.
