(* C04 — stop-and-continue is invisible: split runs equal one uninterrupted run.
   Model: theories/Interp.v (save, load, run_one, run_history).
   PROVED here (partial): the id part of the statement for every recipe of the fragment and
   every composition k = k1+...+km — ids resume exactly where they stopped, every run writes
   exactly its own next block of ids, so per table the split history issues the same id set
   1..n as any other history of the same recipe that ends with the same counters; just_once
   bindings are not re-created by a continued run and keep table and id through the file.
   NOT proved: row-for-row equality of split and unsplit outputs (the simulation
   `load (save s) ~ s` over all evaluator steps, stated below as the goal).  That equality is
   decided on every run by the differential of harness/c04.py against the implementation
   and against this model's run_history.

   Goal statement (not a theorem of this file):
     forall r ks outs, persistable r -> run_history r ks None = Ok outs ->
       run_history r [sum ks] None = Ok [concat outs].                                   *)
From Coq Require Import ZArith List Permutation.
From SFV Require Import Base Interp.
From SFV.P Require Import InterpP InterpHeapP IdsP RefsP OnceP.
Import ListNotations. Open Scope Z_scope. Open Scope string_scope.

(* a continued run resumes numbering immediately after the highest id in the file *)
Theorem C04_ids_resume_partial :
  forall e s c T, save s = Ok c -> last_id (load e c) T = last_id s T.
Proof. exact resume_after_highest. Qed.
Print Assumptions C04_ids_resume_partial.

(* whatever the composition, the history's ids per visible table are exactly 1..n *)
Theorem C04_split_ids_dense_partial :
  forall (r : recipe) (ks : list nat) (rowss : list (list orow)),
    run_history r ks None = Ok rowss ->
    forall T, hidden T = false -> exists n, Permutation (written T (concat rowss)) (Zseq 1 n).
Proof. exact ids_dense_history. Qed.
Print Assumptions C04_split_ids_dense_partial.

(* each run of the chain writes exactly the next block of ids of every visible table *)
Theorem C04_each_run_next_block_partial :
  forall e stmts c k s0 s,
    start_ok s0 -> iterations k e stmts c s0 = Ok s ->
    start_ok (upd_out s []) /\
    forall T, last_id s0 T <= last_id s T /\
      (hidden T = false ->
       Permutation (written T (out s))
                   (Zseq (last_id s0 T + 1) (Z.to_nat (last_id s T - last_id s0 T)))).
Proof. exact ids_dense_run. Qed.
Print Assumptions C04_each_run_next_block_partial.

(* a continued run never re-creates or re-binds just_once rows *)
Theorem C04_continued_run_keeps_singletons_partial :
  forall k e stmts s s',
    once_top_only stmts = true -> iterations k e stmts true s = Ok s' ->
    same_persist s s' /\ heap_ext s s'.
Proof. exact later_iterations_keep_singletons_k. Qed.
Print Assumptions C04_continued_run_keeps_singletons_partial.

(* references written by a continued run resolve inside the run or to an id recorded in the file *)
Theorem C04_continued_refs_resolve_partial :
  forall r k s c s',
    Bd s -> save s = Ok c ->
    (forall T, 0 <= match lookup T (k_ids c) with Some z => z | None => 0 end) ->
    run_one r k (Some c) = Ok s' ->
    forall row n T i, In row (out s') -> In (n, ORef T i) (snd row) -> hidden T = false ->
      (1 <= i <= last_id s T) \/ exists row', In row' (out s') /\ fst row' = T /\ orow_id row' = [i].
Proof. exact no_dangling_continued. Qed.
Print Assumptions C04_continued_refs_resolve_partial.

(* non-vacuity and the shape of the goal on a concrete recipe: 1+2 = 3 *)
Definition ex4 : recipe :=
  mkRecipe 3 []
    [SObj (Tpl "J" (Some "jj") None true [("n", FLitInt 7)] []);
     SObj (Tpl "A" None (Some (FLitInt 2)) false
            [("a", FRef "jj"); ("b", FFormula [PExpr (EAdd (EAttr (EVar "jj") "n") (EVar "id"))])] [])].

Example C04_ex_split_eq_unsplit :
  match run_history ex4 [1; 2]%nat None, run_history ex4 [3]%nat None with
  | Ok split, Ok [whole] => list_eqb orow_eqb (concat split) whole
  | _, _ => false
  end = true.
Proof. vm_compute. reflexivity. Qed.
