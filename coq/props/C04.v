(* C04 — stop-and-continue is invisible: split runs equal one uninterrupted run.
   Model: theories/Interp.v (save, load, run_one, run_history).  Proofs: proofs/ContP.v.

   PROVED for every recipe of the SF-core fragment that has no top-level `var` statements
   and whose just_once rows hold only scalars at every cut ([cuts_persistable]: the documented
   persistent state; rows holding references are the known findings K1 / K2), for every k and
   every composition k = k1+...+km with all ki >= 1:  the concatenation of the runs' outputs
   equals the output of the single run, and a continued run completes whenever the
   uninterrupted run does.  The two premises are exactly the statement's "recipes whose
   cross-iteration state is only what Snowfakery documents as persistent": a top-level
   variable survives from one iteration to the next inside a run but not across a
   continuation (both in the code and in the model).
   Recipes with random functions are outside the modelled fragment; for them the id /
   count / reference-table half of the statement is covered by the `_partial` theorems
   below only as far as the fragment goes.                                                *)
From Coq Require Import ZArith List Permutation.
From SFV Require Import Base RandRange RowHistory Interp.
From SFV.P Require Import InterpP InterpHeapP IdsP RefsP OnceP ContP.
Import ListNotations. Open Scope Z_scope. Open Scope string_scope.

(* the main statement *)
Theorem C04_split_eq_unsplit :
  forall (r : recipe) (ks : list nat) (rowss : list (list orow)),
    hist_tables (env_of r) = [] ->           (* the recipe has no random_reference *)
    forallb is_obj (r_stmts r) = true -> all_positive ks -> ks <> [] ->
    cuts_persistable (env_of r) (r_stmts r) ks false (init_st (env_of r) (r_draws r)) ->
    run_history r ks None = Ok rowss ->
    run_history r [fold_right Nat.add 0%nat ks] None = Ok [concat rowss].
Proof. exact split_eq_unsplit. Qed.
Print Assumptions C04_split_eq_unsplit.

(* a continued run never fails where the uninterrupted run completes *)
Theorem C04_continuation_never_fails :
  forall r k1 k2 sF,
    hist_tables (env_of r) = [] ->
    forallb is_obj (r_stmts r) = true ->
    run_fresh r (S k1 + k2) = Ok sF ->
    exists s1, run_fresh r (S k1) = Ok s1 /\
      (persistable s1 ->
       exists rows2, run_history r [S k1; k2] None = Ok [rows_of s1; rows2] /\
                     rows_of sF = (rows_of s1 ++ rows2)%list).
Proof. exact continuation_never_fails. Qed.
Print Assumptions C04_continuation_never_fails.

(* the three facts the proof rests on *)
Theorem C04_output_is_write_only :
  forall fuel e tk s o, run fuel e tk (app_out o s) = liftA o (run fuel e tk s).
Proof. exact run_app. Qed.
Print Assumptions C04_output_is_write_only.

Theorem C04_frames_restored :
  forall fuel e tk s s' r,
    run fuel e tk s = Ok (s', r) -> frames s <> [] ->
    tl (frames s') = tl (frames s) /\ frames s' <> [] /\ (whole tk = true -> frames s' = frames s).
Proof. exact run_frames. Qed.
Print Assumptions C04_frames_restored.

Theorem C04_load_after_save_is_identity :
  forall e s, boundary e s -> persistable s ->
    exists c, save s = Ok c /\ load e c = Ok (upd_out s []).
Proof. exact save_load_id. Qed.
Print Assumptions C04_load_after_save_is_identity.

(* a continued run resumes numbering immediately after the highest id in the file *)
Theorem C04_ids_resume_partial :
  forall e s c s0 T, save s = Ok c -> load e c = Ok s0 -> last_id s0 T = last_id s T.
Proof. exact resume_after_highest. Qed.
Print Assumptions C04_ids_resume_partial.

(* whatever the composition, the history's ids per visible table are exactly 1..n *)
Theorem C04_split_ids_dense_partial :
  forall (r : recipe) (ks : list nat) (rowss : list (list orow)),
    run_history r ks None = Ok rowss ->
    forall T, hidden T = false -> exists n, Permutation (written T (concat rowss)) (Zseq 1 n).
Proof. exact ids_dense_history. Qed.
Print Assumptions C04_split_ids_dense_partial.

(* each run of the chain writes exactly the next block of ids of every visible table *)
Theorem C04_each_run_next_block_partial :
  forall e stmts c k s0 s,
    start_ok s0 -> iterations k e stmts c s0 = Ok s ->
    start_ok (upd_out s []) /\
    forall T, last_id s0 T <= last_id s T /\
      (hidden T = false ->
       Permutation (written T (out s))
                   (Zseq (last_id s0 T + 1) (Z.to_nat (last_id s T - last_id s0 T)))).
Proof. exact ids_dense_run. Qed.
Print Assumptions C04_each_run_next_block_partial.

(* a continued run never re-creates or re-binds just_once rows *)
Theorem C04_continued_run_keeps_singletons_partial :
  forall k e stmts s s',
    once_top_only stmts = true -> iterations k e stmts true s = Ok s' ->
    same_persist s s' /\ heap_ext s s'.
Proof. exact later_iterations_keep_singletons_k. Qed.
Print Assumptions C04_continued_run_keeps_singletons_partial.

(* references written by a continued run resolve inside the run or to an id recorded in the file *)
Theorem C04_continued_refs_resolve_partial :
  forall r k s c s',
    Bd s -> V s -> save s = Ok c ->
    run_one r k (Some c) = Ok s' ->
    forall row n T i, In row (out s') -> In (n, ORef T i) (snd row) -> hidden T = false ->
      (1 <= i <= last_id s T) \/ exists row', In row' (out s') /\ fst row' = T /\ orow_id row' = [i].
Proof. exact no_dangling_continued. Qed.
Print Assumptions C04_continued_refs_resolve_partial.

(* non-vacuity and the shape of the goal on a concrete recipe: 1+2 = 3 *)
Definition ex4 : recipe :=
  mkRecipe 3 []
    [SObj (Tpl "J" (Some "jj") None true [("n", FLitInt 7)] []);
     SObj (Tpl "A" None (Some (FLitInt 2)) false
            [("a", FRef "jj"); ("b", FFormula [PExpr (EAdd (EAttr (EVar "jj") "n") (EVar "id"))])] [])] [].

Example C04_ex_premises :
  hist_tables (env_of ex4) = [] /\ forallb is_obj (r_stmts ex4) = true /\ all_positive [1; 2]%nat.
Proof. split; [reflexivity|split; [reflexivity|repeat constructor]]. Qed.

Example C04_ex_split_eq_unsplit :
  match run_history ex4 [1; 2]%nat None, run_history ex4 [3]%nat None with
  | Ok split, Ok [whole] => list_eqb orow_eqb (concat split) whole
  | _, _ => false
  end = true.
Proof. vm_compute. reflexivity. Qed.

(* the semantic premise is satisfiable: at the cut of 1+2 the just_once row of ex4 holds scalars *)
Example C04_ex_cuts_persistable :
  cuts_persistable (env_of ex4) (r_stmts ex4) [1; 2]%nat false (init_st (env_of ex4) (r_draws ex4)).
Proof.
  cbn [cuts_persistable]. intros s H.
  remember (iterations 1 (env_of ex4) (r_stmts ex4) false (init_st (env_of ex4) (r_draws ex4))) as res eqn:Er.
  vm_compute in Er. subst res. injection H as <-. split.
  - unfold persistable. cbn. intros h [<-|[<-|[]]]; eexists; split; reflexivity.
  - intros c1 s1 _ _. exact I.
Qed.
