(* C04 — placeholder statements while the simulation proof is being written *)
From SFV Require Import Base Interp.
Theorem C04_placeholder : True. Proof. exact I. Qed.
