(* C14 — composition features are transparent: include_file, macros and options.
   Model: theories/Macros.v (snowfakery/parse_recipe_yaml.py: _dedupe_field_list, include_macro,
   parse_inclusions, parse_object_template, parse_included_files, parse_top_level_elements,
   parse_file, parse_recipe; snowfakery/data_generator.py: merge_options).
   Only statements here; proofs live in proofs/MacrosP.v.
   P = field definitions, F = friend statements, V = option values: arbitrary types, so every
   theorem holds for every definition / every value (0, false, "" included).              *)
From Coq Require Import List Bool Relations.
From SFV Require Import Base Macros.
From SFV.P Require Import MacrosP.
Import ListNotations. Open Scope string_scope. Open Scope list_scope.

(* _dedupe_field_list: each name once, at the position of its FIRST occurrence, with the
   definition of its LAST occurrence. *)
Theorem C14_dedupe_spec :
  forall (P : Type) (l : list (string * P)),
    NoDup (names (dedupe l)) /\
    names (dedupe l) = first_occurrences (names l) /\
    forall n, lookup n (dedupe l) = last_lookup n l.
Proof. exact dedupe_spec. Qed.
Print Assumptions C14_dedupe_spec.

(* A field list without repeated names is left exactly as written. *)
Theorem C14_dedupe_identity :
  forall (P : Type) (l : list (string * P)), NoDup (names l) -> dedupe l = l.
Proof. exact dedupe_NoDup_id. Qed.
Print Assumptions C14_dedupe_identity.

(* A template that `include`s macros parses to: the raw fields of the (transitively) included
   macros in inclusion order — for each macro its own includes first, then its own fields —
   followed by the template's own fields, de-duplicated once; friends likewise (no de-dup).
   The de-duplication that include_macro performs at every nesting level changes nothing.
   Errors (unknown macro, cycle) are the same on both sides. *)
Theorem C14_macro_inline_eq :
  forall (P F : Type) (env : menv P F) t inc own fro,
    parse_stmt env (SObj t inc own fro) =
    (do '(raw, fr) <- flat_includes env inc; Ok (PObj t (dedupe (raw ++ own)) (fr ++ fro))).
Proof. exact macro_inline_eq. Qed.
Print Assumptions C14_macro_inline_eq.

(* ... i.e. it is the template that has those fields written first and no `include`. *)
Theorem C14_macro_inline_template :
  forall (P F : Type) (env : menv P F) t inc own fro raw fr,
    flat_includes env inc = Ok (raw, fr) ->
    parse_stmt env (SObj t inc own fro) = parse_stmt env (SObj t [] (raw ++ own) (fr ++ fro)).
Proof. exact macro_inline_template. Qed.
Print Assumptions C14_macro_inline_template.

(* Each field once; order = first occurrences over (macro fields, then own fields); the
   template's own definition overrides every macro, otherwise the LAST macro definition (in
   inclusion order) wins; friends of the macros come first. *)
Theorem C14_macro_override_order :
  forall (P F : Type) (env : menv P F) t inc own fro raw fr fs frs,
    flat_includes env inc = Ok (raw, fr) ->
    parse_stmt env (SObj t inc own fro) = Ok (PObj t fs frs) ->
    NoDup (names fs) /\
    names fs = first_occurrences (names raw ++ names own) /\
    (forall n, lookup n fs =
               match last_lookup n own with Some v => Some v | None => last_lookup n raw end) /\
    frs = fr ++ fro.
Proof. exact macro_fields_spec. Qed.
Print Assumptions C14_macro_override_order.

(* `include: a, b` = raw fields of a, then raw fields of b (so b overrides a). *)
Theorem C14_macro_include_list :
  forall (P F : Type) (env : menv P F) ns1 ns2,
    flat_includes env (ns1 ++ ns2) =
    (do '(a, b) <- flat_includes env ns1; do '(a', b') <- flat_includes env ns2;
     Ok (a ++ a', b ++ b')).
Proof. exact flat_includes_app. Qed.
Print Assumptions C14_macro_include_list.

(* Factoring leading fields with distinct names into macros gives literally the same template. *)
Theorem C14_macro_disjoint_inline :
  forall (P F : Type) (env : menv P F) t inc own fro raw fr,
    flat_includes env inc = Ok (raw, fr) -> NoDup (names (raw ++ own)) ->
    parse_stmt env (SObj t inc own fro) = Ok (PObj t (raw ++ own) (fr ++ fro)).
Proof. exact macro_disjoint_inline. Qed.
Print Assumptions C14_macro_disjoint_inline.

(* The recursion depth used by the model (number of macro definitions + 1) always suffices:
   the fuel never runs out and more fuel gives the same answer. *)
Theorem C14_macro_fuel_sufficient :
  forall (P F : Type) (env : menv P F) fuel name,
    (macro_fuel env <= fuel)%nat ->
    expand fuel env [] name = expand (macro_fuel env) env [] name /\
    expand (macro_fuel env) env [] name <> Err OutOfFuel.
Proof. intros P F env fuel name. exact (@expand_fuel_enough P F env fuel name). Qed.
Print Assumptions C14_macro_fuel_sufficient.

(* A template that reaches, through its includes, a macro that (transitively) includes itself is
   rejected with a recipe error — never accepted, never an endless expansion. *)
Theorem C14_macro_cycle_rejected :
  forall (P F : Type) (env : menv P F) t inc own fro n0 a,
    In n0 inc -> clos_refl_trans _ (calls env) n0 a -> clos_trans _ (calls env) a a ->
    exists k, parse_stmt env (SObj t inc own fro) = Err (DGE k).
Proof. exact macro_cycle_rejected. Qed.
Print Assumptions C14_macro_cycle_rejected.

Theorem C14_macro_unknown_rejected :
  forall (P F : Type) (env : menv P F) t inc own fro n,
    In n inc -> find_macro n env = None ->
    exists k, parse_stmt env (SObj t inc own fro) = Err (DGE k).
Proof. exact macro_unknown_rejected. Qed.
Print Assumptions C14_macro_unknown_rejected.

(* Template parsing fails only with a recipe error (the model's fuel is never the reason). *)
Theorem C14_parse_stmt_errors :
  forall (P F : Type) (env : menv P F) s e, parse_stmt env s = Err e -> exists k, e = DGE k.
Proof. exact parse_stmt_err. Qed.
Print Assumptions C14_parse_stmt_errors.

(* include_file: the statements, option declarations and macros of an included file come before
   everything else the including file contributes. *)
Theorem C14_include_prepend :
  forall (P F V : Type) (g : file P F V) incs opts macs stmts,
    flatten (File (Some g :: incs) opts macs stmts) =
    (do '(s1, o1, m1) <- flatten g;
     do '(s2, o2, m2) <- flatten (File incs opts macs stmts);
     Ok (s1 ++ s2, o1 ++ o2, m1 ++ m2)).
Proof. exact include_prepend. Qed.
Print Assumptions C14_include_prepend.

(* Moving the leading statements / options / macros of a file into a file pulled in with
   include_file (the last — or only — include_file of that file) does not change the parse
   result, whatever macros either file defines or uses. *)
Theorem C14_include_inline_eq :
  forall (P F V : Type) incs (g : file P F V) opts macs stmts s1 o1 m1,
    flatten g = Ok (s1, o1, m1) ->
    parse_recipe (File (incs ++ [Some g]) opts macs stmts) =
    parse_recipe (File incs (o1 ++ opts) (m1 ++ macs) (s1 ++ stmts)).
Proof.
  intros. apply parse_recipe_flatten. apply include_last_inline. assumption.
Qed.
Print Assumptions C14_include_inline_eq.

(* Any tree of files is equivalent to the single file holding its flattened content. *)
Theorem C14_include_single_file :
  forall (P F V : Type) (f : file P F V) s o m,
    flatten f = Ok (s, o, m) -> parse_recipe f = parse_recipe (File [] o m s).
Proof. exact parse_recipe_single_file. Qed.
Print Assumptions C14_include_single_file.

(* merge_options, for every value type V and every value (0, False, "" and None included):
   (1) a declared option the user supplied has exactly the supplied value;
   (2) otherwise it has the default of its (last) declaration;
   (3) the merge fails — with a recipe error — iff some declaration has neither. *)
Theorem C14_option_rule :
  forall (V : Type) (decls : list (optdecl V)) (user plugin : dict V),
    (forall o extra n v,
        merge_options decls user plugin = Ok (o, extra) ->
        In n (map (@o_name V) decls) -> lookup n user = Some v -> lookup n o = Some v) /\
    (forall o extra n d,
        merge_options decls user plugin = Ok (o, extra) ->
        last_decl n decls = Some d -> lookup n user = None -> lookup n o = o_default d) /\
    ((exists e, merge_options decls user plugin = Err e) <->
     (exists d, In d decls /\ lookup (o_name d) user = None /\ o_default d = None)) /\
    (forall e, merge_options decls user plugin = Err e -> exists k, e = DGE k).
Proof.
  intros V decls user plugin. repeat match goal with |- _ /\ _ => split end.
  - intros o extra n v. exact (@option_user_wins V decls user plugin o extra n v).
  - intros o extra n d H Hd Hu.
    rewrite (@option_value V decls user plugin o extra n d H Hd), Hu. reflexivity.
  - exact (option_error_iff decls user plugin).
  - intros e. exact (@option_error_kind V decls user plugin e).
Qed.
Print Assumptions C14_option_rule.

(* an option declared once: its declaration is the one that counts *)
Theorem C14_option_declared_once :
  forall (V : Type) (decls : list (optdecl V)) d,
    NoDup (map (@o_name V) decls) -> In d decls -> last_decl (o_name d) decls = Some d.
Proof. exact last_decl_unique. Qed.
Print Assumptions C14_option_declared_once.

(* options the user passed that no declaration (and no plugin option) mentions are reported as
   extra (a warning in generate()), nothing else *)
Theorem C14_option_extras :
  forall (V : Type) (decls : list (optdecl V)) user plugin o extra k,
    merge_options decls user plugin = Ok (o, extra) ->
    (In k extra <-> In k (names user) /\ ~ In k (names o)).
Proof. exact option_extras. Qed.
Print Assumptions C14_option_extras.

(* ---- the `include:` string (parse_inclusions) ---- *)
(* Writing macro names separated by commas, with any white space around the names and any number of
   empty items (", ,", trailing comma), includes exactly those names, in the order written. *)
Theorem C14_include_string_split :
  forall items : list (string * string * string),
    Forall (fun it => let '(l, n, r) := it in
                      all_ws l = true /\ all_ws r = true /\ (n = "" \/ clean_name n)) items ->
    split_includes (join_includes items) = filter nonempty (map (fun it => snd (fst it)) items).
Proof. exact split_includes_join. Qed.
Print Assumptions C14_include_string_split.

(* ---- names seen by formulas (EvaluationNamespace.field_vars) ---- *)
(* ${{n}} evaluates to the entry of the closest scope that defines n: standard functions, then
   variables, plugins, the fields of the current row, object names (tables, nicknames, forward
   references), the options, and last the built-in names id / count / child_index / this /
   today / now / fake / template. *)
Theorem C14_name_resolution_order :
  forall (V : Type) n (s : scopes V),
    resolve n s =
    pick (last_lookup n (sc_funcs s)) (pick (last_lookup n (sc_vars s))
    (pick (last_lookup n (sc_plugins s)) (pick (last_lookup n (sc_fields s))
    (pick (last_lookup n (sc_objects s)) (pick (last_lookup n (sc_options s))
    (last_lookup n (sc_builtins s))))))).
Proof. exact resolve_spec. Qed.
Print Assumptions C14_name_resolution_order.

(* The option rule as formulas see it: in a run whose options are merge_options' result, a
   declared option n evaluates through ${{n}} to the value the user supplied (whatever it is), else
   to its declared default - also when n is spelled like a built-in name (count, today, now, this,
   fake, template, id, child_index) - unless a closer scope (object name, field of the current row,
   plugin, variable, standard function) defines n; and it is never undefined. *)
Theorem C14_option_seen_by_formula :
  forall (V : Type) (decls : list (optdecl V)) (user plugin o : dict V) extra n d (s : scopes V),
    merge_options decls user plugin = Ok (o, extra) -> NoDup (names plugin) ->
    last_decl n decls = Some d -> ~ closer_defines n s ->
    resolve n (with_options s o) =
    match lookup n user with Some v => Some v | None => o_default d end /\
    resolve n (with_options s o) <> None.
Proof. exact option_seen. Qed.
Print Assumptions C14_option_seen_by_formula.

Theorem C14_option_hides_builtin :
  forall (V : Type) n (s : scopes V) v,
    ~ closer_defines n s -> last_lookup n (sc_options s) = Some v -> resolve n s = Some v.
Proof. exact resolve_option_over_builtin. Qed.
Print Assumptions C14_option_hides_builtin.

(* ---- include files on disk (parse_included_file: paths, nesting, cycles) ---- *)
(* Following include_file lines on the file system always ends: a nesting depth of (number of
   files + 1) is never exceeded, and more fuel gives the same answer. *)
Theorem C14_fs_fuel_sufficient :
  forall (P F V : Type) (fs : fsys P F V) fuel p,
    (fs_fuel fs <= fuel)%nat ->
    fs_flatten fuel fs [] p = fs_flatten (fs_fuel fs) fs [] p /\
    fs_flatten (fs_fuel fs) fs [] p <> Err OutOfFuel.
Proof. exact fs_fuel_enough. Qed.
Print Assumptions C14_fs_fuel_sufficient.

(* ... and it fails only with a recipe error (Unsupported: an include_file path climbs above the
   main recipe's directory, which the model does not describe). *)
Theorem C14_fs_errors :
  forall (P F V : Type) (fs : fsys P F V) main e,
    fs_parse_recipe fs main = Err e -> e = Unsupported \/ exists k, e = DGE k.
Proof. exact fs_parse_recipe_err. Qed.
Print Assumptions C14_fs_errors.

(* Refinement: what the files on disk contribute is what the tree of files they unfold to
   (each include_file path resolved against the directory of the file that contains the line)
   contributes; hence every theorem about `flatten` / `parse_recipe` on trees above
   (C14_include_prepend, C14_include_inline_eq, C14_include_single_file) holds for recipes on disk. *)
Theorem C14_fs_refines_tree :
  forall (P F V : Type) (fs : fsys P F V) fuel stack p,
    fs_flatten fuel fs stack p = (do g <- fs_tree fuel fs stack p; flatten g).
Proof. exact fs_flatten_tree. Qed.
Print Assumptions C14_fs_refines_tree.

Theorem C14_fs_parse_recipe_tree :
  forall (P F V : Type) (fs : fsys P F V) main g,
    fs_tree (fs_fuel fs) fs [] main = Ok g -> fs_parse_recipe fs main = parse_recipe g.
Proof. exact fs_parse_recipe_tree. Qed.
Print Assumptions C14_fs_parse_recipe_tree.

(* A recipe from which a file can be reached that includes itself, directly or through other
   files, is rejected with an error - never accepted, never followed without end. *)
Theorem C14_fs_cycle_rejected :
  forall (P F V : Type) (fs : fsys P F V) main a,
    clos_refl_trans _ (fs_includes fs) main a -> clos_trans _ (fs_includes fs) a a ->
    exists e, fs_parse_recipe fs main = Err e /\ (e = Unsupported \/ exists k, e = DGE k).
Proof. exact fs_cycle_rejected. Qed.
Print Assumptions C14_fs_cycle_rejected.

(* Only the relative layout counts: the whole tree of files moved into another directory parses
   to the same result (an include_file path names a file relative to its includer, not relative
   to the main recipe, the working directory or anything remembered from another run). *)
Theorem C14_fs_relocate :
  forall (P F V : Type) pre (fs : fsys P F V) main,
    (forall q, In q (fs_paths fs) -> q <> []) ->
    fs_parse_recipe fs main <> Err Unsupported ->
    fs_parse_recipe (relocate pre fs) (pre ++ main) = fs_parse_recipe fs main.
Proof. exact fs_parse_recipe_relocate. Qed.
Print Assumptions C14_fs_relocate.

(* ---- histories: chains of runs, each continuing the one before it or starting afresh ---- *)
(* The options of every run of every chain are merge_options of THAT run's declarations and THAT
   run's user_options: nothing an earlier link declared or was given reaches a later link, whether
   the link continues the earlier run (continuation file) or not. *)
Theorem C14_chain_options_own :
  forall (V : Type) (ls : list (link V)) prev,
    chain_options prev ls = map (@own_options V) ls.
Proof. exact chain_options_own. Qed.
Print Assumptions C14_chain_options_own.

(* the same links behind two different histories have the same options *)
Theorem C14_chain_history_free :
  forall (V : Type) (before before' ls : list (link V)) prev prev',
    skipn (List.length before) (chain_options prev (before ++ ls)) =
    skipn (List.length before') (chain_options prev' (before' ++ ls)).
Proof. exact chain_options_history_free. Qed.
Print Assumptions C14_chain_history_free.

(* the property's rule at link k of any chain: the supplied value if this link supplies one, else
   the default this link's recipe declares; the run fails (recipe error) iff this link has neither *)
Theorem C14_chain_option_rule :
  forall (V : Type) (ls : list (link V)) prev k (l : link V),
    nth_error ls k = Some l ->
    (forall o n d, nth_error (chain_options prev ls) k = Some (Ok o) ->
                   last_decl n (l_decls l) = Some d ->
                   lookup n o = match lookup n (l_user l) with Some v => Some v | None => o_default d end) /\
    ((exists e, nth_error (chain_options prev ls) k = Some (Err e)) <->
     (exists d, In d (l_decls l) /\ lookup (o_name d) (l_user l) = None /\ o_default d = None)) /\
    (forall e, nth_error (chain_options prev ls) k = Some (Err e) -> exists m, e = DGE m).
Proof. exact chain_option_rule. Qed.
Print Assumptions C14_chain_option_rule.

(* ---- non-vacuity: concrete instances, closed by computation ---- *)
Definition ex_env : menv string string :=
  [("m0", mkMacro [] [("a", "1"); ("b", "junk")] []);
   ("m1", mkMacro ["m0"] [("b", "B"); ("c", "C")] ["F"])].

Example C14_ex_macro :
  parse_stmt ex_env (SObj "A" ["m1"] [("d", "D"); ("a", "5")] ["G"])
  = Ok (PObj "A" [("a", "5"); ("b", "B"); ("c", "C"); ("d", "D")] ["F"; "G"])
  /\ flat_includes ex_env ["m1"] = Ok ([("a", "1"); ("b", "junk"); ("b", "B"); ("c", "C")], ["F"]).
Proof. vm_compute. split; reflexivity. Qed.

Example C14_ex_cycle :
  parse_stmt (ex_env ++ [("m0", mkMacro ["m1"] [] [])]) (SObj "A" ["m1"] [] ([] : list string))
  = Err (DGE "Macro calls itself")
  /\ calls (ex_env ++ [("m0", mkMacro ["m1"] [] [])]) "m1" "m0"
  /\ calls (ex_env ++ [("m0", mkMacro ["m1"] [] [])]) "m0" "m1".
Proof.
  split; [vm_compute; reflexivity|]. split; eexists; (split; [vm_compute; reflexivity|cbn; auto]).
Qed.

Example C14_ex_include :
  parse_recipe (File [Some (File [] [mkOpt "n" (Some (VInt 0))] [("m", mkMacro [] [("x", "1")] [])]
                                 [SVar "v" "7"])]
                     [mkOpt "k" None] [("m", mkMacro [] [("x", "2")] [])]
                     [SObj "A" ["m"] [("y", "3")] ([] : list string)])
  = Ok ([PVar "v" "7"; PObj "A" [("x", "2"); ("y", "3")] []],
        [mkOpt "n" (Some (VInt 0)); mkOpt "k" None]).
Proof. vm_compute. reflexivity. Qed.

Example C14_ex_options_falsy :
  merge_options [mkOpt "a" (Some (VInt 5)); mkOpt "b" (Some (VInt 5)); mkOpt "c" (Some (VInt 5));
                 mkOpt "d" (Some (VInt 0)); mkOpt "e" (Some (VStr ""))]
                [("a", VInt 0); ("b", VBool false); ("c", VStr ""); ("z", VInt 1)] []
  = Ok ([("a", VInt 0); ("b", VBool false); ("c", VStr ""); ("d", VInt 0); ("e", VStr "")], ["z"])
  /\ merge_options [mkOpt "a" (None : option oval)] [("z", VInt 1)] []
     = Err (DGE "No definition supplied for option").
Proof. vm_compute. split; reflexivity. Qed.

(* an option called `count`, a variable and a function: closest scope wins, option hides built-in *)
Example C14_ex_names :
  let s := mkScopes [("id", VInt 7); ("count", VInt 7); ("today", VStr "?builtin")]
                    [("count", VInt 0); ("today", VStr "2001-02-03"); ("v", VStr "opt"); ("date", VInt 1)]
                    [("A", VStr "?object")] [("id", VInt 7)] [] [("v", VStr "var")]
                    [("date", VStr "?func")] in
  resolve "count" s = Some (VInt 0) /\ resolve "today" s = Some (VStr "2001-02-03") /\
  resolve "v" s = Some (VStr "var") /\ resolve "date" s = Some (VStr "?func") /\
  resolve "id" s = Some (VInt 7) /\ resolve "zz" s = None.
Proof. vm_compute. repeat split; reflexivity. Qed.

(* main.yml includes sub/a.yml and lib.yml; sub/a.yml includes lib.yml (= sub/lib.yml, another
   file) and ../lib.yml (= lib.yml); a file that includes its includer is rejected *)
Definition ex_fs : fsys string string oval :=
  [(["main.yml"], FsFile [["sub"; "a.yml"]; ["."; "lib.yml"]] [] [] [SVar "m" "0"]);
   (["lib.yml"], FsFile [] [] [] [SVar "top" "1"]);
   (["sub"; "lib.yml"], FsFile [] [] [] [SVar "sub" "2"]);
   (["sub"; "a.yml"], FsFile [["lib.yml"]; [".."; "lib.yml"]] [] [] [SVar "a" "3"]);
   (["loop.yml"], FsFile [["sub"; "back.yml"]] [] [] []);
   (["sub"; "back.yml"], FsFile [[".."; "loop.yml"]] [] [] [])].

Example C14_ex_fs :
  fs_parse_recipe ex_fs ["main.yml"]
  = Ok ([PVar "sub" "2"; PVar "top" "1"; PVar "a" "3"; PVar "top" "1"; PVar "m" "0"], [])
  /\ fs_parse_recipe ex_fs ["loop.yml"] = Err (DGE "Include file includes itself")
  /\ fs_parse_recipe (relocate ["x"; "y"] ex_fs) ["x"; "y"; "main.yml"] = fs_parse_recipe ex_fs ["main.yml"]
  /\ fs_includes ex_fs ["loop.yml"] ["sub"; "back.yml"] /\ fs_includes ex_fs ["sub"; "back.yml"] ["loop.yml"].
Proof.
  split; [vm_compute; reflexivity|]. split; [vm_compute; reflexivity|]. split; [vm_compute; reflexivity|].
  split; do 5 eexists; (split; [vm_compute; reflexivity|split; [cbn; auto|vm_compute; reflexivity]]).
Qed.

Example C14_ex_include_string :
  split_includes " m1 ,m2,  , big macro ," = ["m1"; "m2"; "big macro"] /\ split_includes "" = [] /\
  join_includes [(" ", "m1", " "); ("", "m2", ""); ("  ", "", " "); (" ", "big macro", " "); ("", "", "")]
  = " m1 ,m2,   , big macro ,".
Proof. vm_compute. repeat split; reflexivity. Qed.


(* four chained runs, option batch (default 1) supplied as 7 / not at all / 3 / not at all, and a
   required option supplied only by the first run: the model (the code) against the reading in which
   a continued run inherits the options of the run it continues *)
Example C14_ex_chain :
  let d := [mkOpt "batch" (Some (VInt 1))] in
  let ls := [mkLink d [("batch", VInt 7)] false; mkLink d [] true;
             mkLink d [("batch", VInt 3)] true; mkLink d [] true] in
  let rq := [mkLink [mkOpt "region" None] [("region", VStr "EU")] false;
             mkLink [mkOpt "region" None] [] true] in
  chain_options None ls = [Ok [("batch", VInt 7)]; Ok [("batch", VInt 1)];
                           Ok [("batch", VInt 3)]; Ok [("batch", VInt 1)]]
  /\ inheriting_options [] ls = [Ok [("batch", VInt 7)]; Ok [("batch", VInt 7)];
                                 Ok [("batch", VInt 3)]; Ok [("batch", VInt 3)]]
  /\ chain_options None rq = [Ok [("region", VStr "EU")]; Err (DGE "No definition supplied for option")]
  /\ inheriting_options [] rq = [Ok [("region", VStr "EU")]; Ok [("region", VStr "EU")]]
  /\ map (fun r => match r with Ok (_, c) => Some c | Err _ => None end)
         (run_chain None (ls ++ rq)) = [Some 1; Some 2; Some 3; Some 4; Some 1; None]%nat.
Proof. vm_compute. repeat split; reflexivity. Qed.
