(* C16 — the generated CCI mapping is complete and loads parents before children.
   Model: theories/Mapping.v (snowfakery/generate_mapping_from_recipe.py,
   cci_mapping_files/post_processes.py, dependency recording / persistence of
   data_generator_runtime.py, TableInfo.register of parse_recipe_yaml.py).
   Only statements here; proofs live in proofs/MappingP.v. *)
From Coq Require Import String List Arith.
From SFV Require Import Base Mapping.
From SFV.P Require Import MappingP.
Import ListNotations.
Open Scope string_scope. Open Scope list_scope. Open Scope nat_scope.

(* ---- the sorter ---- *)

(* The `while tables` loop always ends within the model's fuel (2 * number of tables + 1 passes:
   every pass sorts at least one table, or appends one that the next pass removes), for all
   dependency dictionaries — cyclic, with unknown targets, with the nested declared-only re-sort —
   and never fails. *)
Theorem C16_sort_terminates :
  forall inferred declared tables, exists l, sort_dependencies inferred declared tables = Ok l.
Proof. exact sort_terminates. Qed.
Print Assumptions C16_sort_terminates.

(* Every table occurs in the order and nothing else does (duplicates can occur in the cyclic +
   declared case; steps are placed by first index). *)
Theorem C16_sort_covers :
  forall inferred declared tables l,
    sort_dependencies inferred declared tables = Ok l -> forall t, In t l <-> In t tables.
Proof. exact sort_covers. Qed.
Print Assumptions C16_sort_covers.

(* If the dependency graph (declared entries replacing inferred ones, as the code merges them),
   ignoring self loops, is acyclic ([rank] strictly decreases along every edge) and closed (every
   target is a table), the order has no duplicates and every table comes after all the tables it
   depends on. *)
Theorem C16_sort_sound :
  forall inferred declared tables (rank : string -> nat) l,
    NoDup tables ->
    (forall t x, In t tables -> In x (merged_tg inferred declared t) -> x <> t ->
                 In x tables /\ rank x < rank t) ->
    sort_dependencies inferred declared tables = Ok l ->
    NoDup l /\
    forall t x, In t tables -> In x (merged_tg inferred declared t) -> x <> t ->
      exists i j, index_of x l = Some i /\ index_of t l = Some j /\ i < j.
Proof. exact sort_sound. Qed.
Print Assumptions C16_sort_sound.

(* ---- the mapping ---- *)

(* Exactly one step per (visible table, update key) of the recipe's templates; each step is named
   after its table and key; every visible field of the table ([vfield]: a non-hidden field of some
   template of the table, except Account.PersonContactId) is listed; it is a lookup iff a reference
   to a loaded table was recorded for it ([observed]), with one of the observed targets, and a plain
   field otherwise; no field is listed twice in either section (a record-type column that also held
   references is the one field that appears in both).  Table names are assumed to contain no
   space (step names are "Insert T" / "Upsert T on K"). *)
Theorem C16_steps_complete :
  forall tpls deps decls ms,
    (forall tp, In tp tpls -> has_space (tp_table tp) = false) ->
    mapping_from_recipe tpls deps decls = Ok ms ->
    NoDup (map step_key ms) /\
    (forall t k, In (t, k) (map step_key ms) <->
                 exists tp, In tp tpls /\ hidden (tp_table tp) = false /\
                            tp_table tp = t /\ norm_key (tp_key tp) = k) /\
    forall name m, In (name, m) ms ->
      name = step_name (m_table m) (m_update_key m) /\
      m_sf_object m = (if String.eqb (m_table m) "PersonContact" then "Contact" else m_table m) /\
      NoDup (map lk_field (m_lookups m)) /\ NoDup (map snd (m_fields m)) /\
      (forall l, In l (m_lookups m) ->
         vfield tpls (m_table m) (lk_field l) /\
         observed tpls deps (m_table m) (lk_field l) (lk_table l)) /\
      (forall f, In f (map snd (m_fields m)) ->
         vfield tpls (m_table m) f /\
         ((forall to, ~ observed tpls deps (m_table m) f to) \/ is_rt f = true)) /\
      (forall f, vfield tpls (m_table m) f -> (exists to, observed tpls deps (m_table m) f to) ->
                 In f (map lk_field (m_lookups m))) /\
      (forall f, vfield tpls (m_table m) f -> (forall to, ~ observed tpls deps (m_table m) f to) ->
                 In f (map snd (m_fields m))).
Proof. exact steps_complete. Qed.
Print Assumptions C16_steps_complete.

(* The table named by a lookup is the target of the last reference recorded for the field. *)
Theorem C16_lookup_target :
  forall tpls deps decls ms name m l,
    (forall tp, In tp tpls -> has_space (tp_table tp) = false) ->
    mapping_from_recipe tpls deps decls = Ok ms -> In (name, m) ms -> In l (m_lookups m) ->
    ref_target (loadable_deps (visible_tables tpls) deps) (m_table m) (lk_field l) = Some (lk_table l).
Proof. exact lookup_target_last. Qed.
Print Assumptions C16_lookup_target.

(* Parents before children: without load declarations, if the references recorded between loaded
   tables are acyclic apart from self references ([rank] decreases along each), then every step
   that loads the target table of a lookup comes before the step holding the lookup.  (The
   Account -> PersonContact reference is dropped from the sort by design and is excluded.) *)
Theorem C16_parents_first :
  forall tpls deps ms (rank : string -> nat) pre name m post l nj mj,
    (forall tp, In tp tpls -> has_space (tp_table tp) = false) ->
    (forall d, In d deps -> In (d_from d) (visible_tables tpls) -> d_to d <> d_from d ->
               In (d_to d) (visible_tables tpls) \/ d_to d = "PersonContact" ->
               In (d_to d) (visible_tables tpls) /\ rank (d_to d) < rank (d_from d)) ->
    mapping_from_recipe tpls deps [] = Ok ms -> ms = pre ++ (name, m) :: post ->
    In l (m_lookups m) -> lk_table l <> m_table m ->
    ~ (m_table m = "Account" /\ lower (lk_table l) = "personcontact") ->
    In (nj, mj) ms -> m_table mj = lk_table l ->
    In (nj, mj) pre.
Proof. exact parents_first. Qed.
Print Assumptions C16_parents_first.

(* after-rule as add_after_statements establishes it, for every lookup (self references included;
   lookups to the pseudo table PersonContact are skipped by the code): the first step that loads
   the target TABLE comes strictly earlier, or the lookup carries `after:` naming the last such
   step.  (Steps are indexed by table since fix commit ae07041; before it they were indexed by
   sf_object, which let a PersonContact step stand in for the Contact step - former finding K16a.) *)
Theorem C16_after_rule :
  forall tpls deps decls ms pre name m post l,
    mapping_from_recipe tpls deps decls = Ok ms -> ms = pre ++ (name, m) :: post ->
    In l (m_lookups m) -> lk_table l <> "PersonContact" ->
    exists fi ln, first_pos (lk_table l) ms = Some fi /\ last_name (lk_table l) ms = Some ln /\
                  (fi < length pre \/ lk_after l = Some ln).
Proof. exact after_rule. Qed.
Print Assumptions C16_after_rule.

(* ... hence the property's wording, unconditionally: when the target table is loaded by a single
   step, that step is earlier or it is the one named by `after`. *)
Theorem C16_after_rule_by_table :
  forall tpls deps decls ms pre name m post l prej namej mj postj,
    mapping_from_recipe tpls deps decls = Ok ms -> ms = pre ++ (name, m) :: post ->
    In l (m_lookups m) -> lk_table l <> "PersonContact" ->
    ms = prej ++ (namej, mj) :: postj -> m_table mj = lk_table l ->
    (forall nm, In nm prej \/ In nm postj -> m_table (snd nm) <> lk_table l) ->
    length prej < length pre \/ lk_after l = Some namej.
Proof. exact after_rule_single. Qed.
Print Assumptions C16_after_rule_by_table.

(* regression of K16a on its old witness (PersonContact first, cycle A <-> Contact): the lookup
   A.c -> Contact now carries `after: Insert Contact` *)
Definition k16a_tpls : list ftpl :=
  [mkTpl "PersonContact" None ["name"]; mkTpl "A" None ["c"]; mkTpl "Contact" None ["a"]].
Definition k16a_deps : list dep := [mkDep "A" "Contact" "c"; mkDep "Contact" "A" "a"].

Example C16_ex_k16a_repaired :
  mapping_from_recipe k16a_tpls k16a_deps []
  = Ok [("Insert PersonContact",
         mkStep "Contact" "PersonContact" [("name", "name")] [] [] None None []);
        ("Insert A", mkStep "A" "A" [] [mkLk "c" "Contact" (Some "Insert Contact")] [] None None []);
        ("Insert Contact", mkStep "Contact" "Contact" [] [mkLk "a" "A" None] [] None None [])].
Proof. vm_compute. reflexivity. Qed.

(* ---- history independence ---- *)

(* Writing the recorded dependencies to a continuation file and loading them back, at any points of
   the history, does not change them ... *)
Theorem C16_deps_persist :
  forall evs, run_events evs [] = run_events (filter is_obs evs) [].
Proof. intros evs. apply deps_persist. constructor. Qed.
Print Assumptions C16_deps_persist.

(* ... so the mapping of a recipe is the same whether or not the run was continued: it is a function
   of the templates, the declarations and the sequence of references observed. *)
Theorem C16_mapping_history_independent :
  forall tpls decls evs,
    mapping_from_recipe tpls (run_events evs []) decls =
    mapping_from_recipe tpls (run_events (filter is_obs evs) []) decls.
Proof. exact mapping_history_independent. Qed.
Print Assumptions C16_mapping_history_independent.

(* The order in which the references were observed does not matter either, as long as every
   (table, field) pair only ever referred to one table: the mapping is a function of the SET of
   recorded dependencies. *)
Theorem C16_mapping_set_independent :
  forall tpls deps1 deps2 decls,
    functional deps1 -> (forall d, In d deps1 <-> In d deps2) ->
    mapping_from_recipe tpls deps1 decls = mapping_from_recipe tpls deps2 decls.
Proof. exact mapping_set_independent. Qed.
Print Assumptions C16_mapping_set_independent.

(* ---- totality (regression of K6 / commit 51666fd) ---- *)

(* Mapping generation never fails (no KeyError in add_after_statements, no ValueError in the step
   sort, no fuel exhaustion) for any recorded dependencies — also to hidden tables and unknown
   objects — provided no table has two record-type columns (which is reported as DataGenError). *)
Theorem C16_mapping_total :
  forall tpls deps decls,
    (forall tp, In tp tpls -> has_space (tp_table tp) = false) ->
    (forall t f1 f2, vfield tpls t f1 -> vfield tpls t f2 ->
                     is_rt f1 = true -> is_rt f2 = true -> f1 = f2) ->
    exists ms, mapping_from_recipe tpls deps decls = Ok ms.
Proof. exact mapping_total. Qed.
Print Assumptions C16_mapping_total.

(* ---- non-vacuity ---- *)
Example C16_ex_sort_cycle_declared :   (* cyclic + declared: duplicates in the order *)
  sort_dependencies [("A", ["B"]); ("B", ["A"])] [("C", ["A"])] ["A"; "B"; "C"]
  = Ok ["A"; "B"; "C"; "A"; "B"; "C"].
Proof. vm_compute. reflexivity. Qed.

Example C16_ex_sort_unloaded_targets :  (* 2 passes per table: fuel n+1 would not suffice *)
  sort_loop (tg_of [("A", ["Zed"]); ("B", ["Zed"]); ("C", ["Zed"])]) stuck_min 4 ["A"; "B"; "C"] []
  = Err OutOfFuel /\
  sort_dependencies [("A", ["Zed"]); ("B", ["Zed"]); ("C", ["Zed"])] [] ["A"; "B"; "C"]
  = Ok ["A"; "B"; "C"].
Proof. split; vm_compute; reflexivity. Qed.

Example C16_ex_sort_acyclic :
  sort_dependencies [("A", ["B"; "A"]); ("B", ["C"])] [] ["A"; "B"; "C"] = Ok ["C"; "B"; "A"].
Proof. vm_compute. reflexivity. Qed.

Example C16_ex_mapping :   (* self reference, 2-cycle, forward reference, hidden target, upsert *)
  mapping_from_recipe
    [mkTpl "A" None ["self"; "b"; "h"]; mkTpl "B" (Some "name") ["name"; "a"; "__x"]; mkTpl "__H" None ["q"]]
    (run_events [Obs (mkDep "A" "A" "self"); Obs (mkDep "A" "B" "b"); Obs (mkDep "A" "__H" "h");
                 SaveLoad; Obs (mkDep "B" "A" "a"); Obs (mkDep "A" "B" "b")] [])
    []
  = Ok [("Insert A", mkStep "A" "A" [("h", "h")]
                            [mkLk "self" "A" (Some "Insert A"); mkLk "b" "B" (Some "Upsert B on name")]
                            [] None None []);
        ("Upsert B on name", mkStep "B" "B" [("name", "name")] [mkLk "a" "A" None] []
                                    (Some "upsert") (Some "name") ["_sf_update_key = 'name'"])].
Proof. vm_compute. reflexivity. Qed.

(* ==================================================================================================
   The input of the mapping generator, tied to the rows (theories/Interp.v, proofs/DepsP.v).

   The theorems above take the recorded dependencies (Globals.intertable_dependencies) as an input.
   Over the SF-core interpreter that input is itself characterised: every reference cell of every
   row a run writes - from `reference`, nested objects, friends, forward references, random
   references - has its (table, target table, field) triple recorded by the end of the task that
   wrote it, so "a lookup if any emitted row held a reference in that field" can be read off the
   rows; and nothing recorded is ever dropped (continued runs start from the dependencies of the
   file, C05).
   ================================================================================================== *)
From SFV Require Import Interp.
From SFV.P Require Import DepsP.

Theorem C16_interp_written_references_recorded :
  forall e stmts c k s0 s,
    Interp.out s0 = [] -> iterations k e stmts c s0 = Ok s ->
    forall row f U i, In row (Interp.out s) -> In (f, ORef U i) (snd row) ->
                      In (fst row, U, f) (Interp.deps s).
Proof. exact written_references_recorded. Qed.
Print Assumptions C16_interp_written_references_recorded.

Theorem C16_interp_written_references_recorded_fresh :
  forall (r : recipe) k s,
    run_fresh r k = Ok s ->
    forall row f U i, In row (Interp.out s) -> In (f, ORef U i) (snd row) ->
                      In (fst row, U, f) (Interp.deps s).
Proof. exact written_references_recorded_fresh. Qed.
Print Assumptions C16_interp_written_references_recorded_fresh.

(* the invariant behind it, for every task of the evaluator: recorded dependencies only grow, and
   "every written reference cell is recorded" is preserved *)
Theorem C16_interp_invariant_step :
  forall fuel e tk s s' r,
    run fuel e tk s = Ok (s', r) -> incl (Interp.deps s) (Interp.deps s') /\ (R s -> R s').
Proof. exact run_deps. Qed.
Print Assumptions C16_interp_invariant_step.

Theorem C16_interp_dependencies_persist :
  forall e stmts c k s0 s,
    iterations k e stmts c s0 = Ok s -> incl (Interp.deps s0) (Interp.deps s).
Proof. exact recorded_dependencies_persist. Qed.
Print Assumptions C16_interp_dependencies_persist.

(* The converse: nothing is recorded without a cell.  Every dependency a run adds between a visible
   table and a visible field is backed by a reference cell of a row it wrote; so a field that never
   held a reference in any written row is not made a lookup by this run ("a plain field otherwise"). *)
Theorem C16_interp_recorded_dependencies_backed :
  forall e stmts c k s0 s,
    iterations k e stmts c s0 = Ok s ->
    forall T U f, In (T, U, f) (Interp.deps s) ->
      In (T, U, f) (Interp.deps s0) \/ Interp.hidden T = true \/ Interp.hidden f = true \/
      exists row i, In row (Interp.out s) /\ fst row = T /\ In (f, ORef U i) (snd row).
Proof. exact recorded_dependencies_backed. Qed.
Print Assumptions C16_interp_recorded_dependencies_backed.

(* non-vacuity: a forward reference, a nested object and a friend pointing back at its parent *)
Example C16_interp_ex :
  match run_fresh (mkRecipe 3 []
          [SObj (Tpl "A" None None false [("b", FRef "B"); ("n", FNested (Tpl "C" None None false [] []))]
                     [SObj (Tpl "D" None None false [("parent", FRef "A")] [])]);
           SObj (Tpl "B" None None false [] [])] []) 2 with
  | Ok s => Interp.deps s
  | Err _ => []
  end = [("A", "B", "b"); ("A", "C", "n"); ("D", "A", "parent")].
Proof. vm_compute. reflexivity. Qed.
