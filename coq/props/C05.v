(* C05 — the continuation file is a complete, re-loadable snapshot of persistent state.
   Model: theories/Continuation.v (Globals / IdManager / Transients / ObjectRow
   __getstate__ / __setstate__, load_continuation_yaml / save_continuation_yaml, SafeDumper's
   representable types).  Only statements here; proofs live in proofs/ContinuationP.v.

   [save g]  = the key-sorted tree yaml.dump hands to the emitter (= what yaml.safe_load reads back),
   [load t]  = Globals.__setstate__ on such a tree,
   [restored g g'] = id counters, start ids, every just_once row reachable by nickname or by
   table name with every field (value and type tag), nickname-to-table bindings, today,
   inter-table references and the rebuilt forward-reference slots agree.
   The YAML text layer is a pair of functions with PyYAML's round-trip law as the only
   hypothesis (visible in the statements below as `forall text yaml_dump yaml_load, (...) ->`). *)
From Coq Require Import ZArith List Bool String.
From SFV Require Import Base Continuation.
From SFV.P Require Import ContinuationP.
Import ListNotations. Open Scope string_scope.

(* Full statement of the property at tree level:
     forall g, wf g = true -> is_ok (dump_check g) = true /\
               exists g', load (save g) = Ok g' /\ restored g g'.
   The faithful model refutes it twice (C05_row_valued_field_refuted, C05_unrepresentable_value_refuted);
   [snapshot_ok] excludes exactly those two classes of field values (rows; forward / random /
   literal references).  Decimals were in the second class until the Decimal representer was
   added (C05_decimal_value_restored). *)

(* loading the written tree restores every component *)
Theorem C05_load_save :
  forall g, snapshot_ok g = true -> exists g', load (save g) = Ok g' /\ restored g g'.
Proof. exact load_save_restored. Qed.
Print Assumptions C05_load_save.

(* without the restriction on field values: everything except row-valued fields is restored *)
Theorem C05_load_save_partial :
  forall g, wf g = true -> exists g', load (save g) = Ok g' /\ restored_scalars g g'.
Proof. exact load_save_restored_scalars. Qed.
Print Assumptions C05_load_save_partial.

(* loading a file and saving it again reproduces it *)
Theorem C05_idempotent :
  forall g g', nodup_deps (g_deps g) = true -> load (save g) = Ok g' -> save g' = save g.
Proof. exact save_load_save. Qed.
Print Assumptions C05_idempotent.

(* ... for every chain of write / read steps *)
Theorem C05_chain :
  forall n g g', nodup_deps (g_deps g) = true -> chain n g = Ok g' ->
                 save g' = save g /\ nodup_deps (g_deps g') = true.
Proof. exact chain_save. Qed.
Print Assumptions C05_chain.

Theorem C05_chain_total :
  forall n g, nodup_deps (g_deps g) = true -> is_ok (dump_check g) = true ->
              exists g', chain n g = Ok g' /\ dump_check g' = dump_check g.
Proof. exact chain_total. Qed.
Print Assumptions C05_chain_total.

(* writing succeeds *)
Theorem C05_dump_total :
  forall g, snapshot_ok g = true -> dump_check g = Ok (save g).
Proof. exact dump_total. Qed.
Print Assumptions C05_dump_total.

(* exactly when writing fails: today or a non-row field value has a type without a representer *)
Theorem C05_dump_spec :
  forall g, dump_check g =
            if representable_value (g_today g) &&
               forallb (fun kv => row_dumpable (snd kv)) (g_nicks g) &&
               forallb (fun kv => row_dumpable (snd kv)) (g_tables g)
            then Ok (save g) else representer_error.
Proof. exact dump_check_spec. Qed.
Print Assumptions C05_dump_spec.

(* ---- the same through the text of the file, assuming PyYAML's round-trip law ---- *)
Theorem C05_file_read_write :
  forall (text : Type) (yaml_dump : tree -> text) (yaml_load : text -> option tree),
    (forall t, representable (sort_tree t) = true ->
               yaml_load (yaml_dump (sort_tree t)) = Some (sort_tree t)) ->
    forall g, snapshot_ok g = true ->
      exists txt g', write_file text yaml_dump g = Ok txt /\
                     read_file text yaml_load txt = Ok g' /\ restored g g'.
Proof. exact read_write. Qed.
Print Assumptions C05_file_read_write.

Theorem C05_file_rewrite_same :
  forall (text : Type) (yaml_dump : tree -> text) (yaml_load : text -> option tree),
    (forall t, representable (sort_tree t) = true ->
               yaml_load (yaml_dump (sort_tree t)) = Some (sort_tree t)) ->
    forall n g txt, nodup_deps (g_deps g) = true -> write_file text yaml_dump g = Ok txt ->
                    rewrite_chain text yaml_dump yaml_load n txt = Ok txt.
Proof. exact rewrite_chain_same. Qed.
Print Assumptions C05_file_rewrite_same.

(* a continued run starts from exactly the loaded state, whatever the recipe's templates say *)
Theorem C05_resume_uses_file :
  forall g tpls today, initialize_globals (Some g) tpls today = g.
Proof. reflexivity. Qed.
Print Assumptions C05_resume_uses_file.

(* ---- refutations of the full statement (known findings) ---- *)
(* K1: a row-valued field of a just_once row is not in the file *)
Theorem C05_row_valued_field_refuted :
  exists g, wf g = true /\ is_ok (dump_check g) = true /\
            forall g', load (save g) = Ok g' -> ~ restored g g'.
Proof. exact row_valued_field_refuted. Qed.
Print Assumptions C05_row_valued_field_refuted.

(* K2: forward reference / random reference / literal reference: writing raises *)
Theorem C05_unrepresentable_value_refuted :
  forall v, In v [VSlot "B" (Some 1); VLazy "B" 1; VRef "Zed" 5] ->
            wf (k2_state v) = true /\ dump_check (k2_state v) = representer_error.
Proof. exact unrepresentable_value_refuted. Qed.
Print Assumptions C05_unrepresentable_value_refuted.

(* repaired part of K2 (Decimal representer + loader): every Decimal is written and, by
   C05_load_save, restored with its type tag *)
Theorem C05_decimal_value_restored :
  forall txt, snapshot_ok (k2_state (VDec txt)) = true /\
              dump_check (k2_state (VDec txt)) = Ok (save (k2_state (VDec txt))).
Proof. exact decimal_value_restored. Qed.
Print Assumptions C05_decimal_value_restored.

Theorem C05_dump_total_refuted : ~ (forall g, wf g = true -> is_ok (dump_check g) = true).
Proof. exact dump_total_refuted. Qed.
Print Assumptions C05_dump_total_refuted.

(* ---- non-vacuity: a concrete state with YAML-hostile strings satisfies the hypotheses ---- *)
Definition ex_row : row :=
  mkRow "J" [("s_num", VStr "0012"); ("id", VInt 1); ("s_yes", VStr "yes"); ("null", VStr "null");
             ("big", VInt (2 ^ 200)); ("flt", VFloat "0x1.5555555555555p-2"); ("b", VBool true);
             ("n", VNull); ("d", VDate 737484); ("amount", VDec "1.50"); ("dt", VDateTime 63718534800000123 (Some 19800));
             ("a: b", VStr (bs [97; 10; 98; 9; 194; 133]))].

Definition ex_state : globals :=
  mkGlobals [("P_", 3); ("J", 1)] []
            [("jj", ex_row)] [("J", ex_row)]
            [("jj", "J"); ("P_", "P_"); ("J", "J")] (VDate 738945)
            [mkDep "P_" "J" "owner"; mkDep "J" "K" "b"]
            (mkTr [("jj", "J"); ("P_", "P_"); ("J", "J")] [("P_", 3); ("J", 1)]) [].

Example C05_ex_ok : snapshot_ok ex_state = true.
Proof. vm_compute. reflexivity. Qed.

Example C05_ex_fields_sorted_in_file :
  match save ex_state with
  | TMap (("id_manager", _) :: ("intertable_dependencies", _) :: ("nicknames_and_tables", _) ::
          ("persistent_nicknames", TMap [("jj", TMap [("_tablename", _); ("_values", TMap vs)])]) :: _) =>
    map fst vs = ["a: b"; "amount"; "b"; "big"; "d"; "dt"; "flt"; "id"; "n"; "null"; "s_num"; "s_yes"]
  | _ => False
  end.
Proof. vm_compute. reflexivity. Qed.

Example C05_ex_roundtrip :
  match load (save ex_state) with
  | Ok g' => lookup "s_num" (r_values (match lookup "jj" (g_nicks g') with Some r => r | None => ex_row end))
             = Some (VStr "0012") /\
             lookup "J" (g_start_ids g') = Some 2 /\ g_deps g' = g_deps ex_state /\
             save g' = save ex_state
  | Err _ => False
  end.
Proof. vm_compute. repeat split; reflexivity. Qed.

(* regression of the repaired Decimal case: the former K2 witness round-trips with its type *)
Example C05_ex_decimal_roundtrip :
  match load (save (k2_state (VDec "1.50"))) with
  | Ok g' => match lookup "jj" (g_nicks g'), lookup "J" (g_tables g') with
             | Some r1, Some r2 => lookup "f" (r_values r1) = Some (VDec "1.50") /\
                                   lookup "f" (r_values r2) = Some (VDec "1.50")
             | _, _ => False
             end
  | Err _ => False
  end.
Proof. vm_compute. split; reflexivity. Qed.

Example C05_ex_chain : (do g' <- chain 4 ex_state; dump_check g') = dump_check ex_state.
Proof. vm_compute. reflexivity. Qed.

Example C05_ex_k1_partial :
  match load (save k1_state) with
  | Ok g' => match lookup "aa" (g_nicks g') with
             | Some r => lookup "b" (r_values r) = None /\ lookup "n" (r_values r) = Some (VInt 5)
             | None => False
             end
  | Err _ => False
  end.
Proof. vm_compute. split; reflexivity. Qed.
