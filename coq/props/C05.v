(* C05 — the continuation file is a complete, re-loadable snapshot of persistent state.
   Model: theories/Continuation.v (Globals / IdManager / Transients / ObjectRow
   __getstate__ / __setstate__, load_continuation_yaml / save_continuation_yaml, SafeDumper's
   representable types).  Only statements here; proofs live in proofs/ContinuationP.v.

   [save g]  = the key-sorted tree yaml.dump hands to the emitter (= what yaml.safe_load reads back),
   [load t]  = Globals.__setstate__ on such a tree,
   [restored g g'] = id counters, start ids, every just_once row reachable by nickname or by
   table name with every field (value and type tag), nickname-to-table bindings, today,
   inter-table references and the rebuilt forward-reference slots agree.
   The YAML text layer: (a) abstractly, a pair of functions with the round-trip law as the only
   hypothesis (C05_file_read_write, C05_file_rewrite_same); (b) as a model (theories/YamlScalar.v,
   Section YamlModel of Continuation.v): representer, the serializer's `implicit` pair computed with
   the resolver, the emitter's choice of style and of writing the tag, the parser / composer tag
   resolution and the constructors for str / int / bool / null.  There the law is a THEOREM
   (C05_yaml_roundtrip_from_syntax) from two narrower laws: [syntax_law] (the character level gives
   back structure, texts, plain-ness and explicit tags) and [codec_law] (printing and parsing of
   float / date / datetime / Decimal invert each other); every type-related clause of the property
   ("strings that look like numbers or keywords stay strings; ints of any size ... keep their type")
   is proved for EVERY resolver (C05_scalar_keeps_tag, C05_string_stays_string, C05_int_of_any_size).
   Inter-table references while a run continues: [record_deps] (OrderedSet.add), C05_deps_*. *)
From Coq Require Import ZArith List Bool String.
From SFV Require Import Base Continuation.
From SFV.P Require Import YamlScalarP ContinuationP.
Import ListNotations. Open Scope string_scope.

(* Full statement of the property at tree level:
     forall g, wf g = true -> is_ok (dump_check g) = true /\
               exists g', load (save g) = Ok g' /\ restored g g'.
   The faithful model refutes it twice (C05_row_valued_field_refuted, C05_unrepresentable_value_refuted);
   [snapshot_ok] excludes exactly those two classes of field values (rows; forward / random /
   literal references).  Decimals were in the second class until the Decimal representer was
   added (C05_decimal_value_restored). *)

(* loading the written tree restores every component *)
Theorem C05_load_save :
  forall g, snapshot_ok g = true -> exists g', load (save g) = Ok g' /\ restored g g'.
Proof. exact load_save_restored. Qed.
Print Assumptions C05_load_save.

(* without the restriction on field values: everything except row-valued fields is restored *)
Theorem C05_load_save_partial :
  forall g, wf g = true -> exists g', load (save g) = Ok g' /\ restored_scalars g g'.
Proof. exact load_save_restored_scalars. Qed.
Print Assumptions C05_load_save_partial.

(* loading a file and saving it again reproduces it *)
Theorem C05_idempotent :
  forall g g', nodup_deps (g_deps g) = true -> load (save g) = Ok g' -> save g' = save g.
Proof. exact save_load_save. Qed.
Print Assumptions C05_idempotent.

(* ... for every chain of write / read steps *)
Theorem C05_chain :
  forall n g g', nodup_deps (g_deps g) = true -> chain n g = Ok g' ->
                 save g' = save g /\ nodup_deps (g_deps g') = true.
Proof. exact chain_save. Qed.
Print Assumptions C05_chain.

Theorem C05_chain_total :
  forall n g, nodup_deps (g_deps g) = true -> is_ok (dump_check g) = true ->
              exists g', chain n g = Ok g' /\ dump_check g' = dump_check g.
Proof. exact chain_total. Qed.
Print Assumptions C05_chain_total.

(* writing succeeds *)
Theorem C05_dump_total :
  forall g, snapshot_ok g = true -> dump_check g = Ok (save g).
Proof. exact dump_total. Qed.
Print Assumptions C05_dump_total.

(* exactly when writing fails: today or a non-row field value has a type without a representer *)
Theorem C05_dump_spec :
  forall g, dump_check g =
            if representable_value (g_today g) &&
               forallb (fun kv => row_dumpable (snd kv)) (g_nicks g) &&
               forallb (fun kv => row_dumpable (snd kv)) (g_tables g)
            then Ok (save g) else representer_error.
Proof. exact dump_check_spec. Qed.
Print Assumptions C05_dump_spec.

(* ---- the same through the text of the file, assuming the round-trip law of the text layer ---- *)
Theorem C05_file_read_write :
  forall (text : Type) (yaml_dump : tree -> option text) (yaml_load : text -> option tree),
    (forall t, representable (sort_tree t) = true ->
               exists txt, yaml_dump (sort_tree t) = Some txt /\ yaml_load txt = Some (sort_tree t)) ->
    forall g, snapshot_ok g = true ->
      exists txt g', write_file text yaml_dump g = Ok txt /\
                     read_file text yaml_load txt = Ok g' /\ restored g g'.
Proof. exact read_write_all. Qed.
Print Assumptions C05_file_read_write.

Theorem C05_file_rewrite_same :
  forall (text : Type) (yaml_dump : tree -> option text) (yaml_load : text -> option tree),
    (forall t, representable (sort_tree t) = true ->
               exists txt, yaml_dump (sort_tree t) = Some txt /\ yaml_load txt = Some (sort_tree t)) ->
    forall n g txt, nodup_deps (g_deps g) = true -> write_file text yaml_dump g = Ok txt ->
                    rewrite_chain text yaml_dump yaml_load n txt = Ok txt.
Proof. exact rewrite_chain_same_all. Qed.
Print Assumptions C05_file_rewrite_same.

(* ---- the text layer as a model: which type a scalar has after the round trip ---- *)
(* Whatever the implicit resolver, the default tag, the emitter's analysis of the text and the
   context are: the composer gives every scalar the tag (and text) the representer gave it. *)
Theorem C05_scalar_keeps_tag :
  forall (resolve : string -> ytag) (default_tag : ytag) (analyze : string -> analysis)
         (simple_key flow : bool) (n : snode),
    compose_scalar resolve default_tag (emit_scalar resolve default_tag analyze simple_key flow n) = n.
Proof. exact compose_emit. Qed.
Print Assumptions C05_scalar_keeps_tag.

(* ... in particular a str stays a str, whatever its text looks like to the resolver *)
Theorem C05_string_stays_string :
  forall (resolve : string -> ytag) (default_tag : ytag) (analyze : string -> analysis)
         (simple_key flow : bool) (s : string),
    composed_tag resolve default_tag
                 (emit_scalar resolve default_tag analyze simple_key flow (mkSN TgStr s)) = TgStr.
Proof. intros. exact (composed_tag_emit resolve default_tag analyze simple_key flow (mkSN TgStr s)). Qed.
Print Assumptions C05_string_stays_string.

(* the mechanism: a scalar is written plain only if the loader's resolver would give its text the
   node's own tag; the same holds for any style handed in from outside (an observed file) *)
Theorem C05_plain_only_if_resolved :
  forall (resolve : string -> ytag) (default_tag : ytag) (analyze : string -> analysis)
         (simple_key flow : bool) (n : snode),
    ps_plain (emit_scalar resolve default_tag analyze simple_key flow n) = true ->
    resolve (sn_text n) = sn_tag n.
Proof. exact plain_only_if_resolved. Qed.
Print Assumptions C05_plain_only_if_resolved.

Theorem C05_observed_style_keeps_tag :
  forall (resolve : string -> ytag) (default_tag : ytag) (plain : bool) (n : snode) (p : pscalar),
    emit_scalar_as resolve default_tag plain n = Some p -> compose_scalar resolve default_tag p = n.
Proof. exact compose_emit_as. Qed.
Print Assumptions C05_observed_style_keeps_tag.

(* the regular-expression matcher the resolver model runs on decides the usual meaning of a regular
   expression: the eight patterns of YamlScalar.v mean what they say *)
Theorem C05_regex_matcher_correct : forall r s, re_match r s = true <-> lang r s.
Proof. exact re_match_lang. Qed.
Print Assumptions C05_regex_matcher_correct.

(* ints of any size: str(n) read back by construct_yaml_int is n *)
Theorem C05_int_of_any_size : forall z, construct_int (int_text z) = Some z.
Proof. exact construct_int_text. Qed.
Print Assumptions C05_int_of_any_size.

(* ... and the resolver (PyYAML's eight patterns as modelled) recognises str(n) as an int whatever the
   size of n: no pattern filed before `int` matches it, the third alternative of `int` does *)
Theorem C05_int_text_recognised : forall z, resolve_plain (int_text z) = TgInt.
Proof. exact int_text_resolves. Qed.
Print Assumptions C05_int_text_recognised.

(* the same for whole documents, mapping keys included *)
Theorem C05_tree_keeps_tags :
  forall (resolve : string -> ytag) (default_tag : ytag) (analyze : string -> analysis)
         (simple_key : string -> bool) (n : ntree),
    compose resolve default_tag (present resolve default_tag analyze simple_key n) = n.
Proof. exact compose_present. Qed.
Print Assumptions C05_tree_keeps_tags.

(* the round-trip law of the text layer, derived from the two narrower laws *)
Theorem C05_yaml_roundtrip_from_syntax :
  forall float_text date_text datetime_text float_read timestamp_read decimal_read token_ok,
    codec_law float_text date_text datetime_text float_read timestamp_read decimal_read token_ok ->
    forall resolve default_tag analyze simple_key text emit_chars scan_chars,
      syntax_law resolve default_tag analyze simple_key text emit_chars scan_chars ->
      forall t, representable t = true -> tokens_ok token_ok t = true ->
        exists txt,
          yaml_dump_m float_text date_text datetime_text resolve default_tag analyze simple_key
                      text emit_chars t = Some txt /\
          yaml_load_m float_read timestamp_read decimal_read resolve default_tag text scan_chars txt
          = Some t.
Proof. exact yaml_roundtrip_m. Qed.
Print Assumptions C05_yaml_roundtrip_from_syntax.

(* writing raises RepresenterError exactly for the values without a representer *)
Theorem C05_model_dump_fails :
  forall float_text date_text datetime_text resolve default_tag analyze simple_key text emit_chars t,
    representable t = false ->
    yaml_dump_m float_text date_text datetime_text resolve default_tag analyze simple_key
                text emit_chars t = None.
Proof. exact yaml_dump_m_fails. Qed.
Print Assumptions C05_model_dump_fails.

(* the two file-level theorems over the modelled text layer *)
Theorem C05_file_read_write_model :
  forall float_text date_text datetime_text float_read timestamp_read decimal_read token_ok,
    codec_law float_text date_text datetime_text float_read timestamp_read decimal_read token_ok ->
    forall resolve default_tag analyze simple_key text emit_chars scan_chars,
      syntax_law resolve default_tag analyze simple_key text emit_chars scan_chars ->
      forall g, snapshot_ok g = true -> tokens_ok token_ok (save g) = true ->
        exists txt g',
          write_file text (yaml_dump_m float_text date_text datetime_text resolve default_tag analyze
                                       simple_key text emit_chars) g = Ok txt /\
          read_file text (yaml_load_m float_read timestamp_read decimal_read resolve default_tag
                                      text scan_chars) txt = Ok g' /\
          restored g g'.
Proof. exact read_write_m. Qed.
Print Assumptions C05_file_read_write_model.

Theorem C05_file_rewrite_same_model :
  forall float_text date_text datetime_text float_read timestamp_read decimal_read token_ok,
    codec_law float_text date_text datetime_text float_read timestamp_read decimal_read token_ok ->
    forall resolve default_tag analyze simple_key text emit_chars scan_chars,
      syntax_law resolve default_tag analyze simple_key text emit_chars scan_chars ->
      forall n g txt, nodup_deps (g_deps g) = true -> tokens_ok token_ok (save g) = true ->
        write_file text (yaml_dump_m float_text date_text datetime_text resolve default_tag analyze
                                     simple_key text emit_chars) g = Ok txt ->
        rewrite_chain text
                      (yaml_dump_m float_text date_text datetime_text resolve default_tag analyze
                                   simple_key text emit_chars)
                      (yaml_load_m float_read timestamp_read decimal_read resolve default_tag
                                   text scan_chars) n txt = Ok txt.
Proof. exact rewrite_chain_same_m. Qed.
Print Assumptions C05_file_rewrite_same_model.

(* ---- inter-table references while a run continues (OrderedSet.add for every reference met) ---- *)
(* what was recorded so far stays in front, in its order *)
Theorem C05_deps_prefix :
  forall news l, exists tail, record_deps l news = (l ++ tail)%list.
Proof. exact record_prefix. Qed.
Print Assumptions C05_deps_prefix.

(* a run that meets only known references leaves the list (hence the file) unchanged *)
Theorem C05_deps_unchanged_when_known :
  forall news l, (forall d, In d news -> In d l) -> record_deps l news = l.
Proof. exact record_known. Qed.
Print Assumptions C05_deps_unchanged_when_known.

(* exactly the old and the newly met references are recorded, each once *)
Theorem C05_deps_complete : forall news l d, In d news -> In d (record_deps l news).
Proof. exact record_complete. Qed.
Print Assumptions C05_deps_complete.

Theorem C05_deps_sound : forall news l d, In d (record_deps l news) -> In d l \/ In d news.
Proof. exact record_sound. Qed.
Print Assumptions C05_deps_sound.

Theorem C05_deps_stay_a_set :
  forall news l, nodup_deps l = true -> nodup_deps (record_deps l news) = true.
Proof. exact record_nodup. Qed.
Print Assumptions C05_deps_stay_a_set.

(* a continued run starts from the references of the file: they stay in front whatever it generates,
   they are the whole list if it meets nothing new, and the (table, field) -> target table lookups
   that the CCI mapping is written from are those of the run that wrote the file *)
Theorem C05_deps_after_load :
  forall g g' news,
    nodup_deps (g_deps g) = true -> load (save g) = Ok g' ->
    (exists tail, continue_deps g' news = (g_deps g ++ tail)%list) /\
    ((forall d, In d news -> In d (g_deps g)) -> continue_deps g' news = g_deps g) /\
    (forall from field, lookup_target (g_deps g') from field = lookup_target (g_deps g) from field).
Proof. exact continue_after_load. Qed.
Print Assumptions C05_deps_after_load.

(* a continued run starts from exactly the loaded state, whatever the recipe's templates say *)
Theorem C05_resume_uses_file :
  forall g tpls today, initialize_globals (Some g) tpls today = g.
Proof. reflexivity. Qed.
Print Assumptions C05_resume_uses_file.

(* ---- refutations of the full statement (known findings) ---- *)
(* K1: a row-valued field of a just_once row is not in the file *)
Theorem C05_row_valued_field_refuted :
  exists g, wf g = true /\ is_ok (dump_check g) = true /\
            forall g', load (save g) = Ok g' -> ~ restored g g'.
Proof. exact row_valued_field_refuted. Qed.
Print Assumptions C05_row_valued_field_refuted.

(* K2: forward reference / random reference / literal reference: writing raises *)
Theorem C05_unrepresentable_value_refuted :
  forall v, In v [VSlot "B" (Some 1); VLazy "B" 1; VRef "Zed" 5] ->
            wf (k2_state v) = true /\ dump_check (k2_state v) = representer_error.
Proof. exact unrepresentable_value_refuted. Qed.
Print Assumptions C05_unrepresentable_value_refuted.

(* repaired part of K2 (Decimal representer + loader): every Decimal is written and, by
   C05_load_save, restored with its type tag *)
Theorem C05_decimal_value_restored :
  forall txt, snapshot_ok (k2_state (VDec txt)) = true /\
              dump_check (k2_state (VDec txt)) = Ok (save (k2_state (VDec txt))).
Proof. exact decimal_value_restored. Qed.
Print Assumptions C05_decimal_value_restored.

Theorem C05_dump_total_refuted : ~ (forall g, wf g = true -> is_ok (dump_check g) = true).
Proof. exact dump_total_refuted. Qed.
Print Assumptions C05_dump_total_refuted.

(* ---- non-vacuity: a concrete state with YAML-hostile strings satisfies the hypotheses ---- *)
Definition ex_row : row :=
  mkRow "J" [("s_num", VStr "0012"); ("id", VInt 1); ("s_yes", VStr "yes"); ("null", VStr "null");
             ("big", VInt (2 ^ 200)); ("flt", VFloat "0x1.5555555555555p-2"); ("b", VBool true);
             ("n", VNull); ("d", VDate 737484); ("amount", VDec "1.50"); ("dt", VDateTime 63718534800000123 (Some 19800));
             ("a: b", VStr (bs [97; 10; 98; 9; 194; 133]))].

Definition ex_state : globals :=
  mkGlobals [("P_", 3); ("J", 1)] []
            [("jj", ex_row)] [("J", ex_row)]
            [("jj", "J"); ("P_", "P_"); ("J", "J")] (VDate 738945)
            [mkDep "P_" "J" "owner"; mkDep "J" "K" "b"]
            (mkTr [("jj", "J"); ("P_", "P_"); ("J", "J")] [("P_", 3); ("J", 1)]) [].

Example C05_ex_ok : snapshot_ok ex_state = true.
Proof. vm_compute. reflexivity. Qed.

Example C05_ex_fields_sorted_in_file :
  match save ex_state with
  | TMap (("id_manager", _) :: ("intertable_dependencies", _) :: ("nicknames_and_tables", _) ::
          ("persistent_nicknames", TMap [("jj", TMap [("_tablename", _); ("_values", TMap vs)])]) :: _) =>
    map fst vs = ["a: b"; "amount"; "b"; "big"; "d"; "dt"; "flt"; "id"; "n"; "null"; "s_num"; "s_yes"]
  | _ => False
  end.
Proof. vm_compute. reflexivity. Qed.

Example C05_ex_roundtrip :
  match load (save ex_state) with
  | Ok g' => lookup "s_num" (r_values (match lookup "jj" (g_nicks g') with Some r => r | None => ex_row end))
             = Some (VStr "0012") /\
             lookup "J" (g_start_ids g') = Some 2 /\ g_deps g' = g_deps ex_state /\
             save g' = save ex_state
  | Err _ => False
  end.
Proof. vm_compute. repeat split; reflexivity. Qed.

(* regression of the repaired Decimal case: the former K2 witness round-trips with its type *)
Example C05_ex_decimal_roundtrip :
  match load (save (k2_state (VDec "1.50"))) with
  | Ok g' => match lookup "jj" (g_nicks g'), lookup "J" (g_tables g') with
             | Some r1, Some r2 => lookup "f" (r_values r1) = Some (VDec "1.50") /\
                                   lookup "f" (r_values r2) = Some (VDec "1.50")
             | _, _ => False
             end
  | Err _ => False
  end.
Proof. vm_compute. split; reflexivity. Qed.

Example C05_ex_chain : (do g' <- chain 4 ex_state; dump_check g') = dump_check ex_state.
Proof. vm_compute. reflexivity. Qed.

Example C05_ex_k1_partial :
  match load (save k1_state) with
  | Ok g' => match lookup "aa" (g_nicks g') with
             | Some r => lookup "b" (r_values r) = None /\ lookup "n" (r_values r) = Some (VInt 5)
             | None => False
             end
  | Err _ => False
  end.
Proof. vm_compute. split; reflexivity. Qed.

(* ---- non-vacuity of the scalar layer: PyYAML's resolver as modelled, on YAML-hostile texts ---- *)
Example C05_ex_resolver :
  map resolve_plain ["0012"; "12"; "-7"; "0x1F"; "1_000"; "190:20:30"; "1e5"; "1.0e+5"; ".inf"; "-.INF"; ".NaN";
                     "yes"; "NO"; "y"; "null"; "~"; ""; "Null "; "2020-02-29"; "2020-2-29"; "2001-1-1 5:00:00 +5";
                     "<<"; "="; "!"; "a: b"; bs [49; 50; 10]; bs [239; 188; 145]]
  = [TgInt; TgInt; TgInt; TgInt; TgInt; TgInt; TgStr; TgFloat; TgFloat; TgFloat; TgFloat;
     TgBool; TgBool; TgStr; TgNull; TgNull; TgNull; TgStr; TgTimestamp; TgStr; TgTimestamp;
     TgMerge; TgValue; TgYaml; TgStr; TgInt; TgStr].
Proof. vm_compute. reflexivity. Qed.

Definition ex_an : string -> analysis := fun _ => mkAn false false true true true.

(* the str "12" must not be written plain; the int 12 is; both come back with their own tag *)
Example C05_ex_string_that_looks_like_int :
  emit_scalar resolve_plain TgStr ex_an false false (mkSN TgStr "12") = mkPS None false "12" /\
  emit_scalar resolve_plain TgStr ex_an false false (mkSN TgInt "12") = mkPS None true "12" /\
  emit_scalar resolve_plain TgStr ex_an false false (mkSN TgInt "abc") = mkPS (Some TgInt) false "abc" /\
  emit_scalar resolve_plain TgStr ex_an false false (mkSN decimal_tag "1.50") = mkPS (Some decimal_tag) false "1.50" /\
  composed_tag resolve_plain TgStr (mkPS None false "12") = TgStr /\
  composed_tag resolve_plain TgStr (mkPS None true "12") = TgInt.
Proof. vm_compute. repeat split; reflexivity. Qed.

Example C05_ex_int_texts :
  map int_text [0; 7; -7; 2 ^ 64; - 10 ^ 30] =
  ["0"; "7"; "-7"; "18446744073709551616"; "-1000000000000000000000000000000"] /\
  map construct_int ["18446744073709551616"; "-7"; "1_000"; "0x1F"; "1:30"; ""] =
  [Some (2 ^ 64); Some (-7); Some 1000; None; None; None].
Proof. vm_compute. split; reflexivity. Qed.

(* one field of one table referring to two tables (Task.WhoId -> Contact | Lead): both entries are
   restored, in order; the lookup of the CCI mapping is the last one; a continued run that meets
   them again and one new reference appends only the new one *)
Definition ex_poly : globals :=
  mkGlobals [("Task", 2)] [] [] [] [("Task", "Task")] (VDate 738945)
            [mkDep "Task" "Contact" "WhoId"; mkDep "Task" "Lead" "WhoId"; mkDep "Attachment" "Task" "ParentId"]
            (mkTr [("Task", "Task")] [("Task", 2)]) [].

Example C05_ex_polymorphic_lookup :
  match load (save ex_poly) with
  | Ok g' => g_deps g' = g_deps ex_poly /\
             lookup_target (g_deps g') "Task" "WhoId" = Some "Lead" /\
             continue_deps g' [mkDep "Task" "Lead" "WhoId"; mkDep "Note" "Task" "ParentId";
                               mkDep "Task" "Contact" "WhoId"]
             = (g_deps ex_poly ++ [mkDep "Note" "Task" "ParentId"])%list
  | Err _ => False
  end.
Proof. vm_compute. repeat split; reflexivity. Qed.
