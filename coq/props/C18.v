(* C18 — fake contact data is safe: reserved e-mail domains, bounded unique usernames,
   spelling-insensitive provider names.
   Model: theories/Fake.v (snowfakery/fakedata/fake_data_generator.py).
   Only statements here; proofs live in proofs/FakeP.v.

   Strings are lists of code points.  Everything Faker returns is a universally quantified
   argument; what the theorems need to know about it is a named hypothesis in the statement
   (the harness checks these facts on Faker's real data for every locale).                  *)
From Coq Require Import ZArith List Bool String.
From SFV Require Import Base Fake.
From SFV.P Require Import FakeP.
Import ListNotations. Open Scope Z_scope.

(* `fake: email`, both branches: whatever first/last names are in local_vars (any code points,
   present or not), whichever template and year are drawn — the result is
   <no "@"> @ <reserved example domain>, provided Faker's safe_domain_name() is reserved and
   Faker's ascii_safe_email() is such an address. *)
Theorem C18_email_reserved_domain :
  forall (dom ase : str),
    reserved dom = true ->                 (* f.safe_domain_name() *)
    safe_addr ase = true ->                (* f.ascii_safe_email() *)
    forall matching lv tpl year e,
      email_of matching lv tpl year dom ase = Ok e ->
      (exists local d, e = local ++ [AT] ++ d /\ no_at local = true /\ reserved d = true)
      /\ safe_addr e = true /\ count_at e = 1%nat.
Proof. exact email_reserved_domain. Qed.
Print Assumptions C18_email_reserved_domain.

(* … and a value is always produced (the only possible failure, an index into the year text,
   cannot happen for four-digit years) *)
Theorem C18_email_total :
  forall (dom ase : str) matching lv tpl year,
    0 <= tpl < 60 -> 1000 <= year <= 9999 ->
    exists e, email_of matching lv tpl year dom ase = Ok e.
Proof. exact email_total. Qed.
Print Assumptions C18_email_total.

(* both names ASCII (with at least one letter or digit each): the local part is the cleaned
   first name (padded to two characters with "_"), its initial or its first two characters;
   one of the five separators; the cleaned last name; 0, 1, 2 or 4 digits of the year *)
Theorem C18_email_from_names :
  forall lv fr lr,
    assoc "firstname" lv = Some fr -> assoc "lastname" lv = Some lr ->
    isascii fr = true -> isascii lr = true ->
    filter isalnum fr <> [] -> filter isalnum lr <> [] ->
    forall tpl year dom ase, 0 <= tpl < 60 -> 1000 <= year <= 9999 ->
    exists fp sep yp fpart ypart,
      email_of true lv tpl year dom ase
        = Ok (fpart ++ sep ++ filter isalnum lr ++ ypart ++ [AT] ++ dom) /\
      fpat_apply fp (ljust2 (filter isalnum fr)) = Ok fpart /\
      In sep seps /\
      ypat_apply yp (dec year) = Ok ypart.
Proof. exact email_from_names. Qed.
Print Assumptions C18_email_from_names.

(* a non-ASCII first name (likewise: missing, empty after cleaning, or matching=False)
   never reaches the address: Faker's ascii_safe_email() is returned unchanged *)
Theorem C18_email_non_ascii_falls_back :
  forall matching lv fr tpl year dom ase,
    assoc "firstname" lv = Some fr -> isascii fr = false ->
    email_of matching lv tpl year dom ase = Ok ase.
Proof. exact email_non_ascii_falls_back. Qed.
Print Assumptions C18_email_non_ascii_falls_back.

(* `fake: username`: at most 80 characters, exactly one "@", ends in "@" ++ host *)
Theorem C18_username_shape :
  forall (host uuid ff fl : str),
    (length host <= 79)%nat -> no_at host = true ->       (* f.hostname() *)
    no_at uuid = true ->                                   (* f.uuid4() *)
    no_at ff = true -> no_at fl = true ->                  (* f.first_name(), f.last_name() *)
    forall matching lv,
      (length (user_name_of matching lv host ff fl uuid) <= 80)%nat /\
      count_at (user_name_of matching lv host ff fl uuid) = 1%nat /\
      exists np, user_name_of matching lv host ff fl uuid = np ++ [AT] ++ host /\ no_at np = true.
Proof. exact username_shape. Qed.
Print Assumptions C18_username_shape.

(* Uniqueness.  The full statement "uuid1 <> uuid2 -> user_name … uuid1 <> user_name … uuid2"
   was false before the repair of finding C18-K1 (the truncation to 80 characters cut the uuid,
   down to nothing: C18_ex_username_k1_regression below is the old counterexample).  The
   repaired code cuts the names first and keeps at least 16 characters of the uuid.  Proved:
   (1) any two usernames, of any two rows, in which names and uuid fit completely
       (|first| + 1 + |last| + 1 + 36 <= 79 - |host|) differ when the uuids do; *)
Theorem C18_username_unique_partial :
  forall m1 lv1 host1 ff1 fl1 uuid1 m2 lv2 host2 ff2 fl2 uuid2,
    no_at ff1 = true -> no_at fl1 = true -> no_at uuid1 = true ->
    no_at ff2 = true -> no_at fl2 = true -> no_at uuid2 = true ->
    length uuid1 = 36%nat -> length uuid2 = 36%nat ->
    (length (names_of m1 lv1 ff1 fl1) + 37 <= 79 - length host1)%nat ->
    (length (names_of m2 lv2 ff2 fl2) + 37 <= 79 - length host2)%nat ->
    uuid1 <> uuid2 ->
    user_name_of m1 lv1 host1 ff1 fl1 uuid1 <> user_name_of m2 lv2 host2 ff2 fl2 uuid2.
Proof. exact username_unique_partial. Qed.
Print Assumptions C18_username_unique_partial.

(* (2) for one row (same names, same host), whatever the lengths of the names: if the host name
   has at most 62 characters, the usernames differ as soon as the first 16 characters of the
   uuids differ.  (What is still missing from the full statement: uuids that agree on their
   first 16 characters and names too long for the rest — C18_ex_username_residue.) *)
Theorem C18_username_unique_prefix :
  forall m lv host ff fl uuid1 uuid2,
    (length host <= 62)%nat ->
    firstn 16 uuid1 <> firstn 16 uuid2 ->
    user_name_of m lv host ff fl uuid1 <> user_name_of m lv host ff fl uuid2.
Proof. exact username_unique_prefix. Qed.
Print Assumptions C18_username_unique_prefix.

(* Name lookup.  [fa]/[sa] = attribute names of the Faker object / of FakeNames that
   obj_to_func_list keeps, [val] = the object each attribute is bound to.  Two spellings with
   the same canonical form (lower case, underscores removed) that are both found denote the
   same object — provided neither attribute list binds two different objects to one canonical
   form, which the harness evaluates (Fake.hyps_hold) on the real lists of every locale.
   (Before the repair of finding C18-K2 a third condition was needed, false for ko_KR.) *)
Theorem C18_lookup_spelling_invariant :
  forall (fa sa : list string) (V : Type) (val : prov -> V),
    (forall n1 n2, In n1 fa -> In n2 fa -> canon n1 = canon n2 -> val (Fk, n1) = val (Fk, n2)) ->
    (forall n1 n2, In n1 sa -> In n2 sa -> canon n1 = canon n2 -> val (Sf, n1) = val (Sf, n2)) ->
    forall q1 q2 p1 p2,
      canon q1 = canon q2 ->
      lookup (build fa sa) q1 = Some p1 -> lookup (build fa sa) q2 = Some p2 ->
      val p1 = val p2.
Proof. intros fa sa V val. exact (lookup_spelling_invariant fa sa val). Qed.
Print Assumptions C18_lookup_spelling_invariant.

(* the decidable form of those conditions, as evaluated in the correspondence check *)
Theorem C18_lookup_spelling_invariant_checked :
  forall fa sa sigs, hyps_hold fa sa sigs = true ->
  forall q1 q2 p1 p2, canon q1 = canon q2 ->
    lookup (build fa sa) q1 = Some p1 -> lookup (build fa sa) q2 = Some p2 ->
    sig_of sigs (Some p1) = sig_of sigs (Some p2).
Proof. exact hyps_hold_spelling_invariant. Qed.
Print Assumptions C18_lookup_spelling_invariant_checked.

(* Snowfakery's names win over Faker's (no hypothesis): a query that has the canonical form of
   a FakeNames attribute and is accepted at all is answered by FakeNames *)
Theorem C18_snowfakery_names_win :
  forall (fa sa : list string) q n p,
    In n sa -> canon q = canon n -> lookup (build fa sa) q = Some p ->
    exists n', p = (Sf, n') /\ In n' sa /\ canon n' = canon n.
Proof. exact snowfakery_names_win. Qed.
Print Assumptions C18_snowfakery_names_win.

(* which spellings are accepted at all: case variants with all or none of the underscores
   (a spelling with only some of them, e.g. datetime_between, is rejected with an error —
   it denotes nothing rather than something else) *)
Theorem C18_lookup_found :
  forall (fa sa : list string) q n,
    In n fa \/ In n sa -> (lower q = lower n \/ lower q = canon n) ->
    lookup (build fa sa) q <> None.
Proof. exact lookup_found. Qed.
Print Assumptions C18_lookup_found.

(* Row level: the e-mail / username steps of the row interpreter inherit the guarantees from
   the Faker values they consume, and every `fake:` result is recorded under the canonical
   name (which is how any spelling of first_name / last_name reaches the later e-mail). *)
Theorem C18_row_email_safe :
  forall this_year matching s e s',
    (forall v, In ("safe_domain_name"%string, v) (s_flog s) -> reserved v = true) ->
    (forall v, In ("ascii_safe_email"%string, v) (s_flog s) -> safe_addr v = true) ->
    fake_email this_year matching s = Ok (e, s') -> safe_addr e = true /\ count_at e = 1%nat.
Proof. exact fake_email_safe. Qed.
Print Assumptions C18_row_email_safe.

Theorem C18_row_username_shape :
  forall matching s u s',
    (forall m v, In (m, v) (s_flog s) -> no_at v = true) ->
    (forall v, In ("hostname"%string, v) (s_flog s) -> (length v <= 79)%nat) ->
    fake_user_name matching s = Ok (u, s') -> (length u <= 80)%nat /\ count_at u = 1%nat.
Proof. exact fake_user_name_shape. Qed.
Print Assumptions C18_row_username_shape.

Theorem C18_row_result_recorded :
  forall tbl ni this_year q matching s v s',
    fake_step tbl ni this_year q matching s = Ok (v, s') -> assoc (canon q) (s_lv s') = Some v.
Proof. exact fake_step_records. Qed.
Print Assumptions C18_row_result_recorded.

(* A nested object or friend ([OPush] … [OPop]) starts with empty local_vars and cannot change
   those of the enclosing template: the fields after it are evaluated with exactly the
   local_vars from before it (only the Faker log and the random draws advance). *)
Theorem C18_nested_context_isolated :
  forall tbl ni this_year inner rest stack s,
    run_ops tbl ni this_year (OPush :: fake_ops inner ++ OPop :: rest) stack s
    = (do '(vs, s1) <- run_fakes tbl ni this_year inner (mkSt [] (s_flog s) (s_draws s));
       do ws <- run_ops tbl ni this_year rest stack (mkSt (s_lv s) (s_flog s1) (s_draws s1));
       Ok (vs ++ ws)).
Proof. exact nested_context_isolated. Qed.
Print Assumptions C18_nested_context_isolated.

(* Whatever way a recipe asks for a fake value — block `fake: X`, dotted `fake.X:`, formula
   `${{fake.X}}` / `${{fake.X()}}` (EvaluationNamespace.fake, StructuredValue.render,
   FakerTemplateLibrary.__getattr__ + StringGenerator; dialect 2 or 3) — it is one [fake_step];
   the harness runs every one of these forms for every spelling and compares with this step.
   The step leaves local_vars alone except for ONE new binding under the canonical form of the
   spelling used. *)
Theorem C18_row_step_remembers_canonical :
  forall tbl ni this_year q matching s v s',
    fake_step tbl ni this_year q matching s = Ok (v, s') -> s_lv s' = (canon q, v) :: s_lv s.
Proof. exact fake_step_lv. Qed.
Print Assumptions C18_row_step_remembers_canonical.

(* first and last name asked for in ANY spellings q1, q2 (all they share is the canonical form),
   followed by any fakes that are not names: both are what the e-mail / username will see *)
Theorem C18_row_names_reach_contact :
  forall tbl ni y q1 m1 q2 m2 mid s v1 s1 v2 s2 vs s3,
    canon q1 = "firstname"%string -> canon q2 = "lastname"%string ->
    (forall q m, In (q, m) mid -> canon q <> "firstname"%string /\ canon q <> "lastname"%string) ->
    fake_step tbl ni y q1 m1 s = Ok (v1, s1) ->
    fake_step tbl ni y q2 m2 s1 = Ok (v2, s2) ->
    run_fakes tbl ni y mid s2 = Ok (vs, s3) ->
    assoc "firstname" (s_lv s3) = Some v1 /\ assoc "lastname" (s_lv s3) = Some v2.
Proof. exact row_names_reach_contact. Qed.
Print Assumptions C18_row_names_reach_contact.

(* ... and when both are ASCII with a letter or digit each, the e-mail of that row IS one of the
   templates filled with the cleaned names (never Faker's ascii_safe_email of random names) *)
Theorem C18_row_email_from_names_any_spelling :
  forall tbl ni y q1 m1 q2 m2 mid s v1 s1 v2 s2 vs s3 e s4,
    canon q1 = "firstname"%string -> canon q2 = "lastname"%string ->
    (forall q m, In (q, m) mid -> canon q <> "firstname"%string /\ canon q <> "lastname"%string) ->
    fake_step tbl ni y q1 m1 s = Ok (v1, s1) ->
    fake_step tbl ni y q2 m2 s1 = Ok (v2, s2) ->
    run_fakes tbl ni y mid s2 = Ok (vs, s3) ->
    isascii v1 = true -> isascii v2 = true ->
    filter isalnum v1 <> [] -> filter isalnum v2 <> [] ->
    fake_email y true s3 = Ok (e, s4) ->
    exists t yy dom, 0 <= t < n_templates /\ 0 <= yy < n_years /\
      In ("safe_domain_name"%string, dom) (s_flog s3) /\
      email_matching (filter isalnum v1) (filter isalnum v2) t (y - 80 + yy) dom = Ok e.
Proof. exact row_email_from_names_any_spelling. Qed.
Print Assumptions C18_row_email_from_names_any_spelling.

(* ---- non-vacuity: concrete instances of the hypotheses ---- *)
Open Scope string_scope.

Definition ex_lv : lvars := [("lastname", of_string "O'Brien"); ("firstname", of_string "J")].

Example C18_ex_email :
  email_of true ex_lv 27 1987 (of_string "example.com") (of_string "x@example.org")
  = Ok (of_string "J.OBrien@example.com")
  /\ email_of true ex_lv 40 1987 (of_string "example.net") (of_string "x@example.org")
  = Ok (of_string "J_OBrien1987@example.net")
  /\ email_of true [("lastname", of_string "Smith"); ("firstname", [82; 101; 110; 233])] 27 1987
              (of_string "example.com") (of_string "x@example.org")
  = Ok (of_string "x@example.org")
  /\ safe_addr (of_string "x@example.org") = true /\ reserved (of_string "example.com") = true.
Proof. vm_compute. repeat split; reflexivity. Qed.

Example C18_ex_username :
  user_name_of true ex_lv (of_string "web-01.smith.com") [] [] k1_uuid1
  = of_string "J.OBrien_ba2eaeb9-5c8e-474a-9d9b-d5ad0f343e7a@web-01.smith.com"
  /\ length (user_name_of true k1_lv k1_host [] [] k1_uuid1) = 80%nat.
Proof. vm_compute. repeat split; reflexivity. Qed.

(* regression for finding C18-K1 (names and host as Faker produced them for en_TH): the two
   uuids used to give the same username "Pattatomporn.Lertsattayanusak_@desktop-68…" *)
Example C18_ex_username_k1_regression :
  user_name_of true k1_lv k1_host [] [] k1_uuid1 <> user_name_of true k1_lv k1_host [] [] k1_uuid2
  /\ user_name_of true k1_lv k1_host [] [] k1_uuid1
     = of_string "Pattatomporn._ba2eaeb9-5c8e-47@desktop-68.kongchayasukawut-lertsattayanusak.info".
Proof. exact username_k1_regression. Qed.

(* the residue of the full uniqueness statement *)
Example C18_ex_username_residue :
  exists matching lv host ff fl uuid1 uuid2,
    (length host <= 62)%nat /\ length uuid1 = 36%nat /\ length uuid2 = 36%nat /\
    uuid1 <> uuid2 /\ firstn 16 uuid1 = firstn 16 uuid2 /\
    user_name_of matching lv host ff fl uuid1 = user_name_of matching lv host ff fl uuid2.
Proof. exact username_unique_residue. Qed.

Definition ex_fa := ["email"; "first_name"; "postcode"; "user_name"; "safe_email"].
Definition ex_sa := ["date_time"; "datetime"; "email"; "postalcode"; "user_name"].
Definition ex_sigs := [("date_time", "F:date_time_between"); ("datetime", "F:date_time_between");
                       ("email", "F:ascii_safe_email"); ("postalcode", "F:postcode"); ("user_name", "U")].

Example C18_ex_lookup :
  hyps_hold ex_fa ex_sa ex_sigs = true
  /\ lookup (build ex_fa ex_sa) "FirstName" = Some (Fk, "first_name")
  /\ lookup (build ex_fa ex_sa) "FIRST_NAME" = Some (Fk, "first_name")
  /\ lookup (build ex_fa ex_sa) "Email" = Some (Sf, "email")
  /\ lookup (build ex_fa ex_sa) "UserName" = Some (Sf, "user_name")
  /\ lookup (build ex_fa ex_sa) "Date_Time" = Some (Sf, "date_time")
  /\ lookup (build ex_fa ex_sa) "DateTime" = Some (Sf, "datetime")
  /\ lookup (build ex_fa ex_sa) "first_nam_e" = None
  (* the ko_KR situation (finding C18-K2, repaired): Faker's postal_code next to Snowfakery's
     postalcode — every spelling is answered by Snowfakery *)
  /\ hyps_hold ("postal_code" :: ex_fa) ex_sa ex_sigs = true
  /\ lookup (build ("postal_code" :: ex_fa) ex_sa) "postal_code" = Some (Sf, "postalcode")
  /\ lookup (build ("postal_code" :: ex_fa) ex_sa) "Postal_Code" = Some (Sf, "postalcode")
  /\ lookup (build ("postal_code" :: ex_fa) ex_sa) "PostalCode" = Some (Sf, "postalcode").
Proof. vm_compute. repeat split; reflexivity. Qed.

(* a nested Contact with names of its own between the Account's names and the Account's
   e-mail: the e-mail is made of the Account's names (the demo of notes/missed/C18_r2_mut1) *)
Example C18_ex_nested :
  let tbl := build ("last_name" :: ex_fa) ex_sa in
  run_ops tbl [] 2026
    [OPush; OFake "FirstName" true; OFake "LastName" true;
     OPush; OFake "first_name" true; OFake "last_name" true; OPop;
     OFake "Email" true; OPop] []
    (mkSt [] [("first_name", of_string "Jackson"); ("last_name", of_string "Miles");
              ("first_name", of_string "Bernard"); ("last_name", of_string "Norton");
              ("safe_domain_name", of_string "example.org")] [(60, 27); (71, 22)])
  = Ok [of_string "Jackson"; of_string "Miles"; of_string "Bernard"; of_string "Norton";
        of_string "J.Miles@example.org"].
Proof. vm_compute. reflexivity. Qed.

(* the recipe of notes/missed/r4_C18_2 (names asked for as ${{fake.first_name}} / ${{fake.LAST_NAME}},
   then `fake: Email`): the spellings satisfy the hypotheses of the three theorems above, and the
   row gives the same e-mail as with FirstName / LastName — built from Kristina Vega *)
Example C18_ex_spellings_reach_email :
  let tbl := build ("last_name" :: ex_fa) ex_sa in
  let s0 := mkSt [] [("first_name", of_string "Kristina"); ("last_name", of_string "Vega");
                     ("safe_domain_name", of_string "example.net")] [(60, 27); (71, 22)] in
  canon "first_name" = "firstname" /\ canon "First_Name" = "firstname" /\ canon "LAST_NAME" = "lastname"
  /\ run_ops tbl [] 2026 [OPush; OFake "first_name" true; OFake "LAST_NAME" true; OFake "Email" true; OPop] [] s0
     = Ok [of_string "Kristina"; of_string "Vega"; of_string "K.Vega@example.net"]
  /\ run_ops tbl [] 2026 [OPush; OFake "FirstName" true; OFake "LastName" true; OFake "Email" true; OPop] [] s0
     = Ok [of_string "Kristina"; of_string "Vega"; of_string "K.Vega@example.net"]
  /\ (exists v1 s1 v2 s2 e s4,
        fake_step tbl [] 2026 "First_Name" true s0 = Ok (v1, s1) /\
        fake_step tbl [] 2026 "LAST_NAME" false s1 = Ok (v2, s2) /\
        isascii v1 = true /\ isascii v2 = true /\ filter isalnum v1 <> [] /\ filter isalnum v2 <> [] /\
        fake_email 2026 true s2 = Ok (e, s4)).
Proof.
  vm_compute. repeat split; try reflexivity.
  do 6 eexists. repeat split; try reflexivity; discriminate.
Qed.
