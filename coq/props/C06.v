(* C06 — just_once rows are created exactly once per dataset.
   Model: theories/Interp.v.  Proofs: proofs/OnceP.v.                                      *)
From Coq Require Import ZArith List.
From SFV Require Import Base Interp.
From SFV.P Require Import InterpP InterpHeapP RefsP OnceP.
Import ListNotations. Open Scope Z_scope. Open Scope string_scope.

(* the skip rule: a just_once statement does nothing whenever `continuing` holds — i.e. in
   every iteration after the first and in every iteration of a continued run (see
   [iterations] and [run_one] in Interp.v, which pass continuing = true there) *)
Theorem C06_just_once_skipped :
  forall fuel e t s, t_once t = true -> run (S fuel) e (TStmt (SObj t) true) s = Ok (s, RUnit).
Proof. exact just_once_skipped. Qed.
Print Assumptions C06_just_once_skipped.

(* Any number of later iterations (just_once only at top level, as the parser enforces):
   the bindings nickname -> row and table -> row of just_once rows are untouched and every
   row keeps its table, id and child index. *)
Theorem C06_later_iterations_keep_singletons :
  forall k e stmts s s',
    once_top_only stmts = true -> iterations k e stmts true s = Ok s' ->
    same_persist s s' /\ heap_ext s s'.
Proof. exact later_iterations_keep_singletons_k. Qed.
Print Assumptions C06_later_iterations_keep_singletons.

(* every later use of a just_once nickname / table name denotes the same row (same handle,
   same table, same id) *)
Theorem C06_denotes_same_row :
  forall k e stmts s s' n h c,
    once_top_only stmts = true -> iterations k e stmts true s = Ok s' ->
    (lookup n (p_nicks s) = Some h \/ lookup n (p_tables s) = Some h) ->
    nth_error (heap s) h = Some c ->
    (lookup n (p_nicks s') = Some h \/ lookup n (p_tables s') = Some h) /\
    exists c', nth_error (heap s') h = Some c' /\ c_table c' = c_table c /\ c_id c' = c_id c.
Proof. exact singleton_denotation_stable. Qed.
Print Assumptions C06_denotes_same_row.

(* no task that is free of just_once templates can add or replace a just_once binding *)
Theorem C06_only_just_once_templates_bind :
  forall fuel e tk s s' r, run fuel e tk s = Ok (s', r) -> task_nf tk = true -> same_persist s s'.
Proof. exact run_persist. Qed.
Print Assumptions C06_only_just_once_templates_bind.

(* across a continuation the persistent names keep denoting rows with the same table, id
   and child index *)
Theorem C06_survive_continuation :
  forall e s c s0,
    save s = Ok c -> load e c = Ok s0 ->
    p_nicks s0 = p_nicks s /\ p_tables s0 = p_tables s /\
    forall h cl, nth_error (heap s) h = Some cl ->
      exists c', nth_error (heap s0) h = Some c' /\
                 c_table c' = c_table cl /\ c_id c' = c_id cl /\ c_index c' = c_index cl.
Proof. exact singletons_survive_continuation. Qed.
Print Assumptions C06_survive_continuation.

(* non-vacuity: three iterations split 1+2 over a continuation; the just_once rows appear once,
   later references denote them with their original ids, an ordinary template of the same
   table shadows the table name but not the nickname *)
Example C06_ex :
  run_history (mkRecipe 3 []
    [SObj (Tpl "J" (Some "jj") (Some (FLitInt 2)) true [("n", FFormula [PExpr (EVar "child_index")])] []);
     SObj (Tpl "A" None None false [("a", FRef "jj"); ("b", FRef "J"); ("c", FFormula [PExpr (EAttr (EVar "jj") "n")])] []);
     SObj (Tpl "J" None None false [("n", FLitInt 100)] [])] []) [1; 2]%nat None
  = Ok [[("J", [("id", OInt 1); ("n", OInt 0)]); ("J", [("id", OInt 2); ("n", OInt 1)]);
         ("A", [("id", OInt 1); ("a", ORef "J" 2); ("b", ORef "J" 2); ("c", OInt 1)]);
         ("J", [("id", OInt 3); ("n", OInt 100)])];
        [("A", [("id", OInt 2); ("a", ORef "J" 2); ("b", ORef "J" 2); ("c", OInt 1)]);
         ("J", [("id", OInt 4); ("n", OInt 100)]);
         ("A", [("id", OInt 3); ("a", ORef "J" 2); ("b", ORef "J" 2); ("c", OInt 1)]);
         ("J", [("id", OInt 5); ("n", OInt 100)])]].
Proof. vm_compute. reflexivity. Qed.

(* ---- which row a name denotes once the per-iteration names are gone (Globals.object_names) ---- *)

(* A name that is the TABLE of one just_once row and the NICKNAME of another (legal; only a warning)
   denotes the table's row in later iterations and continued runs, as in the iteration that made them. *)
Theorem C06_persistent_table_entry_wins :
  forall s n h,
    lookup n (last_by_table s) = None -> lookup n (nick_objs s) = None ->
    lookup n (p_tables s) = Some h -> object_name s n = Some (VRow h).
Proof. exact persistent_table_entry_wins. Qed.
Print Assumptions C06_persistent_table_entry_wins.

Theorem C06_persistent_nickname_entry_last :
  forall s n h,
    lookup n (last_by_table s) = None -> lookup n (nick_objs s) = None -> lookup n (p_tables s) = None ->
    lookup n (p_nicks s) = Some h -> object_name s n = Some (VRow h).
Proof. exact persistent_nickname_entry_last. Qed.
Print Assumptions C06_persistent_nickname_entry_last.

(* non-vacuity, through the interpreter and a continuation: Region rows nicknamed `Office`, one Office
   row; `reference: Office` denotes Office(1) in every iteration of both runs *)
Example C06_nickname_spelled_like_a_just_once_table :
  run_history (mkRecipe 3 []
    [SObj (Tpl "Region" (Some "Office") (Some (FLitInt 2)) true [("f0", FLitInt 31)] []);
     SObj (Tpl "Office" None None true [("f0", FLitInt 47)] []);
     SObj (Tpl "Desk" None None false [("r", FRef "Office"); ("v", FFormula [PExpr (EAttr (EVar "Office") "f0")])] [])] [])
    [2; 1]%nat None
  = Ok [[("Region", [("id", OInt 1); ("f0", OInt 31)]); ("Region", [("id", OInt 2); ("f0", OInt 31)]);
         ("Office", [("id", OInt 1); ("f0", OInt 47)]);
         ("Desk", [("id", OInt 1); ("r", ORef "Office" 1); ("v", OInt 47)]);
         ("Desk", [("id", OInt 2); ("r", ORef "Office" 1); ("v", OInt 47)])];
        [("Desk", [("id", OInt 3); ("r", ORef "Office" 1); ("v", OInt 47)])]].
Proof. vm_compute. reflexivity. Qed.
