(* C08 — every configured output receives every row, faithfully.
   Model: theories/Streams.v (snowfakery/output_streams.py, api.py configure_output_stream,
   parse_recipe_yaml.py TableInfo), theories/StreamParse.v (parse_recipe_yaml.py: include files,
   macros, nested templates, friends, variables -> registered templates), theories/StreamCodecs.v
   (the csv / json / sqlite-dump / debug text formats as executable writers and readers).
   Only statements here; proofs live in proofs/StreamsP.v, StreamParseP.v, StreamCodecsP.v.

   What each format writes for each value type ([Streams.encode] / [Streams.obs_row]) and the bytes
   of the artefacts ([StreamCodecs.csv_file], [json_doc], [sql_insert], [txt_line]) are tied to
   /repo by the correspondence check on every run: the bytes of every small artefact are read by
   the model's readers and compared with the model's writers.  Theorems below cover the machinery
   that moves rows (the database stream's buffer, the multiplexer, the application layer around
   close()), where the schema comes from (the parser), and the formats themselves (reader . writer
   = identity for all rows).

   Full statement of the last clause ("a run that reports success has lost nothing"):
     forall e outs rows ss clean, env_ok e -> Forall (initial e) outs ->
       app_run e outs rows = Ok (ss, clean) -> Forall (complete e rows) ss
   It is FALSE for the code as it is (finding K9): proved below restricted to clean = true
   (C08_success_means_lossless_partial) and refuted in general (C08_refuted_close_error_swallowed). *)
From Coq Require Import ZArith List String.
From SFV Require Import Base Streams StreamParse StreamCodecs StreamCases.
From SFV.P Require Import StreamsP StreamParseP StreamCodecsP.
Import ListNotations. Open Scope Z_scope.

(* SqlDbOutputStream (hc = true) and the stream inside SqlTextOutputStream (hc = false):
   for EVERY row list, every pair of thresholds and every acceptance behaviour of the
   database, if write_row ... write_row, close() raise nothing then the database holds, per
   table, exactly the rows written for that table, in order, projected onto its columns. *)
Theorem C08_db_lossless :
  forall (acc : row -> bool) (hc : bool) (fl cl : Z) (ti : tables),
    NoDup (map fst ti) -> (forall t, In t (map fst ti) -> t <> ""%string) ->
    forall rows s, db_run acc hc fl cl ti rows = Ok s -> d_db s = expected_db ti rows.
Proof. exact db_lossless. Qed.
Print Assumptions C08_db_lossless.

(* ... and every row of a table the stream knows is in there *)
Theorem C08_db_every_row :
  forall acc hc fl cl ti rows s,
    NoDup (map fst ti) -> (forall t, In t (map fst ti) -> t <> ""%string) ->
    db_run acc hc fl cl ti rows = Ok s ->
    forall t r cols, In (t, r) rows -> In (t, cols) ti -> In (project cols r) (lget t (d_db s)).
Proof. exact db_every_row. Qed.
Print Assumptions C08_db_every_row.

(* nothing raises as long as the database accepts every (projected) row *)
Theorem C08_db_run_ok :
  forall acc hc fl cl ti, NoDup (map fst ti) -> 0 < fl -> 0 < cl ->
    forall rows, accepted acc ti rows -> exists s, db_run acc hc fl cl ti rows = Ok s.
Proof. exact db_run_ok. Qed.
Print Assumptions C08_db_run_ok.

(* the thresholds, for every n: after n writes the counter is n + 1, another connection sees
   exactly the first fl * (n / fl) rows, and database ++ buffer = all n rows *)
Theorem C08_db_visible_prefix :
  forall acc hc fl cl ti rows s,
    NoDup (map fst ti) -> 0 < fl -> 0 < cl -> (fl | cl) ->
    db_writes acc hc fl cl ti (db_init ti) rows = Ok s ->
    d_count s = Z.of_nat (length rows) + 1 /\
    d_db s = expected_db ti (firstn (Z.to_nat (fl * (Z.of_nat (length rows) / fl))) rows) /\
    (forall t cols, In (t, cols) ti ->
       lget t (d_db s) ++ map (project cols) (lget t (d_buf s)) = map (project cols) (rows_of t rows)).
Proof. exact db_visible_prefix. Qed.
Print Assumptions C08_db_visible_prefix.

(* schema inference: every key of a row generated from any template of a recipe is a column
   of the inferred table, for the database and for the CSV header *)
Theorem C08_keys_in_schema :
  forall tpls t, In t tpls -> hidden (t_table t) = false ->
    exists ti, aget (t_table t) (infer tpls) = Some ti /\
               forall k, In k (row_keys t) -> In k (fallback ti) /\ In k (csv_header ti).
Proof. exact keys_in_schema. Qed.
Print Assumptions C08_keys_in_schema.

(* hence the projection in _flush_rows drops no field of such a row and DictWriter does not
   raise on it *)
Theorem C08_generated_row_fits :
  forall tpls t (r : row), In t tpls -> hidden (t_table t) = false ->
    incl (map fst r) (row_keys t) ->
    exists ti, aget (t_table t) (infer tpls) = Some ti /\
      (forall k v, aget k r = Some v -> aget k (project (fallback ti) r) = Some v) /\
      forallb (fun kv => mem (fst kv) (csv_header ti)) r = true.
Proof. exact generated_row_fits. Qed.
Print Assumptions C08_generated_row_fits.

(* MultiplexOutputStream, for any kind of stream: if the multiplexed run raises nothing, every
   stream has received exactly the row sequence (its state is that of running alone) *)
Theorem C08_mux_fanout :
  forall (S R : Type) (write : S -> R -> result S) rows ss ss',
    mux_run write ss rows = Ok ss' ->
    Forall2 (fun s s' => run_one write s rows = Ok s') ss ss'.
Proof. exact @mux_fanout. Qed.
Print Assumptions C08_mux_fanout.

(* and the multiplexer adds no failure of its own *)
Theorem C08_mux_complete :
  forall (S R : Type) (write : S -> R -> result S) rows ss ss',
    Forall2 (fun s s' => run_one write s rows = Ok s') ss ss' ->
    mux_run write ss rows = Ok ss'.
Proof. exact @mux_complete. Qed.
Print Assumptions C08_mux_complete.

(* every value type of the property has an encoder and a writer in every format, integers of
   any size included (sql_int hands the ones beyond 64 bits to the database as text); excluded
   is only what a text file / the database refuses: a string with a lone surrogate outside JSON *)
Theorem C08_encode_total :
  forall f v, encodable f v = true -> exists c, encode f false v = Ok c.
Proof. exact encode_total. Qed.
Print Assumptions C08_encode_total.

(* application layer: a run that reports success AND echoed no "Could not close" has lost
   nothing in any of its outputs *)
Theorem C08_success_means_lossless_partial :
  forall e outs rows ss, env_ok e -> Forall (initial e) outs ->
    app_run e outs rows = Ok (ss, true) -> Forall (complete e rows) ss.
Proof. exact success_means_lossless_partial. Qed.
Print Assumptions C08_success_means_lossless_partial.

(* K9: three rows, one holding a value the database refuses at close time (the string "\ud800"),
   `--dburl sqlite:...`: close() raises inside
   configure_output_stream's try/except, the run reports success, the database is empty; with
   a JSON file and an SQL script next to it, those two are never closed *)
Theorem C08_refuted_close_error_swallowed :
  exists e rows st ss,
    env_ok e /\
    app_run e [init_stream e FDb] rows = Ok ([SDb false st false], false) /\
    total (d_db st) = 0 /\ length rows = 3%nat /\
    (forall crows, cleaned FDb rows = Ok crows -> d_db st <> expected_db (env_tables e) crows) /\
    app_run e (map (init_stream e) [FDb; FJson; FSql]) rows = Ok (ss, false) /\
    map summarise ss = [SumDb true [("A"%string, 0)]; SumFile false 3; SumDb false [("A"%string, 0)]].
Proof. exact success_means_lossless_refuted. Qed.
Print Assumptions C08_refuted_close_error_swallowed.

(* ---- where the schema comes from: the parser ---- *)

(* For every recipe — any number of include files, macros (including macros), templates nested in
   field values or function arguments to any depth, friends, variables — that the parser accepts:
   every template occurring anywhere in any file reachable through include_file was handed to
   TableInfo.register with its table, its update-key flag and ALL its fields (its own and those
   of its macros).  [ms] is the macro dictionary: it holds the macros of every reachable file. *)
Theorem C08_parse_registers_all :
  forall files main regs, parse_recipe files main = Ok regs ->
  exists ms,
    (forall f' m, reach files main f' -> In m (f_macros f') -> In m ms) /\
    forall f' t, reach files main f' -> occ_stmts ms (f_stmts f') t ->
      exists ft, In ft regs /\ t_table ft = tpl_table t /\ t_upd ft = tpl_upd t /\
                 forall f, eff_field ms t f -> In f (t_fields ft).
Proof. exact parse_covers. Qed.
Print Assumptions C08_parse_registers_all.

(* hence every key of every row such a template generates (id, the update-key marker, every
   non-hidden field) is a column of its table in the schema the CSV and SQL outputs are created
   from: DictWriter does not raise and the projection in _flush_rows drops nothing *)
Theorem C08_parse_schema_covers :
  forall files main tables, recipe_schema files main = Ok tables ->
  exists ms,
    (forall f' m, reach files main f' -> In m (f_macros f') -> In m ms) /\
    forall f' t, reach files main f' -> occ_stmts ms (f_stmts f') t -> hidden (tpl_table t) = false ->
      exists ti, aget (tpl_table t) tables = Some ti /\
        forall k, k = "id"%string \/ (tpl_upd t = true /\ k = upd_key) \/ (eff_field ms t k /\ hidden k = false) ->
          In k (fallback ti) /\ In k (csv_header ti).
Proof. exact parse_schema_covers. Qed.
Print Assumptions C08_parse_schema_covers.

(* the fuel parameters of the model's parser (macro expansion depth, include depth) are always
   enough: the model never gives up on a recipe, it accepts it or refuses it like the parser *)
Theorem C08_parse_never_out_of_fuel :
  forall files main, parse_recipe files main <> Err OutOfFuel.
Proof. exact parse_recipe_nofuel. Qed.
Print Assumptions C08_parse_never_out_of_fuel.

(* ---- the formats: reader (writer x) = x ---- *)

(* CSV (csv.writer, excel dialect, QUOTE_MINIMAL, CR LF): for EVERY list of rows of fields of any
   code points — commas, quotes, CR, LF, empty fields, empty rows included — the reader state
   machine returns exactly the rows; so two different tables never give the same file *)
Theorem C08_csv_roundtrip : forall rows : list (list text), csv_read (csv_file rows) = Ok rows.
Proof. exact csv_roundtrip. Qed.
Print Assumptions C08_csv_roundtrip.

Theorem C08_csv_injective : forall a b : list (list text), csv_file a = csv_file b -> a = b.
Proof. exact csv_injective. Qed.
Print Assumptions C08_csv_injective.

(* the file of one table: header, then per row the encoder-table cells in header order *)
Theorem C08_csv_file_faithful :
  forall ti raws t, csv_table_text ti raws = Ok t ->
  exists rows, csv_table_rows ti raws = Ok rows /\ csv_read t = Ok rows.
Proof. exact csv_file_faithful. Qed.
Print Assumptions C08_csv_file_faithful.

(* str(int) / json / SQL integer literals: every integer, of any size, is read back *)
Theorem C08_int_roundtrip : forall z, parse_int (dec_text z) = Some z.
Proof. exact int_roundtrip. Qed.
Print Assumptions C08_int_roundtrip.

(* JSON (json.dumps with ensure_ascii, JSONOutputStream's framing): for every list of flat objects
   whose keys and string values are Python strs (code points 0 .. 0x10FFFF) without a high
   surrogate immediately followed by a low one, tokenizer + parser return exactly the objects:
   null / true / false / integers of any size / strings with quotes, backslashes, control
   characters, non-ASCII and non-BMP code points, lone surrogates *)
Theorem C08_json_roundtrip :
  forall objs : list jobject, Forall obj_ok objs -> json_read (json_doc objs) = Ok objs.
Proof. exact json_roundtrip. Qed.
Print Assumptions C08_json_roundtrip.

(* the hypothesis is needed: the str made of the surrogates U+D83D U+DE00 and the str U+1F600 are
   written as the same bytes (the first is read back as the second) *)
Theorem C08_refuted_json_surrogate_pair :
  json_string [55357; 56832] = json_string [128512] /\
  json_read (json_doc [[([107], CText [55357; 56832])]]) = Ok [[([107], CText [128512])]].
Proof. split; [exact json_string_not_injective|vm_compute; reflexivity]. Qed.
Print Assumptions C08_refuted_json_surrogate_pair.

(* SQL script (sqlite3 iterdump): for every list of rows — table name without a double quote,
   at least one value, values NULL / integers / texts of any code points except NUL (quotes,
   semicolons, newlines, "--" included) — the statement splitter and the INSERT parser return
   exactly the rows *)
Theorem C08_sql_roundtrip :
  forall rows : list (text * list cell), Forall sql_row_ok rows -> sql_read (sql_inserts rows) = Ok rows.
Proof. exact sql_roundtrip. Qed.
Print Assumptions C08_sql_roundtrip.

(* finding C08-sql-script-nul: the hypothesis "no NUL" is needed — SQLite's quote() ends a text at the first NUL
   character, so the script of a row holding "a\0b" is the script of a row holding "a" *)
Theorem C08_refuted_sql_nul_truncates :
  sql_inserts [([65], [CNum 1; CText [97; 0; 98]])] = sql_inserts [([65], [CNum 1; CText [97]])] /\
  sql_read (sql_inserts [([65], [CNum 1; CText [97; 0; 98]])]) = Ok [([65], [CNum 1; CText [97]])].
Proof. split; vm_compute; reflexivity. Qed.
Print Assumptions C08_refuted_sql_nul_truncates.

(* ---- non-vacuity: the real thresholds, straddled ---- *)

(* (rows visible, rows buffered) after n writes with flush_limit 1000 / commit_limit 10000 *)
Definition after_writes (n : Z) : option (Z * Z) :=
  match db_writes (sqlite_accepts FDb) true 1000 10000 (synth_tables 3)
                  (db_init (synth_tables 3)) (synth_rows 3 n) with
  | Ok s => Some (total (d_db s), total (d_buf s))
  | Err _ => None
  end.

Definition after_close (n : Z) : option Z :=
  match db_run (sqlite_accepts FDb) true 1000 10000 (synth_tables 3) (synth_rows 3 n) with
  | Ok s => Some (total (d_db s))
  | Err _ => None
  end.

Example C08_ex_999 : after_writes 999 = Some (0, 999) /\ after_close 999 = Some 999.
Proof. split; vm_compute; reflexivity. Qed.
Example C08_ex_1000 : after_writes 1000 = Some (1000, 0) /\ after_close 1000 = Some 1000.
Proof. split; vm_compute; reflexivity. Qed.
Example C08_ex_1001 : after_writes 1001 = Some (1000, 1) /\ after_close 1001 = Some 1001.
Proof. split; vm_compute; reflexivity. Qed.
Example C08_ex_9999 : after_writes 9999 = Some (9000, 999) /\ after_close 9999 = Some 9999.
Proof. split; vm_compute; reflexivity. Qed.
Example C08_ex_10000 : after_writes 10000 = Some (10000, 0) /\ after_close 10000 = Some 10000.
Proof. split; vm_compute; reflexivity. Qed.
Example C08_ex_10001 : after_writes 10001 = Some (10000, 1) /\ after_close 10001 = Some 10001.
Proof. split; vm_compute; reflexivity. Qed.

(* the projection drops a key that is not a column and fills a missing one with NULL *)
Example C08_ex_project :
  project ["x"; "y"; "id"]%string [("id"%string, VInt 1); ("extra"%string, VInt 7); ("x"%string, VInt 0)]
  = [("x"%string, VInt 0); ("y"%string, VNull); ("id"%string, VInt 1)].
Proof. vm_compute. reflexivity. Qed.

(* schema of two heterogeneous templates of one table, one of them with an update key *)
Example C08_ex_schema :
  infer [mkT "A" ["x"; "__h"; "y"]%string false; mkT "__H" ["q"%string] false; mkT "A" ["y"; "z"]%string true]
  = [("A"%string, mkTI ["x"; "y"; "z"]%string true)].
Proof. vm_compute. reflexivity. Qed.

(* a clean run over three outputs satisfies the hypotheses of the partial theorem *)
Example C08_ex_clean_run :
  let e := mkEnv (infer [mkT "A" ["v"%string] false]) 1000 10000 in
  exists ss, app_run e (map (init_stream e) [FDb; FJson; FCsv])
                     [("A"%string, [("id"%string, VInt 1); ("v"%string, VBool true)])] = Ok (ss, true).
Proof. eexists. vm_compute. reflexivity. Qed.

(* the encoder table at work (DESIGN.md appendix B): a datetime with microseconds and offset *)
Example C08_ex_encode_dt :
  encode FCsv false (VDateTime 2020 2 29 5 6 7 123 (Some (-330)))
  = Ok (CText (text_of_string "2020-02-29T05:06:07-05:30")) /\
  encode FJson false (VDateTime 2020 2 29 5 6 7 123 (Some (-330)))
  = Ok (CText (text_of_string "2020-02-29 05:06:07.000123-05:30")) /\
  encode FJson false (VBool true) = Ok (CBool true) /\
  encode FDb false (VBool true) = Ok (CText [49]) /\
  encode FCsv false VNull = Ok (CText []) /\
  encode FDb false (VInt (2 ^ 63)) = Ok (CText (text_of_string "9223372036854775808")) /\
  encode FSql false (VRef "B" (2 ^ 70)) = Ok (CText (text_of_string "1180591620717411303424")) /\
  encode FDb false (VStr [55296]) = Err (Internal "UnicodeEncodeError").
Proof. repeat split; vm_compute; reflexivity. Qed.

(* ---- non-vacuity: parser and formats ---- *)

(* include file + macro (with a friend and a nested template) + template nested in function
   arguments: six registered templates; the macro's field reaches the including template *)
Example C08_ex_parse :
  parse_recipe
    [("inc.yml"%string,
      mkF [] [mkM "m" [] (FCons "mf" FVSimple (FCons "mn" (FVObj (Tpl "C" false [] (FCons "deep" FVSimple FNil) SNil)) FNil))
                  (SObj (Tpl "D" false [] (FCons "ff" FVSimple FNil) SNil) SNil)]
          (SObj (Tpl "A" false [] (FCons "Name" FVSimple FNil) SNil) SNil))]
    (mkF ["inc.yml"%string] []
         (SObj (Tpl "A" true ["m"%string]
                    (FCons "own" FVSimple
                      (FCons "two" (FVArgs (VCons (FVObj (Tpl "B" false [] (FCons "b1" FVSimple FNil) SNil))
                                           (VCons (FVObj (Tpl "B" false [] (FCons "b2" FVSimple FNil) SNil)) VNil))) FNil))
                    SNil) SNil))
  = Ok [mkT "A" ["Name"%string] false; mkT "C" ["deep"%string] false; mkT "D" ["ff"%string] false;
        mkT "B" ["b1"%string] false; mkT "B" ["b2"%string] false;
        mkT "A" ["mf"; "mn"; "own"; "two"]%string true].
Proof. vm_compute. reflexivity. Qed.

(* a macro that includes itself and an include file that includes itself are refused *)
Example C08_ex_parse_refused :
  parse_recipe [] (mkF [] [mkM "m" ["m"%string] FNil SNil] (SObj (Tpl "A" false ["m"%string] FNil SNil) SNil))
    = Err (DGE "Macro calls itself") /\
  parse_recipe [("a.yml"%string, mkF ["a.yml"%string] [] SNil)] (mkF ["a.yml"%string] [] SNil)
    = Err (DGE "Include file includes itself").
Proof. split; vm_compute; reflexivity. Qed.

(* the bytes of a CSV file with a quoting-hostile row, a single empty field and an empty row *)
Example C08_ex_csv :
  csv_file [[[97; 44; 98]; [34]; []]; [[]]; []]
  = [34; 97; 44; 98; 34; 44; 34; 34; 34; 34; 44; 13; 10;  34; 34; 13; 10;  13; 10].
Proof. vm_compute. reflexivity. Qed.

(* one object in a document: a quote, a non-ASCII letter, a non-BMP code point (written as a
   surrogate pair) and a newline inside a string; null; true *)
Example C08_ex_json :
  json_doc [[([105; 100], CNum 1); ([115], CText [34; 233; 128512; 10]); ([110], CNull); ([98], CBool true)]]
  = text_of_string "[{""id"": 1, ""s"": ""\""\u00e9\ud83d\ude00\n"", ""n"": null, ""b"": true}]" ++ [10].
Proof. vm_compute. reflexivity. Qed.

(* INSERT INTO "A" VALUES(1,'it''s; --',NULL) *)
Example C08_ex_sql :
  sql_insert [65] [CNum 1; CText (text_of_string "it's; --"); CNull]
  = text_of_string "INSERT INTO ""A"" VALUES(1,'it''s; --',NULL)".
Proof. vm_compute. reflexivity. Qed.

(* Round 4: every cell is encoded from its own value.  A cache in front of an encoder that finds entries by a
   key equality [keq] -- with ANY eviction policy and ANY (sound) contents left by earlier runs in the process --
   writes, for EVERY value sequence, exactly what the encoder writes, provided [keq] only identifies values the
   encoder writes alike ... *)
Theorem C08_value_cache_faithful :
  forall (keq : value -> value -> bool) (enc : value -> result cell) evict,
    (forall a b, keq a b = true -> enc a = enc b) ->
    (forall c, incl (evict c) c) ->
    forall vs c, cache_sound enc c ->
      fst (memo_run keq enc evict c vs) = map enc vs /\ cache_sound enc (snd (memo_run keq enc evict c vs)).
Proof. exact memo_run_faithful. Qed.
Print Assumptions C08_value_cache_faithful.

(* ... and that proviso is necessary (already for runs of two values from an empty cache) *)
Theorem C08_value_cache_needs_keys_respecting_encoding :
  forall keq enc,
    (forall a b, fst (memo_run keq enc (fun c => c) [] [a; b]) = [enc a; enc b]) ->
    forall a b, keq a b = true -> enc a = enc b.
Proof. exact memo_faithful_needs_keys_respect_encoding. Qed.
Print Assumptions C08_value_cache_needs_keys_respecting_encoding.

(* Python's == is NOT such an equality: one instant in two UTC offsets (the seeded change r4_C08_1: lru_cache on
   format_datetime) within one run; True after an earlier run wrote 1 (JSON) *)
Definition utc1230 := VDateTime 2021 3 4 12 30 0 0 (Some 0).
Definition ist1800 := VDateTime 2021 3 4 18 0 0 0 (Some 330).

Example C08_ex_py_eq_twins : py_eq utc1230 ist1800 = true /\ py_eq (VBool true) (VInt 1) = true.
Proof. vm_compute. split; reflexivity. Qed.

Example C08_value_cache_by_python_equality_refuted :
  fst (memo_run py_eq (encode FCsv false) (fun c => c) [] [utc1230; ist1800])
    <> map (encode FCsv false) [utc1230; ist1800]
  /\ fst (memo_run py_eq (encode FJson false) (fun c => c) [(VInt 1, encode FJson false (VInt 1))] [VBool true])
    <> map (encode FJson false) [VBool true].
Proof. split; vm_compute; intro H; discriminate H. Qed.
