(* C09 — names starting with two underscores never reach any output.
   Model: theories/Interp.v.  Proofs: proofs/InterpP.v.                                  *)
From Coq Require Import ZArith List.
From SFV Require Import Base Interp.
From SFV.P Require Import InterpP InterpHeapP.
Import ListNotations. Open Scope Z_scope. Open Scope string_scope.

(* For every recipe of the fragment and every iteration count: every row handed to the
   output stream has a visible table name and only visible field names. *)
Theorem C09_hidden_never_emitted :
  forall (r : recipe) (k : nat) (rows : list orow),
    run_rows r k = Ok rows -> Forall clean_row rows.
Proof. exact hidden_never_emitted. Qed.
Print Assumptions C09_hidden_never_emitted.

(* Every task of the evaluator only appends clean rows to the output. *)
Theorem C09_every_step_clean :
  forall fuel e tk s s' r, run fuel e tk s = Ok (s', r) -> extends s s'.
Proof. exact run_extends. Qed.
Print Assumptions C09_every_step_clean.

(* The written row carries exactly the visible fields of the stored row, in stored order,
   after "id": hidden fields are dropped by the write primitive and by nothing else. *)
Theorem C09_write_filters_only_hidden :
  forall s h s',
    write_row s h = Ok s' ->
    out s' = out s \/
    exists r, out s' = r :: out s /\ clean_row r /\
      exists c, nth_error (heap s) h = Some c /\ fst r = c_table c /\
        map fst (snd r) = "id"%string :: filter (fun n => negb (hidden n)) (map fst (c_fields c)).
Proof. exact write_row_spec. Qed.
Print Assumptions C09_write_filters_only_hidden.

(* "Its value is nevertheless computed exactly like a visible one": for EVERY field name other
   than `id` — hidden or not — the evaluator renders the definition, stores the value under
   the name and goes on; the name is used for nothing else ... *)
Theorem C09_hidden_field_computed_like_visible :
  forall n e h name d r s,
    String.eqb name "id" = false ->
    run (S n) e (TFields h ((name, d) :: r)) s =
    (do '(s1, v) <- run n e (TField d) s; run n e (TFields h r) (set_field s1 h name (ret_value v))).
Proof. exact fields_step. Qed.
Print Assumptions C09_hidden_field_computed_like_visible.

(* ... and later formulas / references read it back exactly as stored, whatever the name *)
Theorem C09_hidden_field_readable :
  forall s h name v c,
    String.eqb name "id" = false -> nth_error (heap s) h = Some c ->
    exists c', nth_error (heap (set_field s h name v)) h = Some c' /\ row_attr c' name = Some v /\
               same_key c c'.
Proof. exact stored_field_readable. Qed.
Print Assumptions C09_hidden_field_readable.

(* child objects created inside a (hidden) field are emitted: rendering a field that holds an
   object template emits that template's rows regardless of the field's name — the rows of
   the nested template precede the enclosing row (C03_nested_before_parent_friends_after) *)

(* non-vacuity: a hidden field feeding a visible formula, and a visible child created inside
   a hidden field, are computed / emitted; the hidden names are not. *)
Example C09_ex :
  run_rows (mkRecipe 3 []
    [SObj (Tpl "A" None None false
        [("__h0", FLitInt 5);
         ("f0", FFormula [PExpr (EAdd (EVar "__h0") (EInt 1))]);
         ("__h1", FNested (Tpl "B" None None false [("f1", FLitInt 7)] []))] []);
     SObj (Tpl "__H" None None false [("f0", FLitInt 1)] [])] []) 1
  = Ok [("B", [("id", OInt 1); ("f1", OInt 7)]); ("A", [("id", OInt 1); ("f0", OInt 6)])].
Proof. vm_compute. reflexivity. Qed.

(* ---- a hidden TABLE is computed exactly like a visible one (proofs/HiddenRowsP.v) ---- *)
From SFV.P Require Import IdsP HiddenRowsP.

(* For every table, hidden or not, the rows created by a run (fresh or continued) of any recipe of
   the fragment carry exactly the next block of ids of that table, each once: ids, counts and
   whatever depends on them do not notice that the table is hidden. *)
Theorem C09_every_table_rows_created_dense :
  forall e stmts c k s0 s,
    start_ok s0 -> iterations k e stmts c s0 = Ok s ->
    forall T, Permutation.Permutation
                (cell_ids T (skipn (length (heap s0)) (heap s)))
                (Zseq (last_id s0 T + 1) (Z.to_nat (last_id s T - last_id s0 T))).
Proof. exact cells_dense_run. Qed.
Print Assumptions C09_every_table_rows_created_dense.

(* A hidden table's rows are all created (as many as its counter advances) and none is written. *)
Theorem C09_hidden_rows_created_not_written :
  forall e stmts c k s0 s T,
    start_ok s0 -> iterations k e stmts c s0 = Ok s -> hidden T = true ->
    Z.of_nat (length (cell_ids T (skipn (length (heap s0)) (heap s)))) = last_id s T - last_id s0 T /\
    forall row, In row (out s) -> fst row <> T.
Proof. exact hidden_rows_created_not_written. Qed.
Print Assumptions C09_hidden_rows_created_not_written.

(* ---- hidden fields read THROUGH a random_reference (LazyLoadedObjectReference -> RowHistory.load_row) ---- *)

(* Whatever the field is called - hidden or visible - reading it through a random_reference to a row
   of this run's history gives the value the row itself has (child rows included; forward-reference
   slots, which the history flattens, aside). *)
Theorem C09_field_through_random_reference_is_the_rows_field :
  forall h cells c f w,
    find_cell (c_table c) (c_id c) cells = Some c ->
    in_history h (c_table c) (c_id c) = true ->
    py_own_attr f || String.eqb f "sql_tablename" || String.eqb f "_data" = false ->
    row_attr c f = Some w -> (forall n, w <> VSlot n) ->
    hist_attr h cells (c_table c) (c_id c) f = Ok w.
Proof. exact hist_attr_live. Qed.
Print Assumptions C09_field_through_random_reference_is_the_rows_field.

Theorem C09_missing_field_through_random_reference_is_an_error :
  forall h cells c f,
    find_cell (c_table c) (c_id c) cells = Some c ->
    in_history h (c_table c) (c_id c) = true ->
    py_own_attr f || String.eqb f "sql_tablename" || String.eqb f "_data" = false ->
    row_attr c f = None ->
    hist_attr h cells (c_table c) (c_id c) f = Err (DGE "history-attr").
Proof. exact hist_attr_missing. Qed.
Print Assumptions C09_missing_field_through_random_reference_is_an_error.

(* non-vacuity, through the whole interpreter: a child row parked in a hidden field of a
   random_reference target is reached through the picked reference (draw 0 = the only row) *)
Example C09_hidden_child_through_random_reference :
  run_rows (mkRecipe 3 []
    [SObj (Tpl "P" None None false
        [("__kid", FNested (Tpl "K" None None false [("k", FLitInt 8)] [])); ("__n", FLitInt 17)] []);
     SObj (Tpl "D" None None false
        [("__who", FRandRef "P");
         ("a", FFormula [PExpr (EAttr (EAttr (EVar "__who") "__kid") "k")]);
         ("c", FFormula [PExpr (EAttr (EVar "__who") "__n")])] [])] [0]) 1
  = Ok [("K", [("id", OInt 1); ("k", OInt 8)]); ("P", [("id", OInt 1)]);
        ("D", [("id", OInt 1); ("a", OInt 8); ("c", OInt 17)])].
Proof. vm_compute. reflexivity. Qed.

(* the premise "the lookup finds the row" holds in every state a fresh run reaches: ids are per table
   and never handed out twice (C01), so the row with that table and id is that row *)
Theorem C09_fresh_run_lookup_finds_the_row :
  forall r k s c, run_fresh r k = Ok s -> In c (heap s) ->
    find_cell (c_table c) (c_id c) (heap s) = Some c.
Proof. exact fresh_run_lookup_finds_the_row. Qed.
Print Assumptions C09_fresh_run_lookup_finds_the_row.

Theorem C09_fresh_run_field_through_random_reference :
  forall r k s c f w,
    run_fresh r k = Ok s -> In c (heap s) ->
    in_history (hist (rnd s)) (c_table c) (c_id c) = true ->
    py_own_attr f || String.eqb f "sql_tablename" || String.eqb f "_data" = false ->
    row_attr c f = Some w -> (forall n, w <> VSlot n) ->
    hist_attr (hist (rnd s)) (heap s) (c_table c) (c_id c) f = Ok w.
Proof. exact fresh_run_field_through_history. Qed.
Print Assumptions C09_fresh_run_field_through_random_reference.
