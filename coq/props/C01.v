(* C01 — row ids are unique and dense per table across iterations (and continuations).
   Model: theories/Interp.v (SF-core interpreter: IdManager, NicknameSlot, Globals,
   ObjectTemplate._generate_row).  Proofs: proofs/IdsP.v.                                *)
From Coq Require Import ZArith List Permutation.
From SFV Require Import Base Interp.
From SFV.P Require Import InterpP IdsP.
Import ListNotations. Open Scope Z_scope. Open Scope string_scope.

(* For every recipe of the SF-core fragment and every number k of iterations: if the run
   completes, then for every visible table the ids of the rows delivered to the output are
   exactly 1..n (n = highest id issued for the table): none twice, none skipped. *)
Theorem C01_ids_dense :
  forall (r : recipe) (k : nat) (s : st),
    run_fresh r k = Ok s ->
    forall T, hidden T = false ->
      Permutation (written T (out s)) (Zseq 1 (Z.to_nat (last_id s T))).
Proof. exact ids_dense_fresh. Qed.
Print Assumptions C01_ids_dense.

(* Any chain of continuation runs (first run fresh, each later run started from the
   continuation file written by the previous one; any number of iterations per run): per
   visible table, the ids written over the whole history are exactly 1..n. *)
Theorem C01_ids_dense_history :
  forall (r : recipe) (ks : list nat) (rowss : list (list orow)),
    run_history r ks None = Ok rowss ->
    forall T, hidden T = false -> exists n, Permutation (written T (concat rowss)) (Zseq 1 n).
Proof. exact ids_dense_history. Qed.
Print Assumptions C01_ids_dense_history.

(* One run from any admissible start state (fresh, or loaded from a continuation file): the
   ids it writes for a visible table are exactly the next block last0+1 .. last. *)
Theorem C01_ids_dense_run :
  forall e stmts c k s0 s,
    start_ok s0 -> iterations k e stmts c s0 = Ok s ->
    start_ok (upd_out s []) /\
    forall T, last_id s0 T <= last_id s T /\
      (hidden T = false ->
       Permutation (written T (out s))
                   (Zseq (last_id s0 T + 1) (Z.to_nat (last_id s T - last_id s0 T)))).
Proof. exact ids_dense_run. Qed.
Print Assumptions C01_ids_dense_run.

(* a continued run resumes numbering immediately after the highest id recorded in the file *)
Theorem C01_resume_after_highest :
  forall e s c s0 T, save s = Ok c -> load e c = Ok s0 -> last_id s0 T = last_id s T.
Proof. exact resume_after_highest. Qed.
Print Assumptions C01_resume_after_highest.

(* The invariant behind it, for every task of the evaluator, any set [miss] of ids issued
   by earlier runs and any number n0 of heap cells loaded from a continuation file:
   ids issued = rows created by this run + ids reserved by forward references + miss. *)
Theorem C01_invariant_step :
  forall miss n0 fuel e tk s s' r,
    run fuel e tk s = Ok (s', r) -> K miss n0 s -> K miss n0 s' /\ bal n0 s s'.
Proof. exact run_K. Qed.
Print Assumptions C01_invariant_step.

(* ---- non-vacuity: a recipe with a forward reference, a nickname, a nested template, a
   zero count and a hidden table, three iterations ---- *)
Definition ex_recipe : recipe :=
  mkRecipe 3 []
    [SObj (Tpl "A" None (Some (FLitInt 2)) false
             [("f0", FRef "bb"); ("f1", FNested (Tpl "C" None (Some (FLitInt 0)) false [] []))]
             [SObj (Tpl "__H" None None false [] [])]);
     SObj (Tpl "B" (Some "bb") None false [("f0", FFormula [PExpr (EAttr (EVar "A") "id")])] [])] [].

Example C01_ex_history :
  match run_history ex_recipe [1; 2]%nat None with
  | Ok rowss => map (fun rows => written "A" rows) rowss
  | Err _ => []
  end = [[1; 2]; [3; 4; 5; 6]].
Proof. vm_compute. reflexivity. Qed.

Example C01_ex_runs :
  match run_fresh ex_recipe 3 with
  | Ok s => (written "A" (out s), written "B" (out s), last_id s "__H")
  | Err _ => ([], [], 0)
  end = ([6; 5; 4; 3; 2; 1], [3; 2; 1], 6).
Proof. vm_compute. reflexivity. Qed.

(* Under a row-count target (generate(..., target_number=(N, T))): a target run that returns is a
   repetition run of some number of whole iterations (props/C07.v, C07_interp_target_fresh), so the
   ids are dense for it too, whatever table the target names. *)
From SFV Require Import StopInterp.
From SFV Require Stopping.
From SFV.P Require Import StopInterpP.
Theorem C01_ids_dense_target :
  forall (r : recipe) T N fuel s j,
    Stopping.proper_table T -> hidden T = false ->
    run_target r (Some (Stopping.mkCrit T N)) fuel None = Ok (s, j) ->
    forall U, hidden U = false ->
      Permutation (written U (out s)) (Zseq 1 (Z.to_nat (last_id s U))).
Proof. exact ids_dense_target. Qed.
Print Assumptions C01_ids_dense_target.
