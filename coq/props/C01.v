(* C01 — row ids are unique and dense per table across iterations (and continuations).
   Model: theories/Interp.v (SF-core interpreter: IdManager, NicknameSlot, Globals,
   ObjectTemplate._generate_row).  Proofs: proofs/IdsP.v.                                *)
From Coq Require Import ZArith List Permutation.
From SFV Require Import Base Interp.
From SFV.P Require Import InterpP IdsP.
Import ListNotations. Open Scope Z_scope. Open Scope string_scope.

(* For every recipe of the SF-core fragment and every number k of iterations: if the run
   completes, then for every visible table the ids of the rows delivered to the output are
   exactly 1..n (n = highest id issued for the table): none twice, none skipped. *)
Theorem C01_ids_dense :
  forall (r : recipe) (k : nat) (s : st),
    run_fresh r k = Ok s ->
    forall T, hidden T = false ->
      Permutation (written T (out s)) (Zseq 1 (Z.to_nat (last_id s T))).
Proof. exact ids_dense_fresh. Qed.
Print Assumptions C01_ids_dense.

(* Hidden tables included: the ids handed to created rows are dense too. *)
Theorem C01_created_dense :
  forall (r : recipe) (k : nat) (s : st),
    run_fresh r k = Ok s ->
    forall T, Permutation (cell_ids T (heap s)) (Zseq 1 (Z.to_nat (last_id s T))).
Proof. exact ids_dense_created. Qed.
Print Assumptions C01_created_dense.

(* The invariant behind it, for every task of the evaluator and any set [miss] of ids issued
   by earlier runs: ids issued = rows created + ids reserved by forward references. *)
Theorem C01_invariant_step :
  forall miss fuel e tk s s' r,
    run fuel e tk s = Ok (s', r) -> K miss s -> K miss s' /\ bal s s'.
Proof. exact run_K. Qed.
Print Assumptions C01_invariant_step.

(* ---- non-vacuity: a recipe with a forward reference, a nickname, a nested template, a
   zero count and a hidden table, three iterations ---- *)
Definition ex_recipe : recipe :=
  mkRecipe 3 []
    [SObj (Tpl "A" None (Some (FLitInt 2)) false
             [("f0", FRef "bb"); ("f1", FNested (Tpl "C" None (Some (FLitInt 0)) false [] []))]
             [SObj (Tpl "__H" None None false [] [])]);
     SObj (Tpl "B" (Some "bb") None false [("f0", FFormula [PExpr (EAttr (EVar "A") "id")])] [])].

Example C01_ex_runs :
  match run_fresh ex_recipe 3 with
  | Ok s => (written "A" (out s), written "B" (out s), last_id s "__H")
  | Err _ => ([], [], 0)
  end = ([6; 5; 4; 3; 2; 1], [3; 2; 1], 6).
Proof. vm_compute. reflexivity. Qed.
