(* C19 — runs in one process are independent of each other.   CLAIM: PARTIAL.
   Model: theories/Isolation.v — the process-wide mutable state of Snowfakery ([proc]: unique-id
   context counter, the two date-parsing lru_caches, the memo tables of the scrambling masks,
   the RowHistory context variable, and the plugin_options dict an embedding application may
   share between runs) and [run : proc -> env -> recipe -> proc * outcome].
   Only statements here; proofs live in proofs/IsolationP.v.

   What is proved and what is by construction.  In the model every other piece of state
   (IdManager, nicknames, variables, instance_states with the memoised plugin values, the
   generators behind unique_id, parsed formulas) is created by [run] itself, so "ids start at 1,
   no nickname / variable / memoised plugin value leaks" is true BY CONSTRUCTION of the model
   (C19_ids_start_at_one states the id part).  The theorems say something real only about the
   locations in [proc]: which of them a run reads, and that what it reads cannot carry
   information from an earlier run (cache entries equal fresh parses; the context variable is
   overwritten before it is read; the counter only grows).
   That [proc] lists EVERY location that survives a run is not a theorem: harness/c19.py audits
   it on every check run (fingerprints of all snowfakery.* module globals, class attributes,
   function defaults, closure cells and lru_cache statistics before and after each run; a changed
   location outside [proc] is reported as a disagreement with this model).

   [parse_d], [parse_dt] (dateutil behind parse_date / parse_datetimespec) are arbitrary
   functions of the key in every theorem; the clock is an input ([env]). *)
From Coq Require Import ZArith List.
From SFV Require Import Base Isolation UniqueId.
From SFV.P Require Import IsolationP.
Import ListNotations. Open Scope Z_scope. Open Scope string_scope.

(* A cached parse equals a fresh parse, in every process state reachable by running any
   recipes (failing ones included): parse_date for every key, parse_datetimespec for every key
   except the clock keys "now" / "today" (see C19_refuted_clock_cached). *)
Theorem C19_cache_coherent :
  forall (parse_d parse_dt : key -> option Z) (h : list (env * recipe)) (k : key),
    let p := after parse_d parse_dt h in
    snd (lru_call date_cache_size parse_d (p_dates p) k) = parse_d k /\
    (is_clock_key k = false ->
     forall e, snd (lru_call date_cache_size (dt_fun parse_dt e) (p_dts p) k) = parse_dt k).
Proof. exact cache_coherent. Qed.
Print Assumptions C19_cache_coherent.

(* Noninterference.  FULL STATEMENT (false, see the two refutations below):
     forall p1 p2 e r, snd (run p1 e r) = snd (run p2 e r)   for recipes without random functions.
   Proved restriction: r uses no process-reading function (no unique id, no clock key), the
   two process states are coherent (every reachable state is: C19_reachable_coherent), and the
   run either does not consult the application's shared options dict or finds the same version
   entry in it. *)
Theorem C19_noninterference_partial :
  forall (parse_d parse_dt : key -> option Z) p1 p2 e r,
    coherent parse_d parse_dt p1 -> coherent parse_d parse_dt p2 ->
    no_proc_funcs r = true ->
    (version_fixed e r = true \/ p_app_ver p1 = p_app_ver p2) ->
    snd (run parse_d parse_dt p1 e r) = snd (run parse_d parse_dt p2 e r).
Proof. exact noninterference. Qed.
Print Assumptions C19_noninterference_partial.

Theorem C19_reachable_coherent :
  forall (parse_d parse_dt : key -> option Z) h, coherent parse_d parse_dt (after parse_d parse_dt h).
Proof. exact after_coherent. Qed.
Print Assumptions C19_reachable_coherent.

(* The outcome of such a recipe is the same after any two histories of runs ... *)
Theorem C19_sequence_independent_partial :
  forall (parse_d parse_dt : key -> option Z) h1 h2 e r,
    no_proc_funcs r = true -> version_fixed e r = true ->
    snd (run parse_d parse_dt (after parse_d parse_dt h1) e r) =
    snd (run parse_d parse_dt (after parse_d parse_dt h2) e r).
Proof. exact sequence_independent. Qed.
Print Assumptions C19_sequence_independent_partial.

(* ... in particular it is what the recipe produces alone in a fresh process. *)
Theorem C19_same_as_fresh_process_partial :
  forall (parse_d parse_dt : key -> option Z) h e r,
    no_proc_funcs r = true -> version_fixed e r = true ->
    snd (run parse_d parse_dt (after parse_d parse_dt h) e r) = snd (run parse_d parse_dt proc0 e r).
Proof. exact same_as_fresh_process. Qed.
Print Assumptions C19_same_as_fresh_process_partial.

(* What any run — failing or not — leaves behind in the process: coherent caches, a counter
   that did not go down, and the application's dict written in exactly one way. *)
Theorem C19_run_effects :
  forall (parse_d parse_dt : key -> option Z) p e r,
    let p' := fst (run parse_d parse_dt p e r) in
    (coherent parse_d parse_dt p -> coherent parse_d parse_dt p') /\
    p_uid p <= p_uid p' /\
    p_app_ver p' = match r_stage r with
                   | SParseFail => p_app_ver p
                   | _ => p_app_ver (write_app_ver p e r)
                   end.
Proof. exact run_effects. Qed.
Print Assumptions C19_run_effects.

(* A failed run does not poison the next one (r2 without process-reading functions; either r2
   does not consult the shared options dict or the failing run was not given it). *)
Theorem C19_failed_run_harmless_partial :
  forall (parse_d parse_dt : key -> option Z) p e1 r1 e2 r2,
    coherent parse_d parse_dt p ->
    o_err (snd (run parse_d parse_dt p e1 r1)) <> None ->
    no_proc_funcs r2 = true ->
    (version_fixed e2 r2 = true \/ e_shared e1 = false) ->
    snd (run parse_d parse_dt (fst (run parse_d parse_dt p e1 r1)) e2 r2) =
    snd (run parse_d parse_dt p e2 r2).
Proof. exact failed_run_harmless. Qed.
Print Assumptions C19_failed_run_harmless_partial.

(* Ids start at 1 and are dense per table, whatever process state the run starts in
   (by construction: the IdManager belongs to the run). *)
Theorem C19_ids_start_at_one :
  forall (parse_d parse_dt : key -> option Z) p e r t,
    let ids := ids_of t (o_obs (snd (run parse_d parse_dt p e r))) in
    ids = Zseq 1 (length ids).
Proof. exact ids_start_at_one. Qed.
Print Assumptions C19_ids_start_at_one.

(* Unique ids stay distinct across runs in one process: over any sequence of runs from any
   process state no (context, index) pair is drawn twice, and all contexts are >= the counter
   the sequence started with — the counter only grows, so later runs cannot repeat earlier ones. *)
Theorem C19_uid_still_distinct :
  forall (parse_d parse_dt : key -> option Z) p (l : list (env * recipe)),
    NoDup (all_uid_pairs (snd (run_seq parse_d parse_dt p l))) /\
    forall c i, In (c, i) (all_uid_pairs (snd (run_seq parse_d parse_dt p l))) -> p_uid p <= c.
Proof. exact uid_still_distinct. Qed.
Print Assumptions C19_uid_still_distinct.

(* ... and through the value pipeline proved for C13: the numbers themselves are distinct.
   Numeric generators only (unique_id, UniqueId.unique_id).  NOT covered, and false in the code as
   it is: alpha codes — in small-id mode the default alpha template is `index` alone, the context
   drawn from the counter is not part of the code, and every run produces the same codes
   (finding K5 of C13; registered for this property as C19-K5-alpha-codes-repeat-across-runs). *)
Theorem C19_uid_values_distinct :
  forall (parse_d parse_dt : key -> option Z) (mask : Z -> Z -> Z) (nbits : Z -> Z)
         (big : bool) (pid : list Z) p l vs,
    map (fun ci => num_value mask nbits (default_numeric_tpl big) pid (fst ci) (snd ci) true)
        (all_num_uid_pairs (snd (run_seq parse_d parse_dt p l))) = map Ok vs ->
    NoDup vs.
Proof. exact uid_values_distinct. Qed.
Print Assumptions C19_uid_values_distinct.

(* REFUTED 1 (finding C19-clock-cached; witness corpus/C19/clock_cached.json).
   parse_datetimespec caches the clock keys: `datetime: now` evaluated in a later run returns
   the time of the FIRST run of the process that evaluated it.  The recipe below contains no
   random function and no unique id, yet its outcome after a history differs from its outcome
   in a fresh process. *)
Theorem C19_refuted_clock_cached :
  exists (h : list (env * recipe)) (e : env) (r : recipe),
    existsb (fun o => match o with OUid _ => true | _ => false end) (r_ops r) = false /\
    version_fixed e r = true /\
    snd (run (fun _ => None) (fun _ => None) (after (fun _ => None) (fun _ => None) h) e r)
    <> snd (run (fun _ => None) (fun _ => None) proc0 e r).
Proof.
  exists [(mkEnv 1 0 false, mkRecipe SExec None [ORow "A"; ODatetime "now"])],
         (mkEnv 2 0 false), (mkRecipe SExec None [ORow "A"; ODatetime "now"]).
  split; [reflexivity|]. split; [reflexivity|].
  vm_compute. intros H. discriminate H.
Qed.
Print Assumptions C19_refuted_clock_cached.

(* REFUTED 2 (finding C19-plugin-options-mutated; witness corpus/C19/shared_plugin_options.json).
   `generate` writes the recipe's snowfakery_version into the caller's plugin_options dict.  An
   application that passes the same non-empty dict to every run gets native-types mode in a
   later recipe that declares no version — although the later recipe has no process-reading
   function at all. *)
Theorem C19_refuted_shared_plugin_options :
  exists (h : list (env * recipe)) (e : env) (r : recipe),
    no_proc_funcs r = true /\
    snd (run (fun _ => None) (fun _ => None) (after (fun _ => None) (fun _ => None) h) e r)
    <> snd (run (fun _ => None) (fun _ => None) proc0 e r).
Proof.
  exists [(mkEnv 1 0 true, mkRecipe SExec (Some 3) [ORow "A"])],
         (mkEnv 2 0 true), (mkRecipe SExec None [ORow "A"; OVersion]).
  split; [reflexivity|].
  vm_compute. intros H. discriminate H.
Qed.
Print Assumptions C19_refuted_shared_plugin_options.

(* ---- non-vacuity: concrete runs ---- *)

Definition ex_parse (k : key) : option Z :=
  if String.eqb k "2020-01-05" then Some 7 else if String.eqb k "2021-02-03" then Some 8 else None.

Definition ex_r1 : recipe :=
  mkRecipe SExec None [ORow "A"; OUid SlotNum; ODate "2020-01-05"; OCounter "c" 5 1;
                       ORow "A"; OUid SlotNum; ODate "2020-01-05"; OCounter "c" 5 1; OUid SlotAlpha].
Definition ex_fail : recipe :=
  mkRecipe SExec None [ORow "B"; OUid SlotNum; ODate "garbage"; ORow "B"].
Definition ex_r2 : recipe :=
  mkRecipe SExec None [ORow "A"; ODate "2020-01-05"; OCounter "c" 5 1; ORow "P"; OLazy "P"].
Definition ex_env (n : Z) : env := mkEnv n 0 false.

(* three runs back to back: ids restart at 1, the counter restarts at 5, contexts go on
   (1, 2 in the first run, 3 in the failing one), the failing run delivers no row *)
Example C19_ex_sequence :
  snd (run_seq ex_parse ex_parse proc0 [(ex_env 1, ex_r1); (ex_env 2, ex_fail); (ex_env 3, ex_r2)]) =
  [ mkOut [BId "A" 1; BUid SlotNum 1 1; BVal 7; BCount "c" 5;
           BId "A" 2; BUid SlotNum 1 2; BVal 7; BCount "c" 6; BUid SlotAlpha 2 1001] None;
    mkOut [BId "B" 1; BUid SlotNum 3 1] (Some (DGE ""));
    mkOut [BId "A" 1; BVal 7; BCount "c" 5; BId "P" 1; BLazy] None ].
Proof. vm_compute. reflexivity. Qed.

(* the hypotheses of the partial theorems are satisfiable, and the conclusion is about a
   non-trivial outcome *)
Example C19_ex_hypotheses :
  no_proc_funcs ex_r2 = true /\ version_fixed (ex_env 3) ex_r2 = true /\
  o_err (snd (run ex_parse ex_parse proc0 (ex_env 2) ex_fail)) <> None /\
  snd (run ex_parse ex_parse (after ex_parse ex_parse [(ex_env 1, ex_r1); (ex_env 2, ex_fail)])
           (ex_env 3) ex_r2)
  = mkOut [BId "A" 1; BVal 7; BCount "c" 5; BId "P" 1; BLazy] None.
Proof.
  split; [reflexivity|]. split; [reflexivity|]. split; [vm_compute; discriminate|].
  vm_compute. reflexivity.
Qed.

(* the process state after that history: counter at 4, one cached date, one miss for the key
   that raised, context variable holding the last run's history *)
Example C19_ex_state :
  let p := after ex_parse ex_parse [(ex_env 1, ex_r1); (ex_env 2, ex_fail); (ex_env 3, ex_r2)] in
  p_uid p = 4 /\ l_items (p_dates p) = [("2020-01-05"%string, 7)] /\ l_misses (p_dates p) = 2 /\
  p_rowhist p = Some [("P"%string, 1); ("A"%string, 1)].
Proof. vm_compute. repeat split; reflexivity. Qed.

(* lru eviction: with maxsize 2 the least recently used key is dropped *)
Example C19_ex_lru :
  let f := fun k : key => Some (Z.of_nat (String.length k)) in
  let c1 := fst (lru_call 2 f lru_empty "a") in
  let c2 := fst (lru_call 2 f c1 "bb") in
  let c3 := fst (lru_call 2 f c2 "a") in
  let c4 := fst (lru_call 2 f c3 "ccc") in
  l_items c4 = [("ccc"%string, 3); ("a"%string, 1)] /\ l_misses c4 = 3.
Proof. vm_compute. split; reflexivity. Qed.
