(* C19 — runs in one process are independent of each other.   CLAIM: PARTIAL.
   Model: theories/Isolation.v — the process-wide mutable state of Snowfakery ([proc]: unique-id
   context counter, the two date-parsing lru_caches, the memo tables of the scrambling masks,
   the RowHistory context variable) and [run : proc -> env -> recipe -> proc * outcome]; the
   clock and the plugin_options an embedding application passes are inputs ([env]).
   Only statements here; proofs live in proofs/IsolationP.v.

   What is proved and what is by construction.  In the model every other piece of state
   (IdManager, nicknames, variables, instance_states with the memoised plugin values, the
   generators behind unique_id, parsed formulas) is created by [run] itself, so "ids start at 1,
   no nickname / variable / memoised plugin value leaks" is true BY CONSTRUCTION of the model
   (C19_ids_start_at_one states the id part).  The theorems say something real only about the
   locations in [proc]: which of them a run reads, and that what it reads cannot carry
   information from an earlier run (cache entries equal fresh parses; the context variable is
   overwritten before it is read; the counter only grows).
   That [proc] lists EVERY location that survives a run is not a theorem: harness/c19.py audits
   it on every check run (fingerprints of all snowfakery.* module globals, class attributes,
   function defaults, closure cells and lru_cache statistics before and after each run; a changed
   location outside [proc] is reported as a disagreement with this model).

   [parse_d], [parse_dt] (dateutil behind parse_date / parse_datetimespec) are arbitrary
   functions of the key in every theorem; the clock is an input ([env]). *)
From Coq Require Import ZArith List.
From SFV Require Import Base Isolation UniqueId.
From SFV.P Require Import IsolationP.
Import ListNotations. Open Scope Z_scope. Open Scope string_scope.

(* A cached parse equals a fresh parse, in every process state reachable by running any
   recipes (failing ones included), for every key of both caches.  (Since fix fc3a5e8 the clock
   keys "now" / "today", and since bfa3786 Faker's relative specs such as "-30d", never reach the
   datetime cache: C19_clock_keys_not_cached, with is_clock_key = now | today | is_relative_spec.) *)
Theorem C19_cache_coherent :
  forall (parse_d parse_dt : key -> option Z) (h : list (env * recipe)) (k : key),
    let p := after parse_d parse_dt h in
    snd (lru_call date_cache_size parse_d (p_dates p) k) = parse_d k /\
    snd (lru_call date_cache_size parse_dt (p_dts p) k) = parse_dt k.
Proof. exact cache_coherent. Qed.
Print Assumptions C19_cache_coherent.

Theorem C19_clock_keys_not_cached :
  forall (parse_d parse_dt : key -> option Z) e ver p s k,
    is_clock_key k = true -> fst (step parse_d parse_dt e ver p s (ODatetime k)) = p.
Proof. exact step_clock_untouched. Qed.
Print Assumptions C19_clock_keys_not_cached.

(* Noninterference, at full strength for the model of the repaired code: for the same inputs
   (recipe, clock readings, application options) the outcome of a run is the same in any two
   coherent process states (every reachable state is coherent: C19_reachable_coherent)
     - for EVERY recipe, if the two states agree on the unique-id context counter;
     - with no condition on the states at all, if the recipe draws no unique id.
   The counter is the one piece of process state a run is MEANT to read (that is what keeps
   unique ids distinct across runs, C19_uid_still_distinct).  Clock keys make the outcome
   depend on the clock input [e], not on the process; the application's options dict is an
   input too.  The earlier restrictions (no clock key, version_fixed) are gone with fixes
   fc3a5e8 and d5304ed. *)
Theorem C19_noninterference :
  forall (parse_d parse_dt : key -> option Z) p1 p2 e r,
    coherent parse_d parse_dt p1 -> coherent parse_d parse_dt p2 ->
    (no_uid r = true \/ p_uid p1 = p_uid p2) ->
    snd (run parse_d parse_dt p1 e r) = snd (run parse_d parse_dt p2 e r).
Proof. exact noninterference. Qed.
Print Assumptions C19_noninterference.

Theorem C19_reachable_coherent :
  forall (parse_d parse_dt : key -> option Z) h, coherent parse_d parse_dt (after parse_d parse_dt h).
Proof. exact after_coherent. Qed.
Print Assumptions C19_reachable_coherent.

(* The outcome of a recipe that draws no unique id is the same after any two histories ... *)
Theorem C19_sequence_independent :
  forall (parse_d parse_dt : key -> option Z) h1 h2 e r,
    no_uid r = true ->
    snd (run parse_d parse_dt (after parse_d parse_dt h1) e r) =
    snd (run parse_d parse_dt (after parse_d parse_dt h2) e r).
Proof. exact sequence_independent. Qed.
Print Assumptions C19_sequence_independent.

(* ... in particular it is what the recipe produces alone in a fresh process. *)
Theorem C19_same_as_fresh_process :
  forall (parse_d parse_dt : key -> option Z) h e r,
    no_uid r = true ->
    snd (run parse_d parse_dt (after parse_d parse_dt h) e r) = snd (run parse_d parse_dt proc0 e r).
Proof. exact same_as_fresh_process. Qed.
Print Assumptions C19_same_as_fresh_process.

(* What any run - failing or not - leaves behind in the process: coherent caches and a counter
   that did not go down. *)
Theorem C19_run_effects :
  forall (parse_d parse_dt : key -> option Z) p e r,
    let p' := fst (run parse_d parse_dt p e r) in
    (coherent parse_d parse_dt p -> coherent parse_d parse_dt p') /\ p_uid p <= p_uid p'.
Proof. exact run_effects. Qed.
Print Assumptions C19_run_effects.

(* A failed run does not poison the next one (r2 draws no unique id; with unique ids only the
   contexts move on, by C19_noninterference). *)
Theorem C19_failed_run_harmless :
  forall (parse_d parse_dt : key -> option Z) p e1 r1 e2 r2,
    coherent parse_d parse_dt p ->
    o_err (snd (run parse_d parse_dt p e1 r1)) <> None ->
    no_uid r2 = true ->
    snd (run parse_d parse_dt (fst (run parse_d parse_dt p e1 r1)) e2 r2) =
    snd (run parse_d parse_dt p e2 r2).
Proof. exact failed_run_harmless. Qed.
Print Assumptions C19_failed_run_harmless.

(* Ids start at 1 and are dense per table, whatever process state the run starts in
   (by construction: the IdManager belongs to the run). *)
Theorem C19_ids_start_at_one :
  forall (parse_d parse_dt : key -> option Z) p e r t,
    let ids := ids_of t (o_obs (snd (run parse_d parse_dt p e r))) in
    ids = Zseq 1 (length ids).
Proof. exact ids_start_at_one. Qed.
Print Assumptions C19_ids_start_at_one.

(* Unique ids stay distinct across runs in one process: over any sequence of runs from any
   process state no (context, index) pair is drawn twice, and all contexts are >= the counter
   the sequence started with — the counter only grows, so later runs cannot repeat earlier ones. *)
Theorem C19_uid_still_distinct :
  forall (parse_d parse_dt : key -> option Z) p (l : list (env * recipe)),
    NoDup (all_uid_pairs (snd (run_seq parse_d parse_dt p l))) /\
    forall c i, In (c, i) (all_uid_pairs (snd (run_seq parse_d parse_dt p l))) -> p_uid p <= c.
Proof. exact uid_still_distinct. Qed.
Print Assumptions C19_uid_still_distinct.

(* ... and through the value pipeline proved for C13: the numbers themselves are distinct.
   Numeric generators only (unique_id, UniqueId.unique_id).  NOT covered, and false in the code as
   it is: alpha codes — in small-id mode the default alpha template is `index` alone, the context
   drawn from the counter is not part of the code, and every run produces the same codes
   (finding K5 of C13; registered for this property as C19-K5-alpha-codes-repeat-across-runs). *)
Theorem C19_uid_values_distinct :
  forall (parse_d parse_dt : key -> option Z) (mask : Z -> Z -> Z) (nbits : Z -> Z)
         (big : bool) (pid : list Z) p l vs,
    map (fun ci => num_value mask nbits (default_numeric_tpl big) pid (fst ci) (snd ci) true)
        (all_num_uid_pairs (snd (run_seq parse_d parse_dt p l))) = map Ok vs ->
    NoDup vs.
Proof. exact uid_values_distinct. Qed.
Print Assumptions C19_uid_values_distinct.

(* Regression for the repaired finding C19-clock-cached (fix fc3a5e8; witness
   corpus/C19/clock_cached.json).  Before the fix parse_datetimespec cached the clock keys and the
   second run below returned BVal 1, the time of the first run.  Now `datetime: now` returns the
   clock reading of its own run, as in a fresh process. *)
Example C19_regression_clock_not_cached :
  let r := mkRecipe SExec None [ORow "A"; ODatetime "now"] in
  let h := [(mkEnv 1 0 None, r)] in
  snd (run (fun _ => None) (fun _ => None) (after (fun _ => None) (fun _ => None) h) (mkEnv 2 0 None) r)
  = mkOut [BId "A" 1; BVal 2] None /\
  snd (run (fun _ => None) (fun _ => None) proc0 (mkEnv 2 0 None) r) = mkOut [BId "A" 1; BVal 2] None.
Proof. split; vm_compute; reflexivity. Qed.

(* Regression for the repaired finding C19-plugin-options-mutated (fix d5304ed; witness
   corpus/C19/shared_plugin_options.json).  Before the fix a version-3 run wrote its version into
   the application's options dict and the version-less recipe below ran in native-types mode
   (BVersion 3).  Now the dict is an input that no run changes: version 2 again. *)
Example C19_regression_options_not_written :
  let h := [(mkEnv 1 0 None, mkRecipe SExec (Some 3) [ORow "A"])] in
  snd (run (fun _ => None) (fun _ => None) (after (fun _ => None) (fun _ => None) h) (mkEnv 2 0 None)
           (mkRecipe SExec None [ORow "A"; OVersion]))
  = mkOut [BId "A" 1; BVersion 2] None.
Proof. vm_compute. reflexivity. Qed.

(* ---- non-vacuity: concrete runs ---- *)

Definition ex_parse (k : key) : option Z :=
  if String.eqb k "2020-01-05" then Some 7 else if String.eqb k "2021-02-03" then Some 8 else None.

Definition ex_r1 : recipe :=
  mkRecipe SExec None [ORow "A"; OUid SlotNum; ODate "2020-01-05"; OCounter "c" 5 1;
                       ORow "A"; OUid SlotNum; ODate "2020-01-05"; OCounter "c" 5 1; OUid SlotAlpha].
Definition ex_fail : recipe :=
  mkRecipe SExec None [ORow "B"; OUid SlotNum; ODate "garbage"; ORow "B"].
Definition ex_r2 : recipe :=
  mkRecipe SExec None [ORow "A"; ODate "2020-01-05"; OCounter "c" 5 1; ORow "P"; OLazy "P"].
Definition ex_env (n : Z) : env := mkEnv n 0 None.

(* three runs back to back: ids restart at 1, the counter restarts at 5, contexts go on
   (1, 2 in the first run, 3 in the failing one), the failing run delivers no row *)
Example C19_ex_sequence :
  snd (run_seq ex_parse ex_parse proc0 [(ex_env 1, ex_r1); (ex_env 2, ex_fail); (ex_env 3, ex_r2)]) =
  [ mkOut [BId "A" 1; BUid SlotNum 1 1; BVal 7; BCount "c" 5;
           BId "A" 2; BUid SlotNum 1 2; BVal 7; BCount "c" 6; BUid SlotAlpha 2 1001] None;
    mkOut [BId "B" 1; BUid SlotNum 3 1] (Some (DGE ""));
    mkOut [BId "A" 1; BVal 7; BCount "c" 5; BId "P" 1; BLazy] None ].
Proof. vm_compute. reflexivity. Qed.

(* the hypotheses of the theorems are satisfiable, and the conclusion is about a
   non-trivial outcome *)
Example C19_ex_hypotheses :
  no_uid ex_r2 = true /\
  o_err (snd (run ex_parse ex_parse proc0 (ex_env 2) ex_fail)) <> None /\
  snd (run ex_parse ex_parse (after ex_parse ex_parse [(ex_env 1, ex_r1); (ex_env 2, ex_fail)])
           (ex_env 3) ex_r2)
  = mkOut [BId "A" 1; BVal 7; BCount "c" 5; BId "P" 1; BLazy] None.
Proof.
  split; [reflexivity|]. split; [vm_compute; discriminate|].
  vm_compute. reflexivity.
Qed.

(* the process state after that history: counter at 4, one cached date, one miss for the key
   that raised, context variable holding the last run's history *)
Example C19_ex_state :
  let p := after ex_parse ex_parse [(ex_env 1, ex_r1); (ex_env 2, ex_fail); (ex_env 3, ex_r2)] in
  p_uid p = 4 /\ l_items (p_dates p) = [("2020-01-05"%string, 7)] /\ l_misses (p_dates p) = 2 /\
  p_rowhist p = Some [("P"%string, 1); ("A"%string, 1)].
Proof. vm_compute. repeat split; reflexivity. Qed.

(* lru eviction: with maxsize 2 the least recently used key is dropped *)
(* the recogniser of Faker's relative syntax *)
Example C19_ex_relative_specs :
  map is_relative_spec ["-30d"; "+1y"; "-1w+2h"; "+1y-2M+3w-4d+5h-6m+7s"; "+15m"; "+3M"]
    = [true; true; true; true; true; true] /\
  map is_relative_spec [""; "30d"; "now"; "+1d "; "1h30m"; "+d"; "-1d+2w"; "+1d+1d"; "+1x"; "+"; "2020-01-05"]
    = [false; false; false; false; false; false; false; false; false; false; false].
Proof. split; vm_compute; reflexivity. Qed.

(* a relative spec in a later run is read against that run's clock *)
Example C19_regression_relative_spec_not_cached :
  let r := mkRecipe SExec None [ORow "A"; ODatetime "-30d"; ODatetime "-30d"] in
  snd (run (fun _ => None) (fun _ => None)
           (after (fun _ => None) (fun _ => None) [(mkEnv 1 0 None, r)]) (mkEnv 2 0 None) r)
  = mkOut [BId "A" 1; BVal 2; BVal 2] None /\
  p_dts (after (fun _ => None) (fun _ => None) [(mkEnv 1 0 None, r)]) = lru_empty.
Proof. split; vm_compute; reflexivity. Qed.

Example C19_ex_lru :
  let f := fun k : key => Some (Z.of_nat (String.length k)) in
  let c1 := fst (lru_call 2 f lru_empty "a") in
  let c2 := fst (lru_call 2 f c1 "bb") in
  let c3 := fst (lru_call 2 f c2 "a") in
  let c4 := fst (lru_call 2 f c3 "ccc") in
  l_items c4 = [("ccc"%string, 3); ("a"%string, 1)] /\ l_misses c4 = 3.
Proof. vm_compute. split; reflexivity. Qed.
