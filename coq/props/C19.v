(* C19 — runs in one process are independent of each other.   CLAIM: PARTIAL.
   Model: theories/Isolation.v — the process-wide mutable state of Snowfakery ([proc]: unique-id
   context counter, the two date-parsing lru_caches, the memo tables of the scrambling masks,
   the RowHistory context variable, the working directory, sys.path, HOME, the import cache of
   local plugin modules, the application object of an application that reuses it) and
   [run : proc -> env -> recipe -> proc * outcome], where a [recipe] is a whole job: the
   operations of ONE iteration, the stopping criterion (iterations or target_number), the
   continuation file and the directory of the recipe file; the model runs the iteration loop,
   the end-of-iteration checks of the application (api.py) and the with-blocks (chdir,
   plugin_path) itself.  The clock and the plugin_options an embedding application passes are
   inputs ([env]).  Only statements here; proofs live in proofs/IsolationP.v.

   What is proved and what is by construction.  In the model every other piece of state
   (IdManager with last_used_ids AND start_ids, nicknames, variables, instance_states with the
   memoised plugin values, the generators behind unique_id, parsed formulas) is created by [run]
   itself - from the job's own continuation file when there is one - so "ids start at 1 / go on
   from the run's own continuation file, no nickname / variable / memoised plugin value leaks" is
   true BY CONSTRUCTION of the model (C19_ids_continue, C19_target_reached state the id part).
   The theorems say something real only about the locations in [proc]: which of them a run
   reads, that what it reads cannot carry information from an earlier run (cache entries equal
   fresh parses; the context variable is overwritten before it is read; the counter only
   grows; working directory and search path are put back on EVERY exit path of the with-blocks),
   and hence that no history of runs changes the outcome of the next job
   (C19_restoring_runs_independent in the abstract, C19_history_irrelevant for the model).
   That [proc] lists EVERY location that survives a run is not a theorem: harness/c19.py audits
   it on every check run (fingerprints of all snowfakery.* module globals, all live classes with
   their class-level dicts / lists / sets, function defaults, closure cells, every lru_cache, the
   context variables of the current context, cwd / sys.path / environ and curated Faker / jinja2
   state before and after each run; a changed location outside [proc] is reported as a
   disagreement with this model).

   [parse_d], [parse_dt] (dateutil behind parse_date / parse_datetimespec), [read_file] (the
   file system) and [load_plugin] (the import system) are arbitrary functions in every theorem;
   the clock is an input ([env]). *)
From Coq Require Import ZArith List.
From SFV Require Import Base Isolation UniqueId.
From SFV.P Require Import IsolationP.
Import ListNotations. Open Scope Z_scope. Open Scope string_scope.
Ltac conjs := cbv zeta; repeat match goal with |- _ /\ _ => split end.

Section Statements.
  Variable parse_d parse_dt : key -> option Z.
  Variable read_file : string -> string -> result Z.
  Variable load_plugin : string -> string -> result bool.
  Notation run := (run parse_d parse_dt read_file load_plugin).
  Notation run_seq := (run_seq parse_d parse_dt read_file load_plugin).
  Notation after := (after parse_d parse_dt read_file load_plugin).
  Notation after_from := (after_from parse_d parse_dt read_file load_plugin).
  Notation step := (step parse_d parse_dt read_file).
  Notation coherent := (coherent parse_d parse_dt).

  (* A cached parse equals a fresh parse, in every process state reachable by running any
     jobs (failing ones included), for every key of both caches.  (Since fix fc3a5e8 the clock
     keys "now" / "today", and since bfa3786 Faker's relative specs such as "-30d", never reach the
     datetime cache: C19_clock_keys_not_cached, with is_clock_key = now | today | is_relative_spec.) *)
  Theorem C19_cache_coherent :
    forall (h : list (env * recipe)) (k : key),
      let p := after h in
      snd (lru_call date_cache_size parse_d (p_dates p) k) = parse_d k /\
      snd (lru_call date_cache_size parse_dt (p_dts p) k) = parse_dt k.
  Proof. exact (cache_coherent parse_d parse_dt read_file load_plugin). Qed.

  Theorem C19_clock_keys_not_cached :
    forall e cx p s k, is_clock_key k = true -> fst (step e cx p s (ODatetime k)) = p.
  Proof. exact (step_clock_untouched parse_d parse_dt read_file). Qed.

  (* Noninterference, at full strength for the model: for the same inputs (recipe, continuation
     file, stopping criterion, clock readings, application options) the outcome of a run is the
     same in any two coherent process states (every reachable state is coherent:
     C19_reachable_coherent) that have the same working directory, search path and HOME (every
     run puts them back: C19_run_restores_ambient), provided
       - the two states agree on the unique-id context counter, or the recipe draws no unique id:
         the counter is the one piece of process state a run is MEANT to read (that is what keeps
         unique ids distinct across runs, C19_uid_still_distinct);
       - the application object is new for this run, or is in the same state in both: an
         application that reuses its SnowfakeryApplication object hands rep_count / starting_id of
         the previous run to the next one (C19_app_object_reused_refuted);
       - the recipe names no local plugin module, or both processes imported the same ones
         (Python's import cache).
     Clock keys make the outcome depend on the clock input [e], not on the process; the
     application's options dict and the continuation file are inputs too. *)
  Theorem C19_noninterference :
    forall p1 p2 e r,
      coherent p1 -> coherent p2 -> ambient p1 = ambient p2 ->
      (no_uid r = true \/ p_uid p1 = p_uid p2) ->
      (e_new_app e = true \/ p_app p1 = p_app p2) ->
      (no_plugins r = true \/ p_modules p1 = p_modules p2) ->
      snd (run p1 e r) = snd (run p2 e r).
  Proof. exact (noninterference parse_d parse_dt read_file load_plugin). Qed.

  Theorem C19_reachable_coherent : forall h, coherent (after h).
  Proof. exact (after_coherent parse_d parse_dt read_file load_plugin). Qed.

  (* The outcome of a plain job (no unique id, an application object of its own, no local plugin)
     is the same after any two histories, from whatever coherent state the process started in ... *)
  Theorem C19_sequence_independent :
    forall p0 h1 h2 e r,
      coherent p0 -> plain_job e r ->
      snd (run (after_from p0 h1) e r) = snd (run (after_from p0 h2) e r).
  Proof. exact (sequence_independent parse_d parse_dt read_file load_plugin). Qed.

  (* ... in particular it is what the job produces alone in a fresh process. *)
  Theorem C19_same_as_fresh_process :
    forall h e r, plain_job e r -> snd (run (after h) e r) = snd (run proc0 e r).
  Proof.
    intros h e r. exact (same_as_fresh_process parse_d parse_dt read_file load_plugin proc0 h e r
                           (coherent_proc0 parse_d parse_dt)).
  Qed.

  (* What any run - failing or not - leaves behind in the process: coherent caches, a counter
     that did not go down, the same working directory / search path / HOME, an import cache that
     only grew. *)
  Theorem C19_run_effects :
    forall p e r,
      let p' := fst (run p e r) in
      (coherent p -> coherent p') /\ p_uid p <= p_uid p' /\ ambient p' = ambient p /\
      (forall m, In m (p_modules p) -> In m (p_modules p')).
  Proof. exact (run_effects parse_d parse_dt read_file load_plugin). Qed.

  (* Every exit path restores.  The run may end normally, with a DataGenError or with any other
     exception, at any operation, inside or outside a with-block: the statement quantifies over
     all jobs, all file systems and all import systems and does not look at the outcome. *)
  Theorem C19_run_restores_ambient : forall p e r, ambient (fst (run p e r)) = ambient p.
  Proof. exact (run_restores_ambient parse_d parse_dt read_file load_plugin). Qed.

  (* the with-block of the dataset plugin, as it is in the code (try/finally): the process is left
     EXACTLY as it was, whatever opening the file did *)
  Theorem C19_with_chdir_restores :
    forall d p file, fst (with_chdir read_file true d p file) = p.
  Proof. exact (with_chdir_restores read_file). Qed.

  (* A failed run does not poison the next one, whether it ended with a DataGenError or with any
     other exception (r2 a plain job; with unique ids only the contexts move on, by
     C19_noninterference). *)
  Theorem C19_failed_run_harmless :
    forall p e1 r1 e2 r2,
      coherent p ->
      o_err (snd (run p e1 r1)) <> None ->
      plain_job e2 r2 ->
      snd (run (fst (run p e1 r1)) e2 r2) = snd (run p e2 r2).
  Proof. exact (failed_run_harmless parse_d parse_dt read_file load_plugin). Qed.

  (* No history of runs changes the outcome of the next plain job: the instance of
     C19_restoring_runs_independent for the model ([gafter]: the state after a list of jobs). *)
  Theorem C19_history_irrelevant :
    forall p0 h e r,
      coherent p0 -> plain_job e r ->
      snd (run (gafter proc (env * recipe) outcome (fun p i => run p (fst i) (snd i)) p0 h) e r)
      = snd (run p0 e r).
  Proof. exact (history_irrelevant parse_d parse_dt read_file load_plugin). Qed.

  (* Ids go on from the run's OWN continuation file and are dense per table - they start at 1 in a
     fresh run - whatever process state the run starts in and whatever an earlier continued run
     restored (the IdManager, start_ids included, belongs to the run). *)
  Theorem C19_ids_continue :
    forall p e r t,
      let ids := ids_of t (o_obs (snd (run p e r))) in
      ids = Zseq (cont_last t r + 1) (length ids).
  Proof. exact (ids_continue parse_d parse_dt read_file load_plugin). Qed.

  Theorem C19_ids_start_at_one :
    forall p e r t,
      r_cont r = None ->
      let ids := ids_of t (o_obs (snd (run p e r))) in
      ids = Zseq 1 (length ids).
  Proof. exact (ids_start_at_one parse_d parse_dt read_file load_plugin). Qed.

  (* target_number (n, t): a run that ends normally has made at least n rows of t counted from
     its own continuation file, in every process state and for every application object. *)
  Theorem C19_target_reached :
    forall p e r t n,
      r_crit r = CTable t n -> o_err (snd (run p e r)) = None ->
      n <= Z.of_nat (length (ids_of t (o_obs (snd (run p e r))))).
  Proof. exact (target_reached parse_d parse_dt read_file load_plugin). Qed.

  (* The iteration loop of the model carries fuel (the criterion's number + 2); it is never what ends
     a run: allowing any number of further iterations gives exactly the same run - final process
     state, observations and error - for every job and every process state, provided the rep_count of
     a reused application object is not negative (it starts at 0 and only goes up).  So no theorem
     above is true because of a truncated loop, and OutOfFuel is never the model's answer for a
     run that would end. *)
  Theorem C19_fuel_is_enough :
    forall extra p e r,
      (e_new_app e = true \/ 0 <= a_reps (p_app p)) ->
      run_with parse_d parse_dt read_file load_plugin (iter_fuel (r_crit r) + extra) p e r = run p e r.
  Proof. exact (fuel_is_enough parse_d parse_dt read_file load_plugin). Qed.

  (* Unique ids stay distinct across runs in one process: over any sequence of runs from any
     process state no (context, index) pair is drawn twice, and all contexts are >= the counter
     the sequence started with — the counter only grows, so later runs cannot repeat earlier ones. *)
  Theorem C19_uid_still_distinct :
    forall p (l : list (env * recipe)),
      NoDup (all_uid_pairs (snd (run_seq p l))) /\
      forall c i, In (c, i) (all_uid_pairs (snd (run_seq p l))) -> p_uid p <= c.
  Proof. exact (uid_still_distinct parse_d parse_dt read_file load_plugin). Qed.

  (* ... and through the value pipeline proved for C13: the numbers themselves are distinct.
     Numeric generators only (unique_id, UniqueId.unique_id).  NOT covered, and false in the code as
     it is: alpha codes — in small-id mode the default alpha template is `index` alone, the context
     drawn from the counter is not part of the code, and every run produces the same codes
     (finding K5 of C13; registered for this property as C19-K5-alpha-codes-repeat-across-runs). *)
  Theorem C19_uid_values_distinct :
    forall (mask : Z -> Z -> Z) (nbits : Z -> Z) (big : bool) (pid : list Z) p l vs,
      map (fun ci => num_value mask nbits (default_numeric_tpl big) pid (fst ci) (snd ci) true)
          (all_num_uid_pairs (snd (run_seq p l))) = map Ok vs ->
      NoDup vs.
  Proof. exact (uid_values_distinct parse_d parse_dt read_file load_plugin). Qed.
End Statements.

(* The abstract argument, for any state space and any run function: if runs of admissible jobs
   cannot tell related states apart and EVERY run (admissible or not, whatever its exit path)
   leaves a state related to the one it started in, then no history changes the outcome of the
   next admissible job. *)
Theorem C19_restoring_runs_independent :
  forall (St In Out : Type) (grun : St -> In -> St * Out) (R : St -> St -> Prop) (admissible : In -> Prop),
    (forall a b, R a b -> R b a) ->
    (forall a b c, R a b -> R b c -> R a c) ->
    (forall s1 s2 i, admissible i -> R s1 s2 -> snd (grun s1 i) = snd (grun s2 i)) ->
    (forall s i, R s s -> R (fst (grun s i)) s) ->
    forall s h i, R s s -> admissible i -> snd (grun (gafter St In Out grun s h) i) = snd (grun s i).
Proof. exact restoring_runs_independent. Qed.

Print Assumptions C19_cache_coherent.
Print Assumptions C19_clock_keys_not_cached.
Print Assumptions C19_noninterference.
Print Assumptions C19_reachable_coherent.
Print Assumptions C19_sequence_independent.
Print Assumptions C19_same_as_fresh_process.
Print Assumptions C19_run_effects.
Print Assumptions C19_run_restores_ambient.
Print Assumptions C19_with_chdir_restores.
Print Assumptions C19_failed_run_harmless.
Print Assumptions C19_history_irrelevant.
Print Assumptions C19_ids_continue.
Print Assumptions C19_ids_start_at_one.
Print Assumptions C19_target_reached.
Print Assumptions C19_fuel_is_enough.
Print Assumptions C19_uid_still_distinct.
Print Assumptions C19_uid_values_distinct.
Print Assumptions C19_restoring_runs_independent.

(* ---------------------------------------------------------------- examples *)

Definition no_files (d f : string) : result Z := Err (Internal "FileNotFoundError").
Definition no_plugin_files (d m : string) : result bool := Ok false.
Definition none_parse (k : key) : option Z := None.
Notation run0 := (run none_parse none_parse no_files no_plugin_files).
Notation after0 := (after none_parse none_parse no_files no_plugin_files).
Definition ex_env (n : Z) : env := mkEnv n 0 None true.

(* Regression for the repaired finding C19-clock-cached (fix fc3a5e8; witness
   corpus/C19/clock_cached.json).  Before the fix parse_datetimespec cached the clock keys and the
   second run below returned BVal 1, the time of the first run.  Now `datetime: now` returns the
   clock reading of its own run, as in a fresh process. *)
Example C19_regression_clock_not_cached :
  let r := simple_recipe SExec None [ORow "A"; ODatetime "now"] in
  let h := [(ex_env 1, r)] in
  snd (run0 (after0 h) (ex_env 2) r) = mkOut [BId "A" 1; BVal 2] None /\
  snd (run0 proc0 (ex_env 2) r) = mkOut [BId "A" 1; BVal 2] None.
Proof. split; vm_compute; reflexivity. Qed.

(* Regression for the repaired finding C19-plugin-options-mutated (fix d5304ed; witness
   corpus/C19/shared_plugin_options.json).  Before the fix a version-3 run wrote its version into
   the application's options dict and the version-less recipe below ran in native-types mode
   (BVersion 3).  Now the dict is an input that no run changes: version 2 again. *)
Example C19_regression_options_not_written :
  let h := [(ex_env 1, simple_recipe SExec (Some 3) [ORow "A"])] in
  snd (run0 (after0 h) (ex_env 2) (simple_recipe SExec None [ORow "A"; OVersion]))
  = mkOut [BId "A" 1; BVersion 2] None.
Proof. vm_compute. reflexivity. Qed.

(* ---- non-vacuity: concrete runs ---- *)

Definition ex_parse (k : key) : option Z :=
  if String.eqb k "2020-01-05" then Some 7 else if String.eqb k "2021-02-03" then Some 8 else None.
Notation runx := (run ex_parse ex_parse no_files no_plugin_files).
Notation run_seqx := (run_seq ex_parse ex_parse no_files no_plugin_files).
Notation afterx := (after ex_parse ex_parse no_files no_plugin_files).

Definition ex_r1 : recipe :=
  simple_recipe SExec None
    [ORow "A"; OUid SlotNum; ODate "2020-01-05"; OCounter "c" 5 1;
     ORow "A"; OUid SlotNum; ODate "2020-01-05"; OCounter "c" 5 1; OUid SlotAlpha].
Definition ex_fail : recipe :=
  simple_recipe SExec None [ORow "B"; OUid SlotNum; ODate "garbage"; ORow "B"].
Definition ex_r2 : recipe :=
  simple_recipe SExec None [ORow "A"; ODate "2020-01-05"; OCounter "c" 5 1; ORow "P"; OLazy "P"].

(* three runs back to back: ids restart at 1, the counter restarts at 5, contexts go on
   (1, 2 in the first run, 3 in the failing one), the failing run delivers no row *)
Example C19_ex_sequence :
  snd (run_seqx proc0 [(ex_env 1, ex_r1); (ex_env 2, ex_fail); (ex_env 3, ex_r2)]) =
  [ mkOut [BId "A" 1; BUid SlotNum 1 1; BVal 7; BCount "c" 5;
           BId "A" 2; BUid SlotNum 1 2; BVal 7; BCount "c" 6; BUid SlotAlpha 2 1001] None;
    mkOut [BId "B" 1; BUid SlotNum 3 1] (Some (DGE ""));
    mkOut [BId "A" 1; BVal 7; BCount "c" 5; BId "P" 1; BLazy] None ].
Proof. vm_compute. reflexivity. Qed.

(* the hypotheses of the theorems are satisfiable, and the conclusion is about a
   non-trivial outcome *)
Example C19_ex_hypotheses :
  plain_job (ex_env 3) ex_r2 /\
  o_err (snd (runx proc0 (ex_env 2) ex_fail)) <> None /\
  snd (runx (afterx [(ex_env 1, ex_r1); (ex_env 2, ex_fail)]) (ex_env 3) ex_r2)
  = mkOut [BId "A" 1; BVal 7; BCount "c" 5; BId "P" 1; BLazy] None.
Proof.
  split; [unfold plain_job; conjs; vm_compute; reflexivity|].
  split; [vm_compute; discriminate|vm_compute; reflexivity].
Qed.

(* the process state after that history: counter at 4, one cached date, one miss for the key
   that raised, context variable holding the last run's history, working directory as at the start *)
Example C19_ex_state :
  let p := afterx [(ex_env 1, ex_r1); (ex_env 2, ex_fail); (ex_env 3, ex_r2)] in
  p_uid p = 4 /\ l_items (p_dates p) = [("2020-01-05"%string, 7)] /\ l_misses (p_dates p) = 2 /\
  p_rowhist p = Some [("P"%string, 1); ("A"%string, 1)] /\ ambient p = ambient proc0.
Proof. conjs; vm_compute; reflexivity. Qed.

(* ---- the iteration loop, continuation files and target_number ---- *)

(* two rows of Person per iteration; the continuation file says Person 5, Visit 2 *)
Definition ex_body : list op := [ORow "Person"; ORow "Person"; ORow "Visit"; OCounter "c" 10 1].
Definition ex_job (crit : criterion) (cont : option (list (string * Z))) : recipe :=
  mkRecipe SExec None ex_body crit cont ["Person"; "Visit"] None [].

(* the loop runs until the target is reached: 3 Person rows need two iterations; counters live on
   from one iteration to the next; a fresh run starts at 1 *)
Example C19_ex_target_fresh :
  snd (run0 proc0 (ex_env 1) (ex_job (CTable "Person" 3) None)) =
  mkOut [BId "Person" 1; BId "Person" 2; BId "Visit" 1; BCount "c" 10;
         BId "Person" 3; BId "Person" 4; BId "Visit" 2; BCount "c" 11] None.
Proof. vm_compute. reflexivity. Qed.

(* a continued run: ids go on from its continuation file, the target counts from there *)
Example C19_ex_target_continued :
  snd (run0 proc0 (ex_env 1) (ex_job (CTable "Person" 3) (Some [("Person", 5); ("Visit", 2)]))) =
  mkOut [BId "Person" 6; BId "Person" 7; BId "Visit" 3; BCount "c" 10;
         BId "Person" 8; BId "Person" 9; BId "Visit" 4; BCount "c" 11] None.
Proof. vm_compute. reflexivity. Qed.

(* The history of the missed seeded change r3_C19_1, in the model: recipe A continued (Person
   1..5 in its file), then recipe B continued from a file that has no Person entry, with target
   (3, Person).  B's start id comes from B's own file (none: 1), so B makes Person 1..4 - as it
   does alone in a fresh process.  (With a start_ids dict shared by all IdManagers the target id
   was 6 + 3 - 1 and B made Person 1..8.) *)
Example C19_regression_start_ids_belong_to_the_run :
  let a1 := mkRecipe SExec None [ORow "Person"; ORow "Person"; ORow "Person"; ORow "Person"; ORow "Person"]
                     (CReps 1) (Some [("Person", 5)]) ["Person"] None [] in
  let b1 := ex_job (CTable "Person" 3) (Some [("Company", 1); ("Visit", 1)]) in
  snd (run0 (after0 [(ex_env 1, a1)]) (ex_env 2) b1) = snd (run0 proc0 (ex_env 2) b1) /\
  snd (run0 proc0 (ex_env 2) b1) =
  mkOut [BId "Person" 1; BId "Person" 2; BId "Visit" 2; BCount "c" 10;
         BId "Person" 3; BId "Person" 4; BId "Visit" 3; BCount "c" 11] None.
Proof. split; vm_compute; reflexivity. Qed.

(* no progress towards the target: RuntimeError "At this rate we will never hit our target!";
   an undeclared stop table: DataGenNameError before anything is executed *)
Example C19_ex_no_progress :
  snd (run0 proc0 (ex_env 1) (mkRecipe SExec None [ORow "Visit"] (CTable "Person" 3) None ["Person"; "Visit"] None []))
  = mkOut [BId "Visit" 1] (Some (Internal "RuntimeError")) /\
  run0 proc0 (ex_env 1) (mkRecipe SExec None [ORow "Visit"] (CTable "Nope" 1) None ["Visit"] None [])
  = (proc0, mkOut [] (Some (DGE ""))).
Proof. split; vm_compute; reflexivity. Qed.

(* FINDING C19-app-object-reused (open; witness corpus/C19/app_object_reused.json).  An application
   that passes the SAME SnowfakeryApplication object to two runs: rep_count and starting_id are
   per-run counters kept on that object and never reset.  Second run of the same 2-iteration job:
   one iteration instead of two; second run with target (2, Person): the spurious RuntimeError. *)
Example C19_app_object_reused_refuted :
  let reuse := mkEnv 2 0 None false in
  let two := ex_job (CReps 2) None in
  let tgt := ex_job (CTable "Person" 2) None in
  length (o_obs (snd (run0 (after0 [(ex_env 1, two)]) reuse two))) = 4%nat /\
  length (o_obs (snd (run0 proc0 reuse two))) = 8%nat /\
  o_err (snd (run0 (after0 [(ex_env 1, tgt)]) reuse tgt)) = Some (Internal "RuntimeError") /\
  o_err (snd (run0 proc0 reuse tgt)) = None /\
  (* with an application object of its own the second run is what it is alone *)
  snd (run0 (after0 [(ex_env 1, two)]) (ex_env 2) two) = snd (run0 proc0 (ex_env 2) two).
Proof. conjs; vm_compute; reflexivity. Qed.

(* ---- the with-blocks and their exit paths ---- *)

Definition ex_files (d f : string) : result Z :=
  if String.eqb d "work" && String.eqb f "data.csv" then Ok 1
  else if String.eqb d "other" && String.eqb f "data.csv" then Ok 91
  else if String.eqb f "dge.csv" then Err (DGE "")
  else Err (Internal "FileNotFoundError").
Definition ex_plugins (d m : string) : result bool :=
  if String.eqb d "other/plugins" && String.eqb m "c19_plug" then Ok true
  else if String.eqb m "c19_bad" then Err (Internal "ValueError") else Ok false.
Notation runf := (run none_parse none_parse ex_files ex_plugins).
Notation afterf := (after none_parse none_parse ex_files ex_plugins).
Definition ds_job (dir : option string) (file : string) (plugins : list string) : recipe :=
  mkRecipe SExec None [ORow "D"; ODataset "ds" file] (CReps 2) None ["D"] dir plugins.

(* a relative dataset path: a stream recipe reads it from the working directory, a recipe FILE
   from its own directory; the iterator is opened once (memoised), not once per iteration *)
Example C19_ex_dataset_paths :
  snd (runf proc0 (ex_env 1) (ds_job None "data.csv" [])) = mkOut [BId "D" 1; BVal 1; BId "D" 2] None /\
  snd (runf proc0 (ex_env 1) (ds_job (Some "other") "data.csv" [])) = mkOut [BId "D" 1; BVal 91; BId "D" 2] None.
Proof. split; vm_compute; reflexivity. Qed.

(* the three exit paths of `with chdir(...)`: normal, DataGenError, another exception - the working
   directory is "work" again each time, and the next stream job reads work/data.csv *)
Example C19_ex_chdir_exit_paths :
  map (fun f => (with_chdir ex_files true "other" proc0 f))
      ["data.csv"; "dge.csv"; "missing.csv"]
  = [(proc0, Ok 91); (proc0, Err (DGE "")); (proc0, Err (Internal "FileNotFoundError"))] /\
  snd (runf (afterf [(ex_env 1, ds_job (Some "other") "missing.csv" [])]) (ex_env 2) (ds_job None "data.csv" []))
  = mkOut [BId "D" 1; BVal 1; BId "D" 2] None.
Proof. split; vm_compute; reflexivity. Qed.

(* ... which is NOT so for the same manager without try/finally (the seeded change
   C19_failed_run_leaves_cwd): only the normal exit puts the directory back *)
Example C19_chdir_without_finally_refuted :
  map (fun f => p_cwd (fst (with_chdir ex_files false "other" proc0 f))) ["data.csv"; "dge.csv"; "missing.csv"]
  = ["work"; "other"; "other"].
Proof. vm_compute. reflexivity. Qed.

(* the three exit paths of `with plugin_path(...)`: plugin found, not found (DataGenImportError),
   the module raises while it is imported; sys.path is back to [] each time.  Without the
   restoring __exit__ (the seeded change C19_failed_run_leaves_plugin_dir_on_sys_path) a failing
   lookup leaves the failed recipe's plugin directory on the search path. *)
Example C19_ex_plugin_path_exit_paths :
  map (fun r => let x := with_plugin_path ex_plugins true proc0 r in (p_path (fst x), snd x))
      [ds_job (Some "other") "data.csv" ["c19_plug"]; ds_job None "data.csv" ["c19_plug"];
       ds_job (Some "other") "data.csv" ["c19_bad"]]
  = [([], Ok tt); ([], Err (DGE "")); ([], Err (Internal "ValueError"))] /\
  p_path (fst (with_plugin_path ex_plugins false proc0 (ds_job (Some "other") "data.csv" ["nosuch"])))
  = ["other/plugins"; "work/plugins"; "~/.snowfakery/plugins"].
Proof. split; vm_compute; reflexivity. Qed.

(* the accepted limit, stated: a local plugin found once stays importable (sys.modules) *)
Example C19_ex_import_cache :
  let found := ds_job (Some "other") "data.csv" ["c19_plug"] in
  let stream := ds_job None "data.csv" ["c19_plug"] in
  o_err (snd (runf proc0 (ex_env 1) stream)) = Some (DGE "") /\
  o_err (snd (runf (afterf [(ex_env 1, found)]) (ex_env 2) stream)) = None /\
  p_modules (afterf [(ex_env 1, found)]) = ["c19_plug"].
Proof. conjs; vm_compute; reflexivity. Qed.

(* the recogniser of Faker's relative syntax *)
Example C19_ex_relative_specs :
  map is_relative_spec ["-30d"; "+1y"; "-1w+2h"; "+1y-2M+3w-4d+5h-6m+7s"; "+15m"; "+3M"]
    = [true; true; true; true; true; true] /\
  map is_relative_spec [""; "30d"; "now"; "+1d "; "1h30m"; "+d"; "-1d+2w"; "+1d+1d"; "+1x"; "+"; "2020-01-05"]
    = [false; false; false; false; false; false; false; false; false; false; false].
Proof. split; vm_compute; reflexivity. Qed.

(* a relative spec in a later run is read against that run's clock *)
Example C19_regression_relative_spec_not_cached :
  let r := simple_recipe SExec None [ORow "A"; ODatetime "-30d"; ODatetime "-30d"] in
  snd (run0 (after0 [(ex_env 1, r)]) (ex_env 2) r) = mkOut [BId "A" 1; BVal 2; BVal 2] None /\
  p_dts (after0 [(ex_env 1, r)]) = lru_empty.
Proof. split; vm_compute; reflexivity. Qed.

(* lru eviction: with maxsize 2 the least recently used key is dropped *)
Example C19_ex_lru :
  let f := fun k : key => Some (Z.of_nat (String.length k)) in
  let c1 := fst (lru_call 2 f lru_empty "a") in
  let c2 := fst (lru_call 2 f c1 "bb") in
  let c3 := fst (lru_call 2 f c2 "a") in
  let c4 := fst (lru_call 2 f c3 "ccc") in
  l_items c4 = [("ccc"%string, 3); ("a"%string, 1)] /\ l_misses c4 = 3.
Proof. vm_compute. split; reflexivity. Qed.
