(* C20 — invalid recipes are rejected with a recipe error, not an internal failure.
   Model: theories/Reject.v (snowfakery/parse_recipe_yaml.py, plugins.py resolve_plugin,
   data_generator.py generate / merge_options, data_generator_runtime.py get_referent_name and the
   version check, the exception wrappers of data_generator_runtime_object_model.py), as repaired by
   the fix: commits of notes/patches/C20_*.diff.
   Only statements here; proofs live in proofs/RejectP.v.

   The 22 defects found while this check was built (KNOWN_FINDINGS.json, `fixed: property=C20 ...`)
   are repaired; their witnesses are the regression Examples at the end and
   corpus/C20/repaired_sites.json. *)
From Coq Require Import ZArith List String.
From SFV Require Import Base Reject.
From SFV.P Require Import RejectP.
Import ListNotations.
Open Scope string_scope.
Open Scope list_scope.

(* ---------------------------------------------------------------- static half *)
(* Whatever the document, the environment and the fuels: validation (parse_recipe, merge_options, the
   version check, the random_reference scan) never ends with a non-DataGenError exception of Snowfakery's
   own making.  None of the checked operations of the model (dict access on unchecked nodes, attribute
   access on parse_element results, str methods, hashing, the asserts of parse_fields /
   parse_object_template / line_num / check_identifier) can fire.  The only internal exceptions left are
   those the environment hands in: a plugin module that raises while it is imported, PyYAML raising
   something that is neither a YAMLError nor a ValueError while an included file is loaded. *)
Theorem C20_validate_never_crashes :
  forall (E : env) (ffuel mfuel : nat) (doc : yaml) (site : string),
    validate E ffuel mfuel doc = Err (Internal site) -> In site (env_crashes E).
Proof. exact validate_never_crashes. Qed.
Print Assumptions C20_validate_never_crashes.

(* with an environment that does not fail (every plugin module imports, every included file is text PyYAML
   accepts or rejects with YAMLError / ValueError): no internal failure at all *)
Theorem C20_validate_never_crashes_sound_environment :
  forall E ffuel mfuel doc,
    env_crashes E = [] ->
    match validate E ffuel mfuel doc with Err (Internal _) => False | _ => True end.
Proof.
  intros E ff mf doc HE. destruct (validate E ff mf doc) as [|[]] eqn:H; auto.
  pose proof (validate_never_crashes _ _ _ _ _ H) as Hin. rewrite HE in Hin. exact Hin.
Qed.
Print Assumptions C20_validate_never_crashes_sound_environment.

(* text PyYAML cannot load: YAMLError (with or without a position) and ValueError become
   DataGenYamlSyntaxError; only other exception classes are not caught *)
Theorem C20_unloadable_text :
  forall how, match @load_failure unit how with
              | Err (DGE _) => how = LMarked \/ how = LUnmarked \/ how = LValueError
              | Err (Internal s) => how = LExc s
              | _ => False
              end.
Proof. intros [| | |s]; cbn; auto. Qed.
Print Assumptions C20_unloadable_text.

(* ---------------------------------------------------------------- termination ("never hangs") *)
(* The walk over the document is structurally recursive; fuel is consumed only by macro expansion and file
   inclusion, and both refuse to re-enter what is already on their stack: with more file fuel than the
   environment has files and more macro fuel than the recipe has macros, validation never runs out of fuel. *)
Theorem C20_terminates :
  forall (E : env) (ffuel mfuel : nat) (doc : yaml),
    (S (length (fenv E)) < ffuel)%nat ->
    (forall c, load_file E ffuel [] "" doc ctx0 = Ok c -> (length (c_macros c) < mfuel)%nat) ->
    validate E ffuel mfuel doc <> Err OutOfFuel.
Proof. exact validate_terminates. Qed.
Print Assumptions C20_terminates.

(* ---------------------------------------------------------------- static faults come before any row *)
Theorem C20_static_before_rows :
  forall E ffuel mfuel doc dyn e,
    validate E ffuel mfuel doc = Err e -> generate E ffuel mfuel doc dyn = (Err e, O).
Proof. exact static_before_rows. Qed.
Print Assumptions C20_static_before_rows.

Theorem C20_rows_only_after_validation :
  forall E ffuel mfuel doc dyn r n,
    generate E ffuel mfuel doc dyn = (r, S n) -> validate E ffuel mfuel doc = Ok tt.
Proof. exact rows_only_after_validation. Qed.
Print Assumptions C20_rows_only_after_validation.

(* ---------------------------------------------------------------- dynamic half: the wrappers *)
(* Execution enters through a top-level statement: the first step of a path is a `var` or a template step
   (for_each, count, field, friend), or the leaf is reached directly (context creation, row set-up, row
   writing, the for_each check).  Along every such path, any exception (of any class) raised at the leaf
   leaves generate as a DataGenError. *)
Theorem C20_runtime_errors_wrapped :
  forall (path : list step) (l : leaf) (e : exn),
    rooted path l = true -> escape path l e = EDGE.
Proof. exact escape_rooted. Qed.
Print Assumptions C20_runtime_errors_wrapped.

(* the same, position by position: anything inside field rendering, for_each evaluation, count evaluation,
   friend execution, a `var`, or the rendering of a function argument — at any depth below — and every
   leaf that has a handler of its own *)
Theorem C20_runtime_errors_wrapped_everywhere :
  forall (pre post : list step) (l : leaf) (e : exn),
    escape (pre ++ STmplField :: post) l e = EDGE /\
    escape (pre ++ STmplForEach :: post) l e = EDGE /\
    escape (pre ++ STmplCount :: post) l e = EDGE /\
    escape (pre ++ STmplFriend :: post) l e = EDGE /\
    escape (pre ++ SVarExpr :: post) l e = EDGE /\
    escape (pre ++ SCallArg :: post) l e = EDGE /\
    (In l [LWrite; LRowSetup; LEval; LCompile; LFunc; LForEachType; LCtxTmpl; LCtxVar] ->
     escape pre l e = EDGE).
Proof.
  intros. repeat split.
  - apply wrapped_inside_field.
  - apply wrapped_inside_for_each.
  - apply wrapped_inside_count.
  - apply wrapped_inside_friend.
  - apply wrapped_inside_var.
  - apply wrapped_inside_call_arg.
  - apply wrapped_leaf.
Qed.
Print Assumptions C20_runtime_errors_wrapped_everywhere.

(* no escape route is left: an unwrapped exception would need a path execution cannot take *)
Theorem C20_runtime_escape_routes :
  forall path l e n, escape path l e = EPy n -> rooted path l = false.
Proof. exact escape_raw_inv. Qed.
Print Assumptions C20_runtime_escape_routes.

(* ---------------------------------------------------------------- the one passage that remains open *)
(* an exception raised by a plugin module while it is imported passes through (not a fault of the recipe's
   shape; the model takes it from the environment) *)
Example C20_ex_environment_failure_passes_through :
  validate (mkEnv [] [("a.B", PCrash "RuntimeError:plugins.py:resolve_plugin_alternatives")]) 3 3
           (YSeq [YMap [(YStr "plugin", YStr "a.B")]])
  = Err (Internal "RuntimeError:plugins.py:resolve_plugin_alternatives").
Proof. vm_compute. reflexivity. Qed.

(* ---------------------------------------------------------------- regression: the repaired defects *)
Definition E0 := mkEnv [] [].
Definition obj (rest : kvs) := YMap ((YStr "object", YStr "A") :: rest).
Definition field_x (v : yaml) := obj [(YStr "fields", YMap [(YStr "x", v)])].
Definition rr (args : yaml) := field_x (YMap [(YStr "random_reference", args)]).

(* the documents that used to crash (C20-S01 .. S16), now each a DataGenError *)
Definition repaired : list (env * yaml) :=
  [(mkEnv [(("", "a.yml"), FBad LUnmarked)] [], YSeq [YMap [(YStr "include_file", YStr "a.yml")]]);
   (mkEnv [(("", "a.yml"), FBad LValueError)] [], YSeq [YMap [(YStr "include_file", YStr "a.yml")]]);
   (mkEnv [(("", "."), FDir)] [], YSeq [YMap [(YStr "include_file", YStr ".")]]);
   (E0, YSeq [YMap [(YStr "macro", YSeq [YStr "a"])]]);
   (E0, YSeq [YMap [(YStr "plugin", YStr "foo")]]);
   (E0, YSeq [YMap [(YStr "plugin", YStr ".x")]]);
   (mkEnv [] [("os.path", PNotPlugin)], YSeq [YMap [(YStr "plugin", YStr "os.path")]]);
   (E0, YSeq [YMap [(YStr "snowfakery_version", YFloat FlNan)]]);
   (E0, YSeq [obj [(YStr "fields", YMap [(YStr "", YStr "x")])]]);
   (E0, YSeq [obj [(YStr "friends", YSeq [YMap [(YInt 5, YStr "v")]])]]);
   (E0, YSeq [obj [(YStr "for_each", YMap [(YStr "value", YStr "x")])]]);
   (E0, YSeq [YMap [(YStr "option", YSeq [YInt 1]); (YStr "default", YInt 3)]]);
   (E0, YSeq [YMap [(YStr "option", YStr version_option); (YStr "default", YInt 7)]]);
   (E0, YSeq [rr (YMap [(YStr "scope", YStr "y")])]);
   (E0, YSeq [rr (YSeq [])]);
   (E0, YSeq [rr (YSeq [YMap [(YStr "a", YStr "b")]])])].

Example C20_ex_repaired_static_sites :
  forallb (fun w => match validate (fst w) 3 3 (snd w) with Err (DGE _) => true | _ => false end)
          repaired = true.
Proof. vm_compute. reflexivity. Qed.

(* a macro whose friend template includes the macro again: detected like a cycle through `include:` *)
Definition friend_cycle :=
  YSeq [YMap [(YStr "macro", YStr "m");
              (YStr "friends", YSeq [YMap [(YStr "object", YStr "B"); (YStr "include", YStr "m")]])];
        YMap [(YStr "object", YStr "A"); (YStr "include", YStr "m")]].
Example C20_ex_macro_friend_cycle_rejected : validate E0 3 5 friend_cycle = Err (DGE "").
Proof. vm_compute. reflexivity. Qed.
Example C20_ex_macro_include_cycle_rejected :
  validate E0 3 5 (YSeq [YMap [(YStr "macro", YStr "m"); (YStr "include", YStr "m")];
                         YMap [(YStr "object", YStr "A"); (YStr "include", YStr "m")]])
  = Err (DGE "").
Proof. vm_compute. reflexivity. Qed.
(* a file that includes itself, directly or through another file *)
Example C20_ex_include_file_cycle_rejected :
  let d := YSeq [YMap [(YStr "include_file", YStr "a.yml")]] in
  validate (mkEnv [(("", "a.yml"), FDoc "k" d); (("k", "a.yml"), FDoc "k" d)] []) 5 3 d = Err (DGE "") /\
  validate (mkEnv [(("", "a.yml"), FDoc "" d)] []) 5 3 d = Err (DGE "").
Proof. vm_compute. split; reflexivity. Qed.

(* the run-time escapes of C20-R1 .. R5, now wrapped *)
Example C20_ex_repaired_runtime_sites :
  escape [STmplCount] LCountConv (EPy "OverflowError") = EDGE /\      (* count: inf *)
  escape [STmplCount] LCountConv (EPy "ValueError") = EDGE /\         (* count: {fake: Name} *)
  escape [STmplCount] LLookup (EPy "AttributeError") = EDGE /\        (* count: {Plugin.nosuch: 1} *)
  escape [SVarExpr] LPost (EPy "ValueError") = EDGE /\                (* - var: v / value: "." (before the look_for_number repair) *)
  escape [SVarExpr] LLookup (EPy "AttributeError") = EDGE /\          (* - var: v / value: {Plugin.nosuch: 1} *)
  escape [] LCtxTmpl (EPy "AttributeError") = EDGE /\                 (* unknown Faker locale *)
  escape [] LCtxVar (EPy "AttributeError") = EDGE.
Proof. vm_compute. repeat split. Qed.

(* ---------------------------------------------------------------- non-vacuity *)
Example C20_ex_valid_recipe :
  validate E0 3 10
    (YSeq [YMap [(YStr "macro", YStr "m"); (YStr "fields", YMap [(YStr "a", YInt 1)])];
           YMap [(YStr "option", YStr "n"); (YStr "default", YInt 2)];
           YMap [(YStr "object", YStr "A"); (YStr "include", YStr "m"); (YStr "count", YStr "${{n}}");
                 (YStr "fields", YMap [(YStr "x", YMap [(YStr "random_reference", YStr "A")])]);
                 (YStr "friends", YSeq [YMap [(YStr "var", YStr "v"); (YStr "value", YInt 1)]])]])
  = Ok tt.
Proof. vm_compute. reflexivity. Qed.

Example C20_ex_rejected :
  map (fun d => validate E0 3 10 d)
      [YNull; YSeq [YInt 5]; YSeq [YMap [(YStr "object", YInt 5)]];
       YSeq [obj [(YStr "fields", YSeq [YStr "a"])]]; YSeq [obj [(YStr "friends", YSeq [YStr "foo"])]];
       YSeq [field_x (YSeq [YInt 1; YInt 2])]; YSeq [obj [(YStr "count", YFloat FlOther)]];
       YSeq [obj [(YStr "for_each", YStr "abc")]]; YSeq [YMap [(YStr "plugin", YInt 5)]];
       YSeq [YMap [(YStr "include_file", YStr "/etc/passwd")]]; YSeq [YMap [(YStr "option", YStr "x")]];
       YSeq [rr (YInt 5)]]
  = repeat (Err (DGE "")) 12.
Proof. vm_compute. reflexivity. Qed.

Example C20_ex_terminates_hypotheses :
  (S (length (fenv E0)) < 3)%nat /\ load_file E0 3 [] "" friend_cycle ctx0 <> Err OutOfFuel.
Proof. split; [vm_compute; auto|vm_compute; discriminate]. Qed.

Example C20_ex_wrapped :
  escape [STmplFriend; STmplField; SNested; STmplCount] LCountConv (EPy "KeyError") = EDGE /\
  escape [SVarExpr; SNested] LWrite (EPy "KeyError") = EDGE /\
  escape [SVarExpr] LFunc (EPy "ZeroDivisionError") = EDGE /\
  rooted [STmplFriend; STmplField; SNested; STmplCount] LCountConv = true.
Proof. vm_compute. repeat split. Qed.

(* ================================================================== round 3: the text of the errors *)
(* str.format is a partial function of its template: a lone brace, a field without its argument raise.  The
   code hands user text (table names, nicknames, field / function / variable names, definitions, the wrapped
   exception's own message) to it only as ARGUMENTS of four constant templates; for every such text the
   templates format, and give exactly the expected message. *)
Theorem C20_format_templates_total :
  forall (name msg : string) (c : ascii) (d : string),
    py_format T_func [name] [("e", msg)]
      = Ok ("Cannot evaluate function `" ++ name ++ "`:" ++ nl ++ " " ++ msg)%string /\
    py_format T_field [name] [("e", msg)]
      = Ok ("Problem rendering field " ++ name ++ ":" ++ nl ++ " " ++ msg)%string /\
    py_format T_var [name] [("e", msg)]
      = Ok ("Cannot evaluate variable `" ++ name ++ "`:" ++ nl ++ " " ++ msg)%string /\
    py_format T_parse (chars (String c d)) [("e", msg)] = Ok ("Cannot parse value " ++ String c "")%string.
Proof.
  intros. split; [apply format_T_func|]. split; [apply format_T_field|].
  split; [apply format_T_var | apply format_T_parse].
Qed.
Print Assumptions C20_format_templates_total.

(* every wrapper, given any text and any exception, raises a DataGenError (or passes, as the frame model
   says) - building the message never fails.  (A compile error needs a Jinja delimiter in the definition,
   so the definition is not empty: the one template that is fed `*definition` always has its argument.) *)
Theorem C20_wrappers_build_their_messages :
  forall (f : iframe) (e : exnv),
    iframe_possible f = true ->
    exists e', wrap f e = Ok e' /\ x_cls e' = through (erase f) (x_cls e).
Proof. exact wrap_total. Qed.
Print Assumptions C20_wrappers_build_their_messages.

(* the run-time theorem again, now over paths that carry all their text: for every table name, nickname,
   field name, function name, variable name, definition and exception message, any exception raised at any
   leaf of a path execution can take leaves generate as a DataGenError *)
Theorem C20_runtime_errors_wrapped_whatever_the_text :
  forall (path : list istep) (l : ileaf) (e : exnv),
    ileaf_possible l = true ->
    rooted (map erase_step path) (erase_leaf l) = true ->
    x_cls (escape_v path l e) = EDGE.
Proof.
  intros p l e Hl Hr. rewrite escape_v_class by exact Hl. now apply escape_rooted.
Qed.
Print Assumptions C20_runtime_errors_wrapped_whatever_the_text.

(* the text-carrying model refines the frame model of the earlier theorems *)
Theorem C20_text_model_refines_frames :
  forall path l e, ileaf_possible l = true ->
    x_cls (escape_v path l e) = escape (map erase_step path) (erase_leaf l) (x_cls e).
Proof. exact escape_v_class. Qed.
Print Assumptions C20_text_model_refines_frames.

(* "where the fault is attributable, the file and line": what was not a DataGenError at the leaf knows
   its line when it leaves *)
Theorem C20_runtime_errors_located :
  forall path l e n, ileaf_possible l = true -> x_cls e = EPy n ->
    is_dge (escape_v path l e) = true -> x_line (escape_v path l e) = true.
Proof. exact escape_v_located. Qed.
Print Assumptions C20_runtime_errors_located.

(* "carrying a message": the message is not empty when the exception brought one, or when a field, a
   function call or a definition is on the way (their wrappers always add their own text) ... *)
Theorem C20_runtime_errors_carry_a_message_partial :
  forall path l e, ileaf_possible l = true ->
    nonempty (x_msg e) = true \/ existsb labels (iframes path l) = true ->
    nonempty (x_msg (escape_v path l e)) = true.
Proof. exact escape_v_message. Qed.
Print Assumptions C20_runtime_errors_carry_a_message_partial.

(* ... and that is all: a formula in a `var` (or a count) that raises an exception without text - a bare
   `assert` in a plugin function - is answered with a DataGenError whose message is empty
   (KNOWN_FINDINGS C20-M1; SimpleValue.render: DataGenValueError(str(e))) *)
Example C20_refuted_message_always :
  let r := escape_v [ISVarExpr "v"] ILEval (mkX (EPy "AssertionError") "" false) in
  x_cls r = EDGE /\ x_msg r = "" /\
  rooted (map erase_step [ISVarExpr "v"]) (erase_leaf ILEval) = true.
Proof. vm_compute. repeat split. Qed.

(* the model tells the ways of building a message apart: ObjectTemplate.exception_handling rewritten to
   go through fix_exception with the message as the template fails for a nickname with a brace, the
   exception that then leaves generate is the KeyError / ValueError of str.format *)
Example C20_ex_user_text_as_template_crashes :
  wrap (IFTemplateEH (cannot_generate "Account" "acct{main}")) (mkX (EPy "AttributeError") "x" false)
    = Ok (dge_at "Cannot generate Account (acct{main}) : x") /\
  wrap_unified_template_eh (cannot_generate "Account" "acct{main}") (mkX (EPy "AttributeError") "x" false)
    = Err (Internal "KeyError") /\
  wrap_unified_template_eh (cannot_generate "Set}" "") (mkX (EPy "AttributeError") "x" false)
    = Err (Internal "ValueError") /\
  wrap_unified_template_eh (cannot_generate "Row{}" "") (mkX (EPy "AttributeError") "x" false)
    = Err (Internal "IndexError").
Proof. vm_compute. repeat split. Qed.

Example C20_ex_format :
  py_format "a{}b{e}c{{}}" ["X"] [("e", "E")] = Ok "aXbEc{}" /\
  py_format "{0}{}" ["X"] [] = Err (Internal "ValueError") /\
  py_format "{1}" ["X"] [] = Err (Internal "IndexError") /\
  py_format "{x}" [] [] = Err (Internal "KeyError") /\
  py_format "}" [] [] = Err (Internal "ValueError") /\
  py_format "{x!r}" [] [] = Err Unsupported.
Proof. vm_compute. repeat split. Qed.

Example C20_ex_wrapped_with_text :
  escape_v [ISTmplFriend "P{" "}"; ISTmplCount "T{0}" "n%s" "{x}"] ILLookup (mkX (EPy "AttributeError") "{e}" false)
  = dge_at "Cannot generate T{0} (n%s) : {e}".
Proof. vm_compute. reflexivity. Qed.

(* ================================================================== round 3: documents with anchors *)
(* check_no_recursive_aliases walks the graph PyYAML built.  With its memo it expands every container
   once: the list of finished containers has no repetition, and the function is invoked at most once per
   member slot of the document (plus once for the root) - linear in the size of the text, however many
   ways lead to a shared part. *)
Theorem C20_alias_walk_visits_each_node_once :
  forall (h : heap) (root : nat) (st : astate),
    alias_check h root = Ok st ->
    NoDup (a_fin st) /\ (a_calls st <= 1 + edges h)%nat.
Proof. exact alias_walk_linear. Qed.
Print Assumptions C20_alias_walk_visits_each_node_once.

(* it needs no more stack than the document has containers (never out of fuel) *)
Theorem C20_alias_walk_terminates :
  forall h root, alias_check h root <> Err OutOfFuel.
Proof. exact alias_walk_terminates. Qed.
Print Assumptions C20_alias_walk_terminates.

(* what it accepts is a finite tree: following the references from the root comes to an end, so the
   tree model of the rest of the parser applies *)
Theorem C20_alias_walk_accepts_only_trees :
  forall h root st, alias_check h root = Ok st -> exists doc, unfold h (S (length h)) root = Ok doc.
Proof. exact alias_walk_accepts_trees. Qed.
Print Assumptions C20_alias_walk_accepts_only_trees.

(* what it rejects does contain itself *)
Theorem C20_alias_walk_rejects_only_cycles :
  forall h root, alias_check h root = Err (DGE "") -> exists x, path h x x.
Proof. exact alias_walk_rejects_cycles. Qed.
Print Assumptions C20_alias_walk_rejects_only_cycles.

(* the static theorems, for the document as the loader delivers it *)
Theorem C20_validate_graph_never_crashes :
  forall E ffuel mfuel h root site,
    validate_graph E ffuel mfuel h root = Err (Internal site) -> In site (env_crashes E).
Proof. exact validate_graph_never_crashes. Qed.
Print Assumptions C20_validate_graph_never_crashes.

Theorem C20_validate_graph_terminates :
  forall E ffuel mfuel h root,
    (S (length (fenv E)) < ffuel)%nat ->
    (forall doc c, unfold h (S (length h)) root = Ok doc ->
                   load_file E ffuel [] "" doc ctx0 = Ok c -> (length (c_macros c) < mfuel)%nat) ->
    validate_graph E ffuel mfuel h root <> Err OutOfFuel.
Proof. exact validate_graph_terminates. Qed.
Print Assumptions C20_validate_graph_terminates.

(* l0: &l0 []   l1: &l1 [*l0, *l0]   ...   ln: &ln [*l(n-1), *l(n-1)] *)
Definition ladder (n : nat) : heap := HSeq [] :: map (fun i => HSeq [i; i]) (seq 0 n).

(* 40 levels: 81 invocations with the memo; without it (`finished = finished or set()`: an empty memo is
   replaced by a private one, nothing is ever remembered) the count doubles with every level *)
Example C20_ex_alias_ladder :
  (match alias_check (ladder 40) 40 with Ok st => a_calls st | Err _ => O end) = 81%nat /\
  (match acheck_nomemo (ladder 12) 20 [] 12 0 with Ok k => Z.of_nat k | Err _ => 0%Z end) = 8191%Z /\
  (1 + edges (ladder 40) = 81)%nat.
Proof. vm_compute. repeat split. Qed.

Example C20_ex_alias_cycle_rejected :
  alias_check [HSeq [1%nat]; HMap [(YStr "x", 0%nat)]] 0 = Err (DGE "") /\
  validate_graph E0 3 3 [HSeq [1%nat]; HMap [(YStr "object", 2%nat); (YStr "fields", 1%nat)]; HLeaf (YStr "A")] 0
    = Err (DGE "").
Proof. vm_compute. split; reflexivity. Qed.

(* a valid recipe whose option default is a shared structure *)
Example C20_ex_graph_valid :
  validate_graph E0 3 3
    [HSeq [1%nat; 6%nat];
     HMap [(YStr "option", 2%nat); (YStr "default", 5%nat)];
     HLeaf (YStr "o"); HSeq [7%nat]; HSeq [3%nat; 3%nat]; HSeq [4%nat; 4%nat];
     HMap [(YStr "object", 7%nat)]; HLeaf (YStr "A")] 0 = Ok tt.
Proof. vm_compute. reflexivity. Qed.
