(* C20 — invalid recipes are rejected with a recipe error, not an internal failure.
   Model: theories/Reject.v (snowfakery/parse_recipe_yaml.py, plugins.py resolve_plugin,
   data_generator.py generate / merge_options, data_generator_runtime.py get_referent_name and the
   version assert, the exception wrappers of data_generator_runtime_object_model.py).
   Only statements here; proofs live in proofs/RejectP.v.

   Full-strength statement (NOT provable of the code as it is — see the _refuted theorems below and
   KNOWN_FINDINGS.json):
     forall E ff mf doc, match validate E ff mf doc with Err (Internal _) => False | _ => True end
     forall path leaf e, escape path leaf e = EDGE.
   What is proved instead: the list of escape routes is complete (static: thirteen crash sites plus
   whatever importlib / PyYAML raise on a plugin name or an included file; dynamic: leaves without a
   handler below top-level `var` / `count` chains), each route is demonstrated (_refuted), and everything
   else is a DataGenError. *)
From Coq Require Import ZArith List String.
From SFV Require Import Base Reject.
From SFV.P Require Import RejectP.
Import ListNotations.
Open Scope string_scope.
Open Scope list_scope.

(* ---------------------------------------------------------------- static half *)
(* Whatever the document, the environment and the fuels: if validation (parse_recipe, merge_options,
   the version assert, the random_reference scan) ends with a non-DataGenError exception, that exception
   is one of the thirteen listed (type, file, function) sites, or an exception that importlib / PyYAML
   raised on a plugin name / included file of the environment and that Snowfakery lets through.
   In particular none of the other checked operations of the model (dict access on unchecked nodes,
   attribute access on parse_element results, str methods, tuple unpacking, the asserts of
   parse_fields / parse_object_template / line_num / check_identifier) can fire. *)
Theorem C20_validate_never_crashes_partial :
  forall (E : env) (ffuel mfuel : nat) (doc : yaml) (site : string),
    validate E ffuel mfuel doc = Err (Internal site) ->
    In site known_crash_sites \/ In site (env_crashes E).
Proof. exact validate_never_crashes. Qed.
Print Assumptions C20_validate_never_crashes_partial.

(* text PyYAML cannot load: a marked YAMLError becomes DataGenYamlSyntaxError; an unmarked one
   (ReaderError) crashes parse_file; anything else PyYAML raises is not caught *)
Theorem C20_unloadable_text :
  forall how, match @load_failure unit how with
              | Err (DGE _) => how = LMarked
              | Err (Internal s) =>
                (how = LUnmarked /\ s = "AttributeError:parse_recipe_yaml.py:parse_file") \/ how = LExc s
              | _ => False
              end.
Proof. intros [| |s]; cbn; auto. Qed.
Print Assumptions C20_unloadable_text.

(* every listed site is reachable: a minimal document per site (each one also fails like this on /repo,
   corpus/C20/known_findings.json) *)
Definition E0 := mkEnv [] [].
Definition obj (rest : kvs) := YMap ((YStr "object", YStr "A") :: rest).
Definition field_x (v : yaml) := obj [(YStr "fields", YMap [(YStr "x", v)])].
Definition rr (args : yaml) := field_x (YMap [(YStr "random_reference", args)]).

Definition witnesses : list (string * (env * yaml)) :=
  [("AttributeError:parse_recipe_yaml.py:parse_file",
    (mkEnv [(("", "a.yml"), FBad LUnmarked)] [], YSeq [YMap [(YStr "include_file", YStr "a.yml")]]));
   ("IsADirectoryError:parse_recipe_yaml.py:parse_included_file",
    (mkEnv [(("", "."), FDir)] [], YSeq [YMap [(YStr "include_file", YStr ".")]]));
   ("TypeError:parse_recipe_yaml.py:parse_top_level_elements",
    (E0, YSeq [YMap [(YStr "macro", YSeq [YStr "a"])]]));
   ("ValueError:plugins.py:resolve_plugin_alternatives",
    (E0, YSeq [YMap [(YStr "plugin", YStr "foo")]]));
   ("IndexError:parse_recipe_yaml.py:parse_version",
    (E0, YSeq [YMap [(YStr "snowfakery_version", YFloat FlNan)]]));
   ("AssertionError:parse_recipe_yaml.py:parse_field",
    (E0, YSeq [obj [(YStr "fields", YMap [(YStr "", YStr "x")])]]));
   ("AttributeError:parse_recipe_yaml.py:parse_statement_list",
    (E0, YSeq [obj [(YStr "friends", YSeq [YMap [(YInt 5, YStr "v")]])]]));
   ("AttributeError:parse_recipe_yaml.py:parse_for_each_variable_definition",
    (E0, YSeq [obj [(YStr "for_each", YMap [(YStr "value", YStr "x")])]]));
   ("TypeError:data_generator.py:merge_options",
    (E0, YSeq [YMap [(YStr "option", YSeq [YInt 1]); (YStr "default", YInt 3)]]));
   ("AssertionError:data_generator_runtime.py:__init__",
    (E0, YSeq [YMap [(YStr "option", YStr version_option); (YStr "default", YInt 7)]]));
   ("KeyError:data_generator_runtime.py:get_referent_name",
    (E0, YSeq [rr (YMap [(YStr "scope", YStr "y")])]));
   ("UnboundLocalError:data_generator_runtime.py:get_referent_name",
    (E0, YSeq [rr (YSeq [])]));
   ("AttributeError:data_generator_runtime.py:get_referent_name",
    (E0, YSeq [rr (YSeq [YMap [(YStr "a", YStr "b")]])]))].

Theorem C20_refuted_known_sites_reachable :
  map fst witnesses = known_crash_sites /\
  forallb (fun w => match validate (fst (snd w)) 3 3 (snd (snd w)) with
                    | Err (Internal s) => String.eqb s (fst w)
                    | _ => false
                    end) witnesses = true.
Proof. split; vm_compute; reflexivity. Qed.
Print Assumptions C20_refuted_known_sites_reachable.

(* failures of the environment pass through unwrapped: `plugin: .x` (importlib raises TypeError) *)
Example C20_refuted_plugin_import_error :
  validate (mkEnv [] [(".x", PCrash "TypeError:plugins.py:resolve_plugin_alternatives")]) 3 3
           (YSeq [YMap [(YStr "plugin", YStr ".x")]])
  = Err (Internal "TypeError:plugins.py:resolve_plugin_alternatives").
Proof. vm_compute. reflexivity. Qed.

(* ---------------------------------------------------------------- termination *)
(* The walk over the document is structurally recursive; fuel is consumed only by macro expansion and
   file inclusion.  After the files are loaded, validation ends within any macro fuel above the ranks of
   the mentioned macros, provided the macro reference graph is acyclic (rank decreases along every
   mention, including mentions inside templates nested in a macro body). *)
Theorem C20_terminates_partial :
  forall (E : env) (ffuel mfuel : nat) (doc : yaml) (c : ctx) (rank : string -> nat),
    load_file E ffuel "" doc ctx0 = Ok c ->
    (forall name body, lookup_macro name (c_macros c) = Some body ->
       forall nm, In nm (incl_names (YMap body)) -> (rank nm < rank name)%nat) ->
    (forall y nm, In y (c_stmts c) -> In nm (incl_names y) -> (rank nm < mfuel)%nat) ->
    validate E ffuel mfuel doc <> Err OutOfFuel.
Proof. exact validate_terminates. Qed.
Print Assumptions C20_terminates_partial.

Theorem C20_terminates_without_macros :
  forall E ffuel mfuel doc c,
    load_file E ffuel "" doc ctx0 = Ok c -> c_macros c = [] -> (0 < mfuel)%nat ->
    validate E ffuel mfuel doc <> Err OutOfFuel.
Proof. exact validate_terminates_without_macros. Qed.
Print Assumptions C20_terminates_without_macros.

(* what is missing from "never hangs": a macro whose friend template includes the macro again is
   expanded without end (parent_macros is reset for friends) — RecursionError on /repo *)
Definition friend_cycle :=
  YSeq [YMap [(YStr "macro", YStr "m");
              (YStr "friends", YSeq [YMap [(YStr "object", YStr "B"); (YStr "include", YStr "m")]])];
        YMap [(YStr "object", YStr "A"); (YStr "include", YStr "m")]].
Example C20_refuted_macro_friend_cycle :
  validate E0 3 500 friend_cycle = Err OutOfFuel.
Proof. vm_compute. reflexivity. Qed.
(* ... whereas a cycle through `include:` alone is detected *)
Example C20_ex_macro_include_cycle_rejected :
  validate E0 3 500 (YSeq [YMap [(YStr "macro", YStr "m"); (YStr "include", YStr "m")];
                           YMap [(YStr "object", YStr "A"); (YStr "include", YStr "m")]])
  = Err (DGE "").
Proof. vm_compute. reflexivity. Qed.
(* a file that includes itself: file fuel runs out (RecursionError on /repo) *)
Example C20_refuted_include_file_cycle :
  let d := YSeq [YMap [(YStr "include_file", YStr "a.yml")]] in
  validate (mkEnv [(("", "a.yml"), FDoc "k" d); (("k", "a.yml"), FDoc "k" d)] []) 50 3 d = Err OutOfFuel.
Proof. vm_compute. reflexivity. Qed.

(* ---------------------------------------------------------------- static faults come before any row *)
Theorem C20_static_before_rows :
  forall E ffuel mfuel doc dyn e,
    validate E ffuel mfuel doc = Err e -> generate E ffuel mfuel doc dyn = (Err e, O).
Proof. exact static_before_rows. Qed.
Print Assumptions C20_static_before_rows.

Theorem C20_rows_only_after_validation :
  forall E ffuel mfuel doc dyn r n,
    generate E ffuel mfuel doc dyn = (r, S n) -> validate E ffuel mfuel doc = Ok tt.
Proof. exact rows_only_after_validation. Qed.
Print Assumptions C20_rows_only_after_validation.

(* ---------------------------------------------------------------- dynamic half: the wrappers *)
(* Any exception (of any class) raised at any leaf inside field rendering, for_each evaluation, friend
   execution or the rendering of a function argument — at any depth below — leaves generate as a
   DataGenError; so does any exception raised while a row is written or set up, a formula is compiled or
   evaluated, a function is called, or the for_each value is checked, wherever that happens. *)
Theorem C20_runtime_errors_wrapped :
  forall (pre post : list step) (l : leaf) (e : exn),
    escape (pre ++ STmplField :: post) l e = EDGE /\
    escape (pre ++ STmplForEach :: post) l e = EDGE /\
    escape (pre ++ STmplFriend :: post) l e = EDGE /\
    escape (pre ++ SCallArg :: post) l e = EDGE /\
    (In l [LWrite; LRowSetup; LEval; LCompile; LFunc; LForEachType] -> escape pre l e = EDGE).
Proof.
  intros. repeat split.
  - apply wrapped_inside_field.
  - apply wrapped_inside_for_each.
  - apply wrapped_inside_friend.
  - apply wrapped_inside_call_arg.
  - apply wrapped_leaf.
Qed.
Print Assumptions C20_runtime_errors_wrapped.

(* ... and these are all: an exception leaves generate unwrapped only from a leaf without a handler
   (context creation, look_for_number, name resolution of a function, the count conversion) reached
   through top-level `var` / nested-template / count steps alone *)
Theorem C20_runtime_escape_routes :
  forall path l e n,
    escape path l e = EPy n ->
    forallb transparent_step path = true /\ bare_leaf l = true.
Proof. exact escape_raw_inv. Qed.
Print Assumptions C20_runtime_escape_routes.

(* count evaluation: ValueError / TypeError become a recipe error when the count is a SimpleValue *)
Theorem C20_count_conversion_simple_value :
  forall e, is_value_or_type_error e = true -> escape [STmplCount true] LCountConv e = EDGE.
Proof. exact count_conv_simple_value. Qed.
Print Assumptions C20_count_conversion_simple_value.

(* the escape routes exist (each reproduced on /repo, corpus/C20/known_findings.json) *)
Example C20_refuted_toplevel_count_overflow :       (* count: inf *)
  escape [STmplCount true] LCountConv (EPy "OverflowError") = EPy "OverflowError".
Proof. vm_compute. reflexivity. Qed.
Example C20_refuted_toplevel_count_not_simple :     (* count: {fake: Name} -> handler reads .definition *)
  escape [STmplCount false] LCountConv (EPy "ValueError") = EPy "AttributeError".
Proof. vm_compute. reflexivity. Qed.
Example C20_refuted_toplevel_var_look_for_number :  (* - var: v / value: "." *)
  escape [SVarExpr] LPost (EPy "ValueError") = EPy "ValueError".
Proof. vm_compute. reflexivity. Qed.
Example C20_refuted_toplevel_var_plugin_attribute : (* - var: v / value: {Plugin.nosuch: 1} *)
  escape [SVarExpr] LLookup (EPy "AttributeError") = EPy "AttributeError".
Proof. vm_compute. reflexivity. Qed.
Example C20_refuted_context_creation :              (* - var: snowfakery_locale / value: zz_ZZ *)
  escape [] LCtx (EPy "AttributeError") = EPy "AttributeError".
Proof. vm_compute. reflexivity. Qed.

(* ---------------------------------------------------------------- non-vacuity *)
Example C20_ex_valid_recipe :
  validate E0 3 10
    (YSeq [YMap [(YStr "macro", YStr "m"); (YStr "fields", YMap [(YStr "a", YInt 1)])];
           YMap [(YStr "option", YStr "n"); (YStr "default", YInt 2)];
           YMap [(YStr "object", YStr "A"); (YStr "include", YStr "m"); (YStr "count", YStr "${{n}}");
                 (YStr "fields", YMap [(YStr "x", YMap [(YStr "random_reference", YStr "A")])]);
                 (YStr "friends", YSeq [YMap [(YStr "var", YStr "v"); (YStr "value", YInt 1)]])]])
  = Ok tt.
Proof. vm_compute. reflexivity. Qed.

Example C20_ex_rejected :
  map (fun d => validate E0 3 10 d)
      [YNull; YSeq [YInt 5]; YSeq [YMap [(YStr "object", YInt 5)]];
       YSeq [obj [(YStr "fields", YSeq [YStr "a"])]]; YSeq [obj [(YStr "friends", YSeq [YStr "foo"])]];
       YSeq [field_x (YSeq [YInt 1; YInt 2])]; YSeq [obj [(YStr "count", YFloat FlOther)]];
       YSeq [obj [(YStr "for_each", YStr "abc")]]; YSeq [YMap [(YStr "plugin", YInt 5)]];
       YSeq [YMap [(YStr "include_file", YStr "/etc/passwd")]]; YSeq [YMap [(YStr "option", YStr "x")]];
       YSeq [rr (YInt 5)]]
  = repeat (Err (DGE "")) 12.
Proof. vm_compute. reflexivity. Qed.

Example C20_ex_wrapped :
  escape [STmplFriend; STmplField; SNested; STmplCount false] LCountConv (EPy "OverflowError") = EDGE /\
  escape [SVarExpr; SNested] LWrite (EPy "KeyError") = EDGE /\
  escape [SVarExpr] LFunc (EPy "ZeroDivisionError") = EDGE.
Proof. vm_compute. repeat split. Qed.
