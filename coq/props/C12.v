(* C12 — the randomised range is a permutation, also when extended.
   Model: theories/RandRange.v (snowfakery/utils/randomized_range.py).
   Only statements here; proofs live in proofs/LcgP.v and proofs/RandRangeP.v. *)
From Coq Require Import ZArith List Permutation.
From SFV Require Import Base RandRange.
From SFV.P Require Import LcgP RandRangeP.
Import ListNotations. Open Scope Z_scope.

(* Hull–Dobell for a power-of-two modulus: every residue is hit once per period. *)
Theorem C12_lcg_full_period :
  forall (a c : Z) (k : nat), a mod 4 = 1 -> Z.odd c = true ->
  forall x, 0 <= x < 2 ^ Z.of_nat k ->
    NoDup (orbit a c (2 ^ Z.of_nat k) (Z.to_nat (2 ^ Z.of_nat k)) x) /\
    forall y, 0 <= y < 2 ^ Z.of_nat k ->
              In y (orbit a c (2 ^ Z.of_nat k) (Z.to_nat (2 ^ Z.of_nat k)) x).
Proof.
  intros a c k Ha Hc x Hx. split.
  - exact (orbit_NoDup a c k Ha Hc x Hx).
  - intros y Hy. exact (orbit_complete a c k Ha Hc x y Hx Hy).
Qed.
Print Assumptions C12_lcg_full_period.

(* list(random_range(start, stop)) terminates within the model's fuel and is a permutation
   of [start, stop), for every value of the generator's two random draws. *)
Theorem C12_range_is_permutation :
  forall start stop v0 o0,
    start < stop -> 0 <= v0 <= stop - start -> 0 <= o0 <= stop - start ->
    exists l, random_range_list start stop v0 o0 = Ok l /\
              Permutation l (Zseq start (Z.to_nat (stop - start))).
Proof. exact range_is_permutation. Qed.
Print Assumptions C12_range_is_permutation.

(* Any script of next / set_new_range operations that the class accepts never produces a
   value twice (for every oracle stream of draws). *)
Theorem C12_updatable_no_repeat :
  forall start stop oracle ops tr,
    urr_script start stop oracle ops = Ok tr -> NoDup (produced tr).
Proof. exact updatable_no_repeat. Qed.
Print Assumptions C12_updatable_no_repeat.

(* Raising the bound while consuming: when the iterator finally stops, exactly the
   integers of [start, final bound) have been produced. *)
Theorem C12_extend_complete :
  forall start stop oracle ops u tr u1 u2,
    urr_init start stop oracle = Ok u -> extend_only start ops ->
    urr_run u ops = Ok (tr, u1) -> urr_next u1 = Ok (None, u2) ->
    Permutation (produced tr) (Zseq start (Z.to_nat (u_cur_max u1 - start))) /\
    stop <= u_cur_max u1.
Proof. exact extend_complete. Qed.
Print Assumptions C12_extend_complete.

(* Moving to a disjoint higher range: only values of the new range appear afterwards. *)
Theorem C12_move_only_new :
  forall u prev em a b u1 ops tr u2,
    Uinv u prev em -> a <> u_start u -> urr_set_new_range u a b = Ok u1 ->
    extend_only a ops -> urr_run u1 ops = Ok (tr, u2) ->
    forall v, In v (produced tr) -> a <= v < u_cur_max u2.
Proof. exact move_only_new. Qed.
Print Assumptions C12_move_only_new.

(* Every state reachable from the constructor satisfies the invariant used above. *)
Theorem C12_reachable_invariant :
  forall start stop oracle u,
    urr_init start stop oracle = Ok u -> Uinv u [] [].
Proof. intros. apply (urr_init_inv _ _ _ _ H). Qed.
Print Assumptions C12_reachable_invariant.

(* ---- non-vacuity: concrete runs that satisfy the hypotheses ---- *)
Example C12_ex_range :
  random_range_list 3 10 7 2 = Ok [3; 8; 9; 6; 7; 4; 5].
Proof. vm_compute. reflexivity. Qed.

Example C12_ex_script :
  urr_script 1 3 [(0, 0); (1, 1); (2, 0); (0, 1)]
             [UNext; USet 1 5; UNext; UNext; USet 1 7; UNext; UNext; UNext; UNext; UNext;
              USet 9 11; UNext; UNext; UNext]
  = Ok [Some 1; Some 2; Some 4; Some 3; Some 6; Some 5; None; None; Some 9; Some 10; None].
Proof. vm_compute. reflexivity. Qed.
