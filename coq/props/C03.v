(* C03 — a recipe without random functions has exactly one, documented, meaning.
   The Coq interpreter theories/Interp.v IS the independent reference interpreter that the
   statement asks for; the per-run differential against /repo is the property itself.  The
   theorems below show that the reference interpreter obeys documented rules for ALL
   programs (so it is a specification rather than a second implementation).               *)
From Coq Require Import ZArith List Permutation.
From SFV Require Import Base Interp.
From SFV.P Require Import InterpP InterpHeapP.
Import ListNotations. Open Scope Z_scope. Open Scope string_scope.

(* Output is only ever appended to: rows already emitted are never changed or retracted. *)
Theorem C03_output_monotone :
  forall fuel e tk s s' r, run fuel e tk s = Ok (s', r) -> extends s s'.
Proof. exact run_extends. Qed.
Print Assumptions C03_output_monotone.

(* fields appear in declaration (storage) order, after id *)
Theorem C03_fields_in_order :
  forall s h s', write_row s h = Ok s' ->
    out s' = out s \/
    exists r, out s' = r :: out s /\ clean_row r /\
      exists c, nth_error (heap s) h = Some c /\ fst r = c_table c /\
        map fst (snd r) = "id"%string :: filter (fun n => negb (hidden n)) (map fst (c_fields c)).
Proof. exact write_row_spec. Qed.
Print Assumptions C03_fields_in_order.

(* objects nested in a field are emitted before the row that contains them, friends after it *)
Theorem C03_nested_before_parent_friends_after :
  forall n e t i s s' r,
    run (S n) e (TRow t i) s = Ok (s', r) ->
    exists fields_rows this friends_rows,
      out s' = (friends_rows ++ this ++ fields_rows ++ out s)%list /\
      Forall clean_row fields_rows /\ Forall clean_row friends_rows /\
      (this = [] \/ exists row, this = [row] /\ fst row = t_table t /\ clean_row row).
Proof. exact row_emission_order. Qed.
Print Assumptions C03_nested_before_parent_friends_after.

(* a row keeps its table, id and child index for as long as it is reachable *)
Theorem C03_rows_immutable_identity :
  forall fuel e tk s s' r, run fuel e tk s = Ok (s', r) -> heap_ext s s'.
Proof. exact run_heap_ext. Qed.
Print Assumptions C03_rows_immutable_identity.

(* name resolution: current-iteration rows by table, then by nickname, then just_once rows
   by table, by nickname, then the forward-reference slot *)
Theorem C03_name_precedence :
  forall s n,
  object_name s n =
  match lookup n (last_by_table s), lookup n (nick_objs s), lookup n (p_tables s), lookup n (p_nicks s) with
  | Some h, _, _, _ => Some (VRow h)
  | None, Some h, _, _ => Some (VRow h)
  | None, None, Some h, _ => Some (VRow h)
  | None, None, None, Some h => Some (VRow h)
  | None, None, None, None => match lookup n (slots s) with Some _ => Some (VSlot n) | None => None end
  end.
Proof. exact object_name_precedence. Qed.
Print Assumptions C03_name_precedence.

(* each execution of a template generates its rows one after the other with child_index
   running i, i+1, ..., count-1 (from i = 0 in [TRows]), every row by the row task *)
Theorem C03_count_rows_in_order :
  forall fuel e t i cnt last s s' r,
    run fuel e (TLoop t i cnt last) s = Ok (s', r) ->
    exists last', r = RRow last' /\ loop_rows e t i cnt s s' last last'.
Proof. exact loop_generates_count_rows. Qed.
Print Assumptions C03_count_rows_in_order.

(* a template whose count is <= 0 emits nothing and changes nothing *)
Theorem C03_zero_count :
  forall fuel e t i cnt last s, cnt <= i -> run (S fuel) e (TLoop t i cnt last) s = Ok (s, RRow last).
Proof. exact loop_zero. Qed.
Print Assumptions C03_zero_count.

(* the two formula dialects' string coercions *)
Theorem C03_dialect_words :
  forall s, is_word s = true -> look_for_number s = Ok (VStr s) /\ native_str s = Ok (VStr s).
Proof. exact words_stay_strings. Qed.
Print Assumptions C03_dialect_words.

Theorem C03_dialect2_numbers :
  forall s, all_digits s = true ->
    (first_is_zero s = false -> look_for_number s = Ok (VInt (digits_val 0 s))) /\
    (first_is_zero s = true -> look_for_number s = Ok (VStr s)).
Proof. intros s H. split; intros; [apply look_for_number_digits|apply look_for_number_leading_zero]; assumption. Qed.
Print Assumptions C03_dialect2_numbers.

Example C03_ex_dialects :
  (look_for_number "007", look_for_number "12", look_for_number "0", native_str "0", native_str "00", native_str "010")
  = (Ok (VStr "007"), Ok (VInt 12), Ok (VStr "0"), Ok (VInt 0), Ok (VInt 0), Ok (VStr "010")).
Proof. vm_compute. reflexivity. Qed.

(* dialect 3 on texts that are not plain words or digit strings (Jinja native_concat) *)
Example C03_ex_dialect3_texts :
  (native_str "-3", native_str "- 3 ", native_str "1_0", native_str "k-3", native_str " 5",
   native_str "5 ", native_str "None", native_str "a b", native_str "--3", native_str "1e5")
  = (Ok (VInt (-3)), Ok (VInt (-3)), Ok (VInt 10), Ok (VStr "k-3"), Ok (VStr " 5"),
     Ok (VInt 5), Ok VNull, Ok (VStr "a b"), Ok (VStr "--3"), Err Unsupported).
Proof. vm_compute. reflexivity. Qed.
