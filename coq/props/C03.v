(* C03 — placeholder while the lemmas are being written: the differential is the property. *)
From SFV Require Import Base Interp.
Theorem C03_placeholder : True. Proof. exact I. Qed.
