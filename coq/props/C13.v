(* C13 — unique_id and unique_alpha_code never collide within a run.
   Model: theories/UniqueId.v (snowfakery/standard_plugins/UniqueId.py,
   snowfakery/utils/scrambled_numbers.py, unique_id / unique_alpha_code of template_funcs.py).
   Only statements here; proofs live in proofs/UniqueIdP.v.

   In every theorem [mask], [nbits], [bpc] are arbitrary functions: Random(key).getrandbits(n),
   int(log(x,2))+1 and int(log(size,2)) only have to be functions of their arguments. *)
From Coq Require Import ZArith List.
From SFV Require Import Base UniqueId.
From SFV.P Require Import UniqueIdP.
Import ListNotations. Open Scope Z_scope.

(* The digit rendering (used for octal and for the alphabet) is exact for every base >= 2 and
   every n >= 0: in particular the model's digit fuel always suffices. *)
Theorem C13_digits_roundtrip :
  forall b n, 2 <= b -> 0 <= n -> from_digits b (to_digits b n) = n.
Proof. exact to_digits_value. Qed.
Print Assumptions C13_digits_roundtrip.

(* int("9".join(oct(x) for x in l)) determines the tuple l — for tuples of any (possibly
   different) lengths, including the leading-zero corner (first number 0). *)
Theorem C13_join9_injective :
  forall l l', l <> [] -> l' <> [] ->
    Forall (fun x => 0 <= x) l -> Forall (fun x => 0 <= x) l' ->
    encode l = encode l' -> l = l'.
Proof. exact encode_inj. Qed.
Print Assumptions C13_join9_injective.

(* Two numeric generators (any templates containing `index`, same randomize flag) can produce
   the same value only from the same tuple of numbers. *)
Theorem C13_values_collide_only_on_same_numbers :
  forall (mask : Z -> Z -> Z) (nbits : Z -> Z) tpl tpl' pid pid' c c' i i' r v,
    In PIndex tpl -> In PIndex tpl' ->
    num_value mask nbits tpl pid c i r = Ok v ->
    num_value mask nbits tpl' pid' c' i' r = Ok v ->
    instantiate tpl pid c i = instantiate tpl' pid' c' i'.
Proof. exact num_value_same_numbers. Qed.
Print Assumptions C13_values_collide_only_on_same_numbers.

(* One generator, any template that contains `index`: different draws, different values. *)
Theorem C13_template_injective :
  forall (mask : Z -> Z -> Z) (nbits : Z -> Z) tpl pid c i i' r v,
    In PIndex tpl ->
    num_value mask nbits tpl pid c i r = Ok v ->
    num_value mask nbits tpl pid c i' r = Ok v -> i = i'.
Proof.
  intros mask nbits tpl pid c i i' r v Hi H H'.
  exact (proj1 (num_value_inj mask nbits tpl pid pid c c i i' r v Hi eq_refl H H')).
Qed.
Print Assumptions C13_template_injective.

(* Two generators of the same template shape: a value in common forces the same index, the same
   context if the template has `context`, the same pid if it has `pid`. *)
Theorem C13_cross_generator_distinct :
  forall (mask : Z -> Z -> Z) (nbits : Z -> Z) tpl pid pid' c c' i i' r v,
    In PIndex tpl -> length pid = length pid' ->
    num_value mask nbits tpl pid c i r = Ok v ->
    num_value mask nbits tpl pid' c' i' r = Ok v ->
    i = i' /\ (In PContext tpl -> c = c') /\ (In PPid tpl -> pid = pid').
Proof. exact num_value_inj. Qed.
Print Assumptions C13_cross_generator_distinct.

(* unscramble_number undoes scramble_number, whatever minbits was. *)
Theorem C13_scramble_roundtrip :
  forall (mask : Z -> Z -> Z) (nbits : Z -> Z) n minbits v,
    scramble mask nbits n minbits = Ok v -> unscramble mask v = Ok n.
Proof. exact scramble_unscramble. Qed.
Print Assumptions C13_scramble_roundtrip.

(* scramble_number is injective across all minbits (numbits >= 1000 is the code's own assert:
   then the result is Err, not Ok). *)
Theorem C13_scramble_injective :
  forall (mask : Z -> Z -> Z) (nbits : Z -> Z) n n' minbits minbits' v,
    scramble mask nbits n minbits = Ok v -> scramble mask nbits n' minbits' = Ok v -> n = n'.
Proof. exact scramble_inj. Qed.
Print Assumptions C13_scramble_injective.

(* Alphabet encoding with left padding: injective for duplicate-free alphabets of size >= 2,
   also across different min_chars. *)
Theorem C13_alpha_injective :
  forall abc w w' n n' s, NoDup abc -> (2 <= length abc)%nat ->
    alpha_string abc w n = Ok s -> alpha_string abc w' n' = Ok s -> n = n'.
Proof. exact alpha_string_inj. Qed.
Print Assumptions C13_alpha_injective.

Theorem C13_alpha_charset :
  forall abc w n s, alpha_string abc w n = Ok s -> Forall (fun c => In c abc) s.
Proof. exact alpha_string_charset. Qed.
Print Assumptions C13_alpha_charset.

Theorem C13_alpha_min_len :
  forall abc w n s, alpha_string abc w n = Ok s -> w <= Z.of_nat (length s).
Proof. exact alpha_string_min_len. Qed.
Print Assumptions C13_alpha_min_len.

(* the three statements above are not vacuous: the encoding never fails *)
Theorem C13_alpha_total :
  forall abc w n, (2 <= length abc)%nat -> 0 <= n -> exists s, alpha_string abc w n = Ok s.
Proof. exact alpha_string_total. Qed.
Print Assumptions C13_alpha_total.

(* Pipeline, default unique_id generators (`unique_id`, `UniqueId.unique_id`,
   `UniqueId.NumericIdGenerator` without template), small-id or big-id mode, any pid: a value in
   common means same generator (context number) and same draw. *)
Theorem C13_pipeline :
  forall (mask : Z -> Z -> Z) (nbits : Z -> Z) big big' pid pid' c c' i i' v,
    num_value mask nbits (default_numeric_tpl big) pid c i true = Ok v ->
    num_value mask nbits (default_numeric_tpl big') pid' c' i' true = Ok v ->
    c = c' /\ i = i'.
Proof. exact pipeline_numeric_pair. Qed.
Print Assumptions C13_pipeline.

(* ... hence: any number of default generators with pairwise different context numbers (the
   process-wide counter), each drawn any number of times: all values pairwise distinct. *)
Theorem C13_pipeline_process :
  forall (mask : Z -> Z -> Z) (nbits : Z -> Z) (gens : list dgen) (vs : list Z),
    NoDup (map d_ctx gens) -> process_draws mask nbits gens = map Ok vs -> NoDup vs.
Proof. exact pipeline_numeric_NoDup. Qed.
Print Assumptions C13_pipeline_process.

(* FULL STATEMENT FOR ALPHA CODES (false, see C13_refuted_default_alpha_small_mode):
     codes of alpha generators are pairwise distinct across generators, in both id modes.
   PROVED PART: alpha generators over the same duplicate-free alphabet (any min_chars), same
   randomize_codes flag, same template containing `index`: a code in common forces the same
   index, and the same context / pid IF THE TEMPLATE CONTAINS `context` / `pid`.  This covers the
   big-id default template (pid,context,index) and every user template with `context`; it says
   nothing across generators for the small-id default template (`index` alone).  Also missing:
   generators over different alphabets (their codes are not comparable by decoding). *)
Theorem C13_pipeline_alpha_partial :
  forall (mask : Z -> Z -> Z) (nbits bpc : Z -> Z) a a' tpl pid pid' c c' i i' s,
    al_alphabet a = al_alphabet a' -> al_randomize a = al_randomize a' ->
    NoDup (al_alphabet a) -> (2 <= length (al_alphabet a))%nat ->
    In PIndex tpl -> length pid = length pid' ->
    alpha_value mask nbits bpc a tpl pid c i = Ok s ->
    alpha_value mask nbits bpc a' tpl pid' c' i' = Ok s ->
    i = i' /\ (In PContext tpl -> c = c') /\ (In PPid tpl -> pid = pid').
Proof. exact alpha_value_inj. Qed.
Print Assumptions C13_pipeline_alpha_partial.

(* BIG-ID MODE ONLY (the default template then is pid,context,index): default alpha generators
   with any pids and min_chars share a code only for the same generator and the same draw ... *)
Theorem C13_pipeline_alpha_big_mode :
  forall (mask : Z -> Z -> Z) (nbits bpc : Z -> Z) a a' pid pid' c c' i i' s,
    al_alphabet a = al_alphabet a' -> al_randomize a = al_randomize a' ->
    NoDup (al_alphabet a) -> (2 <= length (al_alphabet a))%nat ->
    alpha_value mask nbits bpc a (default_alpha_tpl true) pid c i = Ok s ->
    alpha_value mask nbits bpc a' (default_alpha_tpl true) pid' c' i' = Ok s ->
    c = c' /\ i = i'.
Proof. exact pipeline_alpha_pair_big. Qed.
Print Assumptions C13_pipeline_alpha_big_mode.

(* ... hence any number of BIG-ID-MODE default alpha generators over one alphabet / randomize flag
   with pairwise different context numbers, each drawn any number of times: all codes distinct.
   (Without the hypothesis ag_big = true this is false: K5.) *)
Theorem C13_pipeline_alpha_process_big_mode :
  forall (mask : Z -> Z -> Z) (nbits bpc : Z -> Z) (abc : list Z) (rc : bool)
         (gens : list agen) (codes : list (list Z)),
    NoDup abc -> (2 <= length abc)%nat ->
    (forall g, In g gens -> ag_big g = true) ->
    NoDup (map ag_ctx gens) ->
    aprocess_draws mask nbits bpc abc rc gens = map Ok codes -> NoDup codes.
Proof. exact pipeline_alpha_NoDup_big. Qed.
Print Assumptions C13_pipeline_alpha_process_big_mode.

(* every code of an alpha generator uses only its alphabet and has at least min_chars chars *)
Theorem C13_alpha_generator_charset_min_len :
  forall (mask : Z -> Z -> Z) (nbits bpc : Z -> Z) a tpl pid c i s,
    alpha_value mask nbits bpc a tpl pid c i = Ok s ->
    Forall (fun ch => In ch (al_alphabet a)) s /\ al_min_chars a <= Z.of_nat (length s).
Proof. exact alpha_value_charset_len. Qed.
Print Assumptions C13_alpha_generator_charset_min_len.

(* Known finding K5: in small-id mode the default alpha template is `index` only, so every
   default alpha generator of a process (`unique_alpha_code`, each default
   `UniqueId.AlphaCodeGenerator`, and the same `var:` re-created in the next iteration) emits the
   same sequence. *)
Theorem C13_default_alpha_small_ignores_context :
  forall (mask : Z -> Z -> Z) (nbits bpc : Z -> Z) a pid c c' i,
    alpha_value mask nbits bpc a (default_alpha_tpl false) pid c i =
    alpha_value mask nbits bpc a (default_alpha_tpl false) pid c' i.
Proof. exact default_alpha_small_ignores_context. Qed.
Print Assumptions C13_default_alpha_small_ignores_context.

(* The witness of corpus/C13/k5_default_alpha_small_mode.json: two default alpha generators
   (context numbers 2 and 3), first draw (index 1001), observed mask_for_key(1,27) = 18034063,
   int(log(175,2))+1 = 8, int(log(36,2)) = 5: both give "2AUHHSZN". *)
Theorem C13_refuted_default_alpha_small_mode :
  exists a c c' i s,
    alpha_new (default_alpha_tpl false) None 8 true = Ok a /\ c <> c' /\
    alpha_value (fun _ _ => 18034063) (fun _ => 8) (fun _ => 5) a (default_alpha_tpl false) [] c i = Ok s /\
    alpha_value (fun _ _ => 18034063) (fun _ => 8) (fun _ => 5) a (default_alpha_tpl false) [] c' i = Ok s.
Proof.
  exists (mkAlpha default_alphabet 8 true), 2, 3, 1001, [50; 65; 85; 72; 72; 83; 90; 78].
  split; [vm_compute; reflexivity|]. split; [discriminate|].
  split; vm_compute; reflexivity.
Qed.
Print Assumptions C13_refuted_default_alpha_small_mode.

(* FULL STATEMENT ACROSS TEMPLATES (false): values of generators with DIFFERENT template shapes are
   distinct.  C13_values_collide_only_on_same_numbers says they coincide exactly when the
   instantiated tuples coincide, and tuples of different shapes can coincide: template
   `index,context` with context 1, index 2 and the default `context,index` with context 2,
   index 1 both give the tuple (2,1) -> 291 -> 1481010 (witness corpus/C13/cross_shape_collision.json;
   observed mask_for_key(1,10) = 137).  C13_cross_generator_distinct is the proved part (same
   shape). *)
Theorem C13_refuted_cross_shape :
  exists tpl tpl' c c' i i' v,
    tpl <> tpl' /\ c <> c' /\
    In PContext tpl /\ In PIndex tpl /\ In PContext tpl' /\ In PIndex tpl' /\
    num_value (fun _ _ => 137) (fun _ => 5) tpl [] c i true = Ok v /\
    num_value (fun _ _ => 137) (fun _ => 5) tpl' [] c' i' true = Ok v.
Proof.
  exists [PIndex; PContext], (default_numeric_tpl false), 1, 2, 2, 1, 1481010.
  split; [discriminate|]. split; [discriminate|].
  repeat (split; [cbn; tauto|]).
  split; vm_compute; reflexivity.
Qed.
Print Assumptions C13_refuted_cross_shape.

(* ---- template strings (UniqueNumericIdGenerator.__init__ / _convert on the raw `parts` string) ---- *)

(* Every template over pid / context / index / non-negative literal numbers can be written as a
   string ("pid,context,index,123") that the constructor's parser — split on ",", strip, lower,
   classify — reads back as exactly that template: the theorems above, stated over part lists,
   speak about every template a user can write, and about nothing else (next theorem). *)
Theorem C13_template_string_roundtrip :
  forall tpl, tpl <> [] ->
    Forall (fun p => match p with PBad => False | PNum n => 0 <= n | _ => True end) tpl ->
    parse_template (print_template tpl) = Ok tpl.
Proof. exact parse_print. Qed.
Print Assumptions C13_template_string_roundtrip.

(* Whatever ASCII string is given, the parser returns a non-empty part list whose literals are
   non-negative numbers (isnumeric accepts digits only: no sign, no "o" of a negative octal). *)
Theorem C13_parsed_literals_nonneg :
  forall s tpl, parse_template s = Ok tpl ->
    Forall (fun p => match p with PNum n => 0 <= n | _ => True end) tpl /\ tpl <> [].
Proof. exact parse_literals_nonneg. Qed.
Print Assumptions C13_parsed_literals_nonneg.

(* ... so a numeric generator made from ANY accepted template string never fails on a draw (pid
   numbers, context and index are non-negative in the code: oct(pid), count(1), count(start));
   the only failure left is scramble_number's own 1000-bit limit.  The injectivity theorems are
   therefore about values that exist. *)
Theorem C13_unique_id_total :
  forall (mask : Z -> Z -> Z) (nbits : Z -> Z) s tpl pid c i r,
    parse_template s = Ok tpl -> Forall (fun x => 0 <= x) pid -> 0 <= c -> 0 <= i ->
    (forall x, nbits x < 1000) ->
    exists v, num_value mask nbits tpl pid c i r = Ok v.
Proof. exact num_value_total. Qed.
Print Assumptions C13_unique_id_total.

(* scramble_number stays injective even if the float logarithm is NOT a function (different bit
   counts in the two calls): the result carries the bit count that was used.  Only the mask has to
   be one function of (key, numbits) for the whole process. *)
Theorem C13_scramble_injective_any_bit_count :
  forall (mask : Z -> Z -> Z) (nbits nbits' : Z -> Z) n n' minbits minbits' v,
    scramble mask nbits n minbits = Ok v -> scramble mask nbits' n' minbits' = Ok v -> n = n'.
Proof. exact scramble_inj_any_nbits. Qed.
Print Assumptions C13_scramble_injective_any_bit_count.

(* "at least min_chars long", for the min_chars the USER asked for (AlphaUniquifier.__init__ raises
   it to 4 when randomize_codes is on), and only characters of the alphabet in use *)
Theorem C13_alpha_code_requested_length :
  forall (mask : Z -> Z -> Z) (nbits bpc : Z -> Z) tpl abc mc rc a pid c i s,
    alpha_new tpl abc mc rc = Ok a -> alpha_value mask nbits bpc a tpl pid c i = Ok s ->
    mc <= Z.of_nat (length s) /\ Forall (fun ch => In ch (al_alphabet a)) s.
Proof. exact alpha_code_requested_length. Qed.
Print Assumptions C13_alpha_code_requested_length.

(* ---- one process, any number of generate_data runs (theories/UniqueId.v, p_step / p_run) ----
   The machine: a process-wide counter hands every constructed generator (in whatever run, also when
   re-created from a continuation file, also when the constructor then fails) the next context number;
   every generator counts its own draws from `start`; run boundaries change nothing; the mask is ONE
   function for the whole process.  [ops] is any sequence of constructor calls, draws, run boundaries
   and "burns" (context numbers used up by anything else). *)

(* the (context, index) pairs of all draws of a process are pairwise different, and a context number
   names one generator *)
Theorem C13_process_keys_fresh :
  forall c0 ops,
    NoDup (map (fun k : rspec * Z * Z => (snd (fst k), snd k)) (process_keys c0 ops)) /\
    (forall r r' c i i', In (r, c, i) (process_keys c0 ops) -> In (r', c, i') (process_keys c0 ops) ->
                         r = r').
Proof.
  intros c0 ops. split; [exact (process_keys_NoDup c0 ops)|].
  intros r r' c i i'. exact (process_keys_spec_fun c0 ops r r' c i i').
Qed.
Print Assumptions C13_process_keys_fresh.

(* Two draws anywhere in the process — same run or different runs — from generators of the same
   template containing `context` and `index` (numeric with the same randomize flag, or alphabetic
   over the same duplicate-free alphabet with the same randomize_codes flag; any pids of the same
   number of chunks, any min_chars) give the same value only if they are the same draw. *)
Theorem C13_process_same_shape_distinct :
  forall (mask : Z -> Z -> Z) (nbits bpc : Z -> Z) c0 ops r r' c c' i i' v,
    In (r, c, i) (process_keys c0 ops) -> In (r', c', i') (process_keys c0 ops) ->
    comparable r r' -> In PContext (spec_tpl r) -> In PIndex (spec_tpl r) ->
    rvalue mask nbits bpc r c i = Ok v -> rvalue mask nbits bpc r' c' i' = Ok v ->
    (r, c, i) = (r', c', i').
Proof. exact process_same_shape_distinct. Qed.
Print Assumptions C13_process_same_shape_distinct.

(* Default unique_id generators (`unique_id`, `UniqueId.unique_id`, template-less
   `UniqueId.NumericIdGenerator`; small-id and big-id mode in any mix; any pids): ALL values of the
   process are pairwise distinct.  Unlike C13_pipeline_process there is no hypothesis about context
   numbers: the machine allocates them. *)
Theorem C13_process_default_numeric_distinct :
  forall (mask : Z -> Z -> Z) (nbits bpc : Z -> Z) c0 ops vs,
    (forall r c i, In (r, c, i) (process_keys c0 ops) ->
       exists big pid, r = RNum (default_numeric_tpl big) pid true) ->
    process_values mask nbits bpc c0 ops = map Ok vs -> NoDup vs.
Proof. exact process_default_numeric_NoDup. Qed.
Print Assumptions C13_process_default_numeric_distinct.

(* BIG-ID MODE ONLY (see K5): default alpha generators over one duplicate-free alphabet and one
   randomize_codes flag (any min_chars, any pids): all codes of the process are pairwise distinct, again
   without a hypothesis about context numbers. *)
Theorem C13_process_default_alpha_big_mode_distinct :
  forall (mask : Z -> Z -> Z) (nbits bpc : Z -> Z) c0 ops abc rc vs,
    NoDup abc -> (2 <= length abc)%nat ->
    (forall r c i, In (r, c, i) (process_keys c0 ops) ->
       exists pid a, r = RAlpha (default_alpha_tpl true) pid a /\ al_alphabet a = abc /\ al_randomize a = rc) ->
    process_values mask nbits bpc c0 ops = map Ok vs -> NoDup vs.
Proof. exact process_default_alpha_big_NoDup. Qed.
Print Assumptions C13_process_default_alpha_big_mode_distinct.

(* ---- non-vacuity: concrete runs satisfying the hypotheses ---- *)

(* the example of the comment in UniqueId.py: [127, 99, 0, 1] -> 17791439091 *)
Example C13_ex_encode : encode [127; 99; 0; 1] = 17791439091.
Proof. vm_compute. reflexivity. Qed.

(* leading-zero corner: first number 0 *)
Example C13_ex_encode_zero : encode [0; 0; 8] = 90910 /\ encode [0] = 0.
Proof. split; vm_compute; reflexivity. Qed.

(* default small-mode unique_id, context 3, first draw; mask_for_key(1,10) = 137 *)
Example C13_ex_unique_id :
  num_value (fun _ _ => 137) (fun _ => 6) (default_numeric_tpl false) [] 3 1 true = Ok 1741010.
Proof. vm_compute. reflexivity. Qed.

Example C13_ex_roundtrip :
  scramble (fun _ _ => 137) (fun _ => 6) 391 10 = Ok 1741010 /\
  unscramble (fun _ _ => 137) 1741010 = Ok 391.
Proof. split; vm_compute; reflexivity. Qed.

Example C13_ex_process :
  process_draws (fun k n => k * 37 + n) (fun n => Z.log2 n + 1)
                [mkDgen false [] 1 1 3; mkDgen true [5] 2 1 2; mkDgen false [] 7 1 2]
  = map Ok [601010; 712010; 1063010; 59151013; 60142013; 961010; 272010].
Proof. vm_compute. reflexivity. Qed.

Example C13_ex_alpha_process :
  exists codes,
    aprocess_draws (fun k n => k * 37 + n) (fun n => Z.log2 n + 1) (fun _ => 5) default_alphabet true
                   [mkAgen true [9] 1 8 2; mkAgen true [5] 2 12 2] = map Ok codes /\ length codes = 4%nat.
Proof.
  eexists (_ :: _ :: _ :: _ :: nil). split; [vm_compute; reflexivity|reflexivity].
Qed.

Example C13_ex_alpha :
  alpha_string [65; 67; 71; 84] 6 27 = Ok [65; 65; 65; 67; 71; 84].   (* "AAACGT" *)
Proof. vm_compute. reflexivity. Qed.

(* " PID , 007,Index,context" is read as pid, 7, index, context;  "1_000" / "+5" / "" are rejected *)
Example C13_ex_parse :
  parse_template [32; 80; 73; 68; 32; 44; 32; 48; 48; 55; 44; 73; 110; 100; 101; 120; 44; 99; 111; 110;
                  116; 101; 120; 116] = Ok [PPid; PNum 7; PIndex; PContext] /\
  parse_template [49; 95; 48; 48; 48; 44; 43; 53; 44] = Ok [PBad; PBad; PBad] /\
  print_template [PPid; PNum 120; PIndex] = [112; 105; 100; 44; 49; 50; 48; 44; 105; 110; 100; 101; 120].
Proof. repeat split; vm_compute; reflexivity. Qed.

(* a process of two runs: run 1 makes a default small-id generator (context 1) and draws twice; a bad
   template burns context 2; run 2 makes a big-id generator (context 3), draws from both *)
Example C13_ex_machine :
  process_values (fun k n => k * 37 + n) (fun n => Z.log2 n + 1) (fun _ => 5) 1
    [ONew (Ok (RNum (default_numeric_tpl false) [] true, 1)); ODraw 0 2; OBoundary;
     ONew (Err (DGE "")); ONew (Ok (RNum (default_numeric_tpl true) [5] true, 1)); ODraw 1 1; ODraw 0 1]
  = map Ok [VNum 601010; VNum 712010; VNum 58891013; VNum 1063010].
Proof. vm_compute. reflexivity. Qed.

(* ---------------------------------------------------------------- one generator, several names (round 5)

   A recipe gets at a generator through names: the nickname and the table name of the (just_once) row that
   holds it in a field, `reference:` fields, variables holding references, the parent row of a friend ...
   [names_keys c0 prog] are the (generator, context, index) keys of all draws of a program over names
   (constructor calls bound to names, aliases, draws through names, names going out of scope, runs chained by
   continuations or started afresh), compiled to the process machine.  [n_continue] is what a continuation does
   to the store of names: every generator that some name denotes is built anew exactly once and all its names
   move to the new one (in the code: one YAML anchor per Python object in the continuation file). *)

(* A continuation keeps the sharing: two names denote one generator afterwards exactly when they did before, and
   what they denote afterwards was made by the continuation (its number lies above every earlier generator). *)
Theorem C13_continuation_keeps_sharing :
  forall st a b ga gb,
    st_lookup (ns_store st) a = Some ga -> st_lookup (ns_store st) b = Some gb ->
    exists ga' gb',
      st_lookup (ns_store (fst (n_continue st))) a = Some ga' /\
      st_lookup (ns_store (fst (n_continue st))) b = Some gb' /\
      (ga = gb <-> ga' = gb') /\
      (length (ns_made st) <= ga')%nat /\ (length (ns_made st) <= gb')%nat.
Proof. exact names_continue_keeps_sharing. Qed.
Print Assumptions C13_continuation_keeps_sharing.

(* Whatever the names, aliases and continuations: no (context, index) pair is used twice. *)
Theorem C13_names_keys_fresh :
  forall c0 prog,
    NoDup (names_keys c0 prog) /\
    NoDup (map (fun k : rspec * Z * Z => (snd (fst k), snd k)) (names_keys c0 prog)).
Proof. exact names_keys_NoDup. Qed.
Print Assumptions C13_names_keys_fresh.

(* Two draws of a program over names that land on the same generator (same constructor arguments, same context
   number) — through whatever names, template with or without `context`, numeric or alphabetic over a
   duplicate-free alphabet — give the same value only if they are the same draw. *)
Theorem C13_names_one_generator_never_repeats :
  forall (mask : Z -> Z -> Z) (nbits bpc : Z -> Z) c0 prog p q r c i i' v,
    nth_error (names_keys c0 prog) p = Some (r, c, i) ->
    nth_error (names_keys c0 prog) q = Some (r, c, i') ->
    comparable r r -> In PIndex (spec_tpl r) ->
    rvalue mask nbits bpc r c i = Ok v -> rvalue mask nbits bpc r c i' = Ok v -> p = q.
Proof. exact names_values_distinct. Qed.
Print Assumptions C13_names_one_generator_never_repeats.

(* non-vacuity.  Template "pid,index" (no context), pid 5; name 0 = the nickname, name 1 = the table name.
   Run 1 draws through both names, the continuation rebuilds the ONE generator (context 2, index from 1 again),
   run 2 draws through both names: indexes 1, 2, 3 of the same generator. *)
Example C13_ex_names :
  let sp := SNum [112; 105; 100; 44; 105; 110; 100; 101; 120] [5] 1 true in
  map (fun k : rspec * Z * Z => (snd (fst k), snd k))
      (names_keys 1 [NNew 0 sp; NAlias 1 0; NDraw 0; NDraw 1; NContinue; NDraw 0; NDraw 1; NDraw 0])
  = [(1, 1); (1, 2); (2, 1); (2, 2); (2, 3)].
Proof. vm_compute. reflexivity. Qed.

(* ... and why the sharing matters for a template without `context`: were the two names given a generator
   each (as when the continuation file spells every occurrence out), both would start at index 1 and — the
   context number not being part of the id — hand out the same id. *)
Example C13_ex_names_unshared :
  let sp := SNum [112; 105; 100; 44; 105; 110; 100; 101; 120] [5] 1 true in
  map (fun k : rspec * Z * Z => (snd (fst k), snd k))
      (names_keys 1 [NNew 0 sp; NAlias 1 0; NDraw 0; NDraw 1; NFresh; NNew 0 sp; NNew 1 sp; NDraw 0; NDraw 1])
  = [(1, 1); (1, 2); (2, 1); (3, 1)] /\
  num_value (fun k n => k * 37 + n) (fun n => Z.log2 n + 1) [PPid; PIndex] [5] 2 1 true =
  num_value (fun k n => k * 37 + n) (fun n => Z.log2 n + 1) [PPid; PIndex] [5] 3 1 true.
Proof. split; vm_compute; reflexivity. Qed.

(* the store after a continuation: names 0 and 1 shared generator 0 and share generator 3 afterwards; name 7
   had generator 1 and has generator 2 (the order in which the continuation rebuilds the generators is not
   compared with the implementation) *)
Example C13_ex_continue_store :
  ns_store (fst (n_continue (mkNstate [(0, 0); (7, 1); (1, 0)]%nat
                                      [(RNum [PIndex] [] true, 1); (RNum [PContext; PIndex] [] true, 1)])))
  = [(0, 3); (7, 2); (1, 3)]%nat.
Proof. vm_compute. reflexivity. Qed.
