(* C13 — unique_id and unique_alpha_code never collide within a run.
   Model: theories/UniqueId.v (snowfakery/standard_plugins/UniqueId.py,
   snowfakery/utils/scrambled_numbers.py, unique_id / unique_alpha_code of template_funcs.py).
   Only statements here; proofs live in proofs/UniqueIdP.v.

   In every theorem [mask], [nbits], [bpc] are arbitrary functions: Random(key).getrandbits(n),
   int(log(x,2))+1 and int(log(size,2)) only have to be functions of their arguments. *)
From Coq Require Import ZArith List.
From SFV Require Import Base UniqueId.
From SFV.P Require Import UniqueIdP.
Import ListNotations. Open Scope Z_scope.

(* The digit rendering (used for octal and for the alphabet) is exact for every base >= 2 and
   every n >= 0: in particular the model's digit fuel always suffices. *)
Theorem C13_digits_roundtrip :
  forall b n, 2 <= b -> 0 <= n -> from_digits b (to_digits b n) = n.
Proof. exact to_digits_value. Qed.
Print Assumptions C13_digits_roundtrip.

(* int("9".join(oct(x) for x in l)) determines the tuple l — for tuples of any (possibly
   different) lengths, including the leading-zero corner (first number 0). *)
Theorem C13_join9_injective :
  forall l l', l <> [] -> l' <> [] ->
    Forall (fun x => 0 <= x) l -> Forall (fun x => 0 <= x) l' ->
    encode l = encode l' -> l = l'.
Proof. exact encode_inj. Qed.
Print Assumptions C13_join9_injective.

(* Two numeric generators (any templates containing `index`, same randomize flag) can produce
   the same value only from the same tuple of numbers. *)
Theorem C13_values_collide_only_on_same_numbers :
  forall (mask : Z -> Z -> Z) (nbits : Z -> Z) tpl tpl' pid pid' c c' i i' r v,
    In PIndex tpl -> In PIndex tpl' ->
    num_value mask nbits tpl pid c i r = Ok v ->
    num_value mask nbits tpl' pid' c' i' r = Ok v ->
    instantiate tpl pid c i = instantiate tpl' pid' c' i'.
Proof. exact num_value_same_numbers. Qed.
Print Assumptions C13_values_collide_only_on_same_numbers.

(* One generator, any template that contains `index`: different draws, different values. *)
Theorem C13_template_injective :
  forall (mask : Z -> Z -> Z) (nbits : Z -> Z) tpl pid c i i' r v,
    In PIndex tpl ->
    num_value mask nbits tpl pid c i r = Ok v ->
    num_value mask nbits tpl pid c i' r = Ok v -> i = i'.
Proof.
  intros mask nbits tpl pid c i i' r v Hi H H'.
  exact (proj1 (num_value_inj mask nbits tpl pid pid c c i i' r v Hi eq_refl H H')).
Qed.
Print Assumptions C13_template_injective.

(* Two generators of the same template shape: a value in common forces the same index, the same
   context if the template has `context`, the same pid if it has `pid`. *)
Theorem C13_cross_generator_distinct :
  forall (mask : Z -> Z -> Z) (nbits : Z -> Z) tpl pid pid' c c' i i' r v,
    In PIndex tpl -> length pid = length pid' ->
    num_value mask nbits tpl pid c i r = Ok v ->
    num_value mask nbits tpl pid' c' i' r = Ok v ->
    i = i' /\ (In PContext tpl -> c = c') /\ (In PPid tpl -> pid = pid').
Proof. exact num_value_inj. Qed.
Print Assumptions C13_cross_generator_distinct.

(* unscramble_number undoes scramble_number, whatever minbits was. *)
Theorem C13_scramble_roundtrip :
  forall (mask : Z -> Z -> Z) (nbits : Z -> Z) n minbits v,
    scramble mask nbits n minbits = Ok v -> unscramble mask v = Ok n.
Proof. exact scramble_unscramble. Qed.
Print Assumptions C13_scramble_roundtrip.

(* scramble_number is injective across all minbits (numbits >= 1000 is the code's own assert:
   then the result is Err, not Ok). *)
Theorem C13_scramble_injective :
  forall (mask : Z -> Z -> Z) (nbits : Z -> Z) n n' minbits minbits' v,
    scramble mask nbits n minbits = Ok v -> scramble mask nbits n' minbits' = Ok v -> n = n'.
Proof. exact scramble_inj. Qed.
Print Assumptions C13_scramble_injective.

(* Alphabet encoding with left padding: injective for duplicate-free alphabets of size >= 2,
   also across different min_chars. *)
Theorem C13_alpha_injective :
  forall abc w w' n n' s, NoDup abc -> (2 <= length abc)%nat ->
    alpha_string abc w n = Ok s -> alpha_string abc w' n' = Ok s -> n = n'.
Proof. exact alpha_string_inj. Qed.
Print Assumptions C13_alpha_injective.

Theorem C13_alpha_charset :
  forall abc w n s, alpha_string abc w n = Ok s -> Forall (fun c => In c abc) s.
Proof. exact alpha_string_charset. Qed.
Print Assumptions C13_alpha_charset.

Theorem C13_alpha_min_len :
  forall abc w n s, alpha_string abc w n = Ok s -> w <= Z.of_nat (length s).
Proof. exact alpha_string_min_len. Qed.
Print Assumptions C13_alpha_min_len.

(* the three statements above are not vacuous: the encoding never fails *)
Theorem C13_alpha_total :
  forall abc w n, (2 <= length abc)%nat -> 0 <= n -> exists s, alpha_string abc w n = Ok s.
Proof. exact alpha_string_total. Qed.
Print Assumptions C13_alpha_total.

(* Pipeline, default unique_id generators (`unique_id`, `UniqueId.unique_id`,
   `UniqueId.NumericIdGenerator` without template), small-id or big-id mode, any pid: a value in
   common means same generator (context number) and same draw. *)
Theorem C13_pipeline :
  forall (mask : Z -> Z -> Z) (nbits : Z -> Z) big big' pid pid' c c' i i' v,
    num_value mask nbits (default_numeric_tpl big) pid c i true = Ok v ->
    num_value mask nbits (default_numeric_tpl big') pid' c' i' true = Ok v ->
    c = c' /\ i = i'.
Proof. exact pipeline_numeric_pair. Qed.
Print Assumptions C13_pipeline.

(* ... hence: any number of default generators with pairwise different context numbers (the
   process-wide counter), each drawn any number of times: all values pairwise distinct. *)
Theorem C13_pipeline_process :
  forall (mask : Z -> Z -> Z) (nbits : Z -> Z) (gens : list dgen) (vs : list Z),
    NoDup (map d_ctx gens) -> process_draws mask nbits gens = map Ok vs -> NoDup vs.
Proof. exact pipeline_numeric_NoDup. Qed.
Print Assumptions C13_pipeline_process.

(* FULL STATEMENT FOR ALPHA CODES (false, see C13_refuted_default_alpha_small_mode):
     codes of alpha generators are pairwise distinct across generators, in both id modes.
   PROVED PART: alpha generators over the same duplicate-free alphabet (any min_chars), same
   randomize_codes flag, same template containing `index`: a code in common forces the same
   index, and the same context / pid IF THE TEMPLATE CONTAINS `context` / `pid`.  This covers the
   big-id default template (pid,context,index) and every user template with `context`; it says
   nothing across generators for the small-id default template (`index` alone).  Also missing:
   generators over different alphabets (their codes are not comparable by decoding). *)
Theorem C13_pipeline_alpha_partial :
  forall (mask : Z -> Z -> Z) (nbits bpc : Z -> Z) a a' tpl pid pid' c c' i i' s,
    al_alphabet a = al_alphabet a' -> al_randomize a = al_randomize a' ->
    NoDup (al_alphabet a) -> (2 <= length (al_alphabet a))%nat ->
    In PIndex tpl -> length pid = length pid' ->
    alpha_value mask nbits bpc a tpl pid c i = Ok s ->
    alpha_value mask nbits bpc a' tpl pid' c' i' = Ok s ->
    i = i' /\ (In PContext tpl -> c = c') /\ (In PPid tpl -> pid = pid').
Proof. exact alpha_value_inj. Qed.
Print Assumptions C13_pipeline_alpha_partial.

(* BIG-ID MODE ONLY (the default template then is pid,context,index): default alpha generators
   with any pids and min_chars share a code only for the same generator and the same draw ... *)
Theorem C13_pipeline_alpha_big_mode :
  forall (mask : Z -> Z -> Z) (nbits bpc : Z -> Z) a a' pid pid' c c' i i' s,
    al_alphabet a = al_alphabet a' -> al_randomize a = al_randomize a' ->
    NoDup (al_alphabet a) -> (2 <= length (al_alphabet a))%nat ->
    alpha_value mask nbits bpc a (default_alpha_tpl true) pid c i = Ok s ->
    alpha_value mask nbits bpc a' (default_alpha_tpl true) pid' c' i' = Ok s ->
    c = c' /\ i = i'.
Proof. exact pipeline_alpha_pair_big. Qed.
Print Assumptions C13_pipeline_alpha_big_mode.

(* ... hence any number of BIG-ID-MODE default alpha generators over one alphabet / randomize flag
   with pairwise different context numbers, each drawn any number of times: all codes distinct.
   (Without the hypothesis ag_big = true this is false: K5.) *)
Theorem C13_pipeline_alpha_process_big_mode :
  forall (mask : Z -> Z -> Z) (nbits bpc : Z -> Z) (abc : list Z) (rc : bool)
         (gens : list agen) (codes : list (list Z)),
    NoDup abc -> (2 <= length abc)%nat ->
    (forall g, In g gens -> ag_big g = true) ->
    NoDup (map ag_ctx gens) ->
    aprocess_draws mask nbits bpc abc rc gens = map Ok codes -> NoDup codes.
Proof. exact pipeline_alpha_NoDup_big. Qed.
Print Assumptions C13_pipeline_alpha_process_big_mode.

(* every code of an alpha generator uses only its alphabet and has at least min_chars chars *)
Theorem C13_alpha_generator_charset_min_len :
  forall (mask : Z -> Z -> Z) (nbits bpc : Z -> Z) a tpl pid c i s,
    alpha_value mask nbits bpc a tpl pid c i = Ok s ->
    Forall (fun ch => In ch (al_alphabet a)) s /\ al_min_chars a <= Z.of_nat (length s).
Proof. exact alpha_value_charset_len. Qed.
Print Assumptions C13_alpha_generator_charset_min_len.

(* Known finding K5: in small-id mode the default alpha template is `index` only, so every
   default alpha generator of a process (`unique_alpha_code`, each default
   `UniqueId.AlphaCodeGenerator`, and the same `var:` re-created in the next iteration) emits the
   same sequence. *)
Theorem C13_default_alpha_small_ignores_context :
  forall (mask : Z -> Z -> Z) (nbits bpc : Z -> Z) a pid c c' i,
    alpha_value mask nbits bpc a (default_alpha_tpl false) pid c i =
    alpha_value mask nbits bpc a (default_alpha_tpl false) pid c' i.
Proof. exact default_alpha_small_ignores_context. Qed.
Print Assumptions C13_default_alpha_small_ignores_context.

(* The witness of corpus/C13/k5_default_alpha_small_mode.json: two default alpha generators
   (context numbers 2 and 3), first draw (index 1001), observed mask_for_key(1,27) = 18034063,
   int(log(175,2))+1 = 8, int(log(36,2)) = 5: both give "2AUHHSZN". *)
Theorem C13_refuted_default_alpha_small_mode :
  exists a c c' i s,
    alpha_new (default_alpha_tpl false) None 8 true = Ok a /\ c <> c' /\
    alpha_value (fun _ _ => 18034063) (fun _ => 8) (fun _ => 5) a (default_alpha_tpl false) [] c i = Ok s /\
    alpha_value (fun _ _ => 18034063) (fun _ => 8) (fun _ => 5) a (default_alpha_tpl false) [] c' i = Ok s.
Proof.
  exists (mkAlpha default_alphabet 8 true), 2, 3, 1001, [50; 65; 85; 72; 72; 83; 90; 78].
  split; [vm_compute; reflexivity|]. split; [discriminate|].
  split; vm_compute; reflexivity.
Qed.
Print Assumptions C13_refuted_default_alpha_small_mode.

(* FULL STATEMENT ACROSS TEMPLATES (false): values of generators with DIFFERENT template shapes are
   distinct.  C13_values_collide_only_on_same_numbers says they coincide exactly when the
   instantiated tuples coincide, and tuples of different shapes can coincide: template
   `index,context` with context 1, index 2 and the default `context,index` with context 2,
   index 1 both give the tuple (2,1) -> 291 -> 1481010 (witness corpus/C13/cross_shape_collision.json;
   observed mask_for_key(1,10) = 137).  C13_cross_generator_distinct is the proved part (same
   shape). *)
Theorem C13_refuted_cross_shape :
  exists tpl tpl' c c' i i' v,
    tpl <> tpl' /\ c <> c' /\
    In PContext tpl /\ In PIndex tpl /\ In PContext tpl' /\ In PIndex tpl' /\
    num_value (fun _ _ => 137) (fun _ => 5) tpl [] c i true = Ok v /\
    num_value (fun _ _ => 137) (fun _ => 5) tpl' [] c' i' true = Ok v.
Proof.
  exists [PIndex; PContext], (default_numeric_tpl false), 1, 2, 2, 1, 1481010.
  split; [discriminate|]. split; [discriminate|].
  repeat (split; [cbn; tauto|]).
  split; vm_compute; reflexivity.
Qed.
Print Assumptions C13_refuted_cross_shape.

(* ---- non-vacuity: concrete runs satisfying the hypotheses ---- *)

(* the example of the comment in UniqueId.py: [127, 99, 0, 1] -> 17791439091 *)
Example C13_ex_encode : encode [127; 99; 0; 1] = 17791439091.
Proof. vm_compute. reflexivity. Qed.

(* leading-zero corner: first number 0 *)
Example C13_ex_encode_zero : encode [0; 0; 8] = 90910 /\ encode [0] = 0.
Proof. split; vm_compute; reflexivity. Qed.

(* default small-mode unique_id, context 3, first draw; mask_for_key(1,10) = 137 *)
Example C13_ex_unique_id :
  num_value (fun _ _ => 137) (fun _ => 6) (default_numeric_tpl false) [] 3 1 true = Ok 1741010.
Proof. vm_compute. reflexivity. Qed.

Example C13_ex_roundtrip :
  scramble (fun _ _ => 137) (fun _ => 6) 391 10 = Ok 1741010 /\
  unscramble (fun _ _ => 137) 1741010 = Ok 391.
Proof. split; vm_compute; reflexivity. Qed.

Example C13_ex_process :
  process_draws (fun k n => k * 37 + n) (fun n => Z.log2 n + 1)
                [mkDgen false [] 1 1 3; mkDgen true [5] 2 1 2; mkDgen false [] 7 1 2]
  = map Ok [601010; 712010; 1063010; 59151013; 60142013; 961010; 272010].
Proof. vm_compute. reflexivity. Qed.

Example C13_ex_alpha_process :
  exists codes,
    aprocess_draws (fun k n => k * 37 + n) (fun n => Z.log2 n + 1) (fun _ => 5) default_alphabet true
                   [mkAgen true [9] 1 8 2; mkAgen true [5] 2 12 2] = map Ok codes /\ length codes = 4%nat.
Proof.
  eexists (_ :: _ :: _ :: _ :: nil). split; [vm_compute; reflexivity|reflexivity].
Qed.

Example C13_ex_alpha :
  alpha_string [65; 67; 71; 84] 6 27 = Ok [65; 65; 65; 67; 71; 84].   (* "AAACGT" *)
Proof. vm_compute. reflexivity. Qed.
