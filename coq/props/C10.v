(* C10 — random_reference picks existing, correctly scoped targets; unique never repeats.
   Model: theories/RowHistory.v (row_history.py) on top of theories/RandRange.v.
   Proofs: proofs/RowHistoryP.v, proofs/RandRangeP.v.                                     *)
From Coq Require Import ZArith List Permutation.
From SFV Require Import C10Cases.
From SFV Require Import Base RandRange RowHistory.
From SFV.P Require Import RandRangeP RowHistoryP.
Import ListNotations. Open Scope string_scope. Open Scope Z_scope.

(* the invariant "nickname ordinals are dense" holds in every reachable history *)
Theorem C10_history_invariant :
  (forall counters names, NickInv (rh_init counters names)) /\
  (forall h t nick i, NickInv h -> NickInv (save_row h t nick i)) /\
  (forall h, NickInv h -> NickInv (reset_locals h)).
Proof. split; [exact NickInv_init|split; [exact NickInv_save|exact NickInv_reset]]. Qed.
Print Assumptions C10_history_invariant.

(* by nickname: whatever number in the requested interval is drawn, the reference names a row
   that was saved under that nickname, in the nickname's table *)
Theorem C10_nickname_target_exists :
  forall h name t d tbl i,
    NickInv h -> lookupS name (n2t h) = Some t ->
    random_ref h name d = Ok (tbl, i) ->
    tbl = t /\ exists r, In r (hrows h) /\ h_table r = t /\ h_nick r = Some name /\ h_id r = i.
Proof. exact nick_ref_sound. Qed.
Print Assumptions C10_nickname_target_exists.

Theorem C10_nickname_always_succeeds :
  forall h name t,
    NickInv h -> NickTables h -> lookupS name (n2t h) = Some t ->
    get0 name (nc h) <> 0 -> 0 <= get0 name (lnc h) ->
    exists lo hi, ref_range h name = Ok (Some name, t, lo, hi) /\ 1 <= lo <= hi /\ hi = get0 name (nc h) /\
      forall d, lo <= d <= hi -> exists i, random_ref h name d = Ok (t, i).
Proof. exact nick_ref_total. Qed.
Print Assumptions C10_nickname_always_succeeds.

(* by table name: the target is the drawn id, it lies in [min_id, last saved id], and it is
   above the per-iteration lower bound whenever the iteration has saved a row (scoping) *)
Theorem C10_table_target_scoped :
  forall h name d tbl i,
    lookupS name (n2t h) = None ->
    random_ref h name d = Ok (tbl, i) ->
    tbl = name /\ i = d /\ exists m, lookupZ name (tc h) = Some m /\ d <= m /\
      (if m <? get0 name (lc h) + 1 then 1 <= d else get0 name (lc h) < d).
Proof. exact table_ref_range. Qed.
Print Assumptions C10_table_target_scoped.

(* ... and, when the table's ids were saved in increasing order (no id reserved by a forward
   reference), it names a saved row of the table or an id issued before this history began *)
Theorem C10_table_target_exists_partial :
  forall T base ops h0 d tbl i,
    dense_from T base h0 -> ordered_for T h0 ops ->
    lookupS T (n2t (apply_ops h0 ops)) = None ->
    random_ref (apply_ops h0 ops) T d = Ok (tbl, i) ->
    tbl = T /\ ((exists r, In r (hrows (apply_ops h0 ops)) /\ h_table r = T /\ h_id r = i) \/ i <= base).
Proof. exact table_ref_exists. Qed.
Print Assumptions C10_table_target_exists_partial.

(* K3: without the ordering hypothesis the statement is false — witness: id 1 reserved by a
   forward reference, rows 2 and 3 saved, the draw 1 names a row that does not exist yet *)
Theorem C10_refuted_forward_reserved :
  exists h d, random_ref h "A" d = Ok ("A", d) /\
              ~ exists r, In r (hrows h) /\ h_table r = "A" /\ h_id r = d.
Proof.
  exists (save_row (save_row (rh_init [] [("A", "A")]) "A" None 2) "A" None 3), 1.
  split; [vm_compute; reflexivity|].
  intros (r & Hin & _ & Hid). cbn in Hin. destruct Hin as [<-|[<-|[]]]; cbn in Hid; discriminate.
Qed.
Print Assumptions C10_refuted_forward_reserved.

(* unique: one context never returns a number twice, whatever intervals are requested *)
Theorem C10_unique_never_repeats :
  forall reqs oracle vs, uchain None reqs oracle = Ok vs -> NoDup vs.
Proof. exact unique_draws_no_repeat. Qed.
Print Assumptions C10_unique_never_repeats.

(* unique: when the range is exhausted the draw is a DataGenError, and at that point exactly
   the integers of the requested range have been used (C12_extend_complete) *)
Theorem C10_unique_exhaustion_is_error :
  forall u a b oracle u1 u2,
    (match u with None => urr_init a (b + 1) oracle | Some u0 => urr_set_new_range u0 a (b + 1) end) = Ok u1 ->
    urr_next u1 = Ok (None, u2) ->
    unique_draw u a b oracle = Err (DGE "no-unused-target").
Proof.
  intros u a b oracle u1 u2 H1 H2. unfold unique_draw. rewrite H1. cbn [bind]. rewrite H2. reflexivity.
Qed.
Print Assumptions C10_unique_exhaustion_is_error.

Theorem C10_unique_uses_every_target :
  forall start stop oracle ops u tr u1 u2,
    urr_init start stop oracle = Ok u -> extend_only start ops ->
    urr_run u ops = Ok (tr, u1) -> urr_next u1 = Ok (None, u2) ->
    Permutation (produced tr) (Zseq start (Z.to_nat (u_cur_max u1 - start))) /\ stop <= u_cur_max u1.
Proof. exact extend_complete. Qed.
Print Assumptions C10_unique_uses_every_target.

(* non-vacuity *)
Example C10_ex :
  run_script (rh_init [] [("A", "A"); ("aa", "A")]) None [(0, 0); (1, 0)]
    [HSave "A" None 1; HSave "A" (Some "aa") 2; HSave "A" None 3; HRef "aa" 1; HRef "A" 2;
     HReset; HRef "A" 3; HSave "A" None 4; HRef "A" 4; HURef "A"; HSave "A" None 5; HURef "A"; HURef "A"]
  = [ONone; ONone; ONone; ORefd "A" 2; ORefd "A" 2; ONone; ORefd "A" 3; ONone; ORefd "A" 4;
     ORefd "A" 4; ONone; ORefd "A" 5; OErr (DGE "no-unused-target")].
Proof. vm_compute. reflexivity. Qed.
