(* C10 — random_reference picks existing, correctly scoped targets; unique never repeats.
   Model: theories/RowHistory.v (row_history.py) on top of theories/RandRange.v.
   Proofs: proofs/RowHistoryP.v, proofs/RandRangeP.v.                                     *)
From Coq Require Import ZArith List Permutation.
From SFV Require Import C10Cases.
From SFV Require Import Base RandRange RowHistory.
From SFV.P Require Import RandRangeP RowHistoryP.
Import ListNotations. Open Scope string_scope. Open Scope Z_scope.

(* the invariant "nickname ordinals are dense" holds in every reachable history *)
Theorem C10_history_invariant :
  (forall counters names, NickInv (rh_init counters names)) /\
  (forall h t nick i, NickInv h -> NickInv (save_row h t nick i)) /\
  (forall h, NickInv h -> NickInv (reset_locals h)).
Proof. split; [exact NickInv_init|split; [exact NickInv_save|exact NickInv_reset]]. Qed.
Print Assumptions C10_history_invariant.

(* by nickname: whatever number in the requested interval is drawn, the reference names a row
   that was saved under that nickname, in the nickname's table *)
Theorem C10_nickname_target_exists :
  forall h name t d tbl i,
    NickInv h -> lookupS name (n2t h) = Some t ->
    random_ref h name d = Ok (tbl, i) ->
    tbl = t /\ exists r, In r (hrows h) /\ h_table r = t /\ h_nick r = Some name /\ h_id r = i.
Proof. exact nick_ref_sound. Qed.
Print Assumptions C10_nickname_target_exists.

Theorem C10_nickname_always_succeeds :
  forall h name t,
    NickInv h -> NickTables h -> lookupS name (n2t h) = Some t ->
    get0 name (nc h) <> 0 -> 0 <= get0 name (lnc h) ->
    exists lo hi, ref_range h name = Ok (Some name, t, lo, hi) /\ 1 <= lo <= hi /\ hi = get0 name (nc h) /\
      forall d, lo <= d <= hi -> exists i, random_ref h name d = Ok (t, i).
Proof. exact nick_ref_total. Qed.
Print Assumptions C10_nickname_always_succeeds.

(* by table name: the target is the drawn id, it lies in [min_id, last saved id], and it is
   above the per-iteration lower bound whenever the iteration has saved a row (scoping) *)
Theorem C10_table_target_scoped :
  forall h name d tbl i,
    lookupS name (n2t h) = None ->
    random_ref h name d = Ok (tbl, i) ->
    tbl = name /\ i = d /\ exists m, lookupZ name (tc h) = Some m /\ d <= m /\
      (if m <? get0 name (lc h) + 1 then 1 <= d else get0 name (lc h) < d).
Proof. exact table_ref_range. Qed.
Print Assumptions C10_table_target_scoped.

(* ... and, when the table's ids were saved in increasing order (no id reserved by a forward
   reference), it names a saved row of the table or an id issued before this history began *)
Theorem C10_table_target_exists_partial :
  forall T base ops h0 d tbl i,
    dense_from T base h0 -> ordered_for T h0 ops ->
    lookupS T (n2t (apply_ops h0 ops)) = None ->
    random_ref (apply_ops h0 ops) T d = Ok (tbl, i) ->
    tbl = T /\ ((exists r, In r (hrows (apply_ops h0 ops)) /\ h_table r = T /\ h_id r = i) \/ i <= base).
Proof. exact table_ref_exists. Qed.
Print Assumptions C10_table_target_exists_partial.

(* K3: without the ordering hypothesis the statement is false — witness: id 1 reserved by a
   forward reference, rows 2 and 3 saved, the draw 1 names a row that does not exist yet *)
Theorem C10_refuted_forward_reserved :
  exists h d, random_ref h "A" d = Ok ("A", d) /\
              ~ exists r, In r (hrows h) /\ h_table r = "A" /\ h_id r = d.
Proof.
  exists (save_row (save_row (rh_init [] [("A", "A")]) "A" None 2) "A" None 3), 1.
  split; [vm_compute; reflexivity|].
  intros (r & Hin & _ & Hid). cbn in Hin. destruct Hin as [<-|[<-|[]]]; cbn in Hid; discriminate.
Qed.
Print Assumptions C10_refuted_forward_reserved.

(* unique: one context never returns a number twice, whatever intervals are requested *)
Theorem C10_unique_never_repeats :
  forall reqs oracle vs, uchain None reqs oracle = Ok vs -> NoDup vs.
Proof. exact unique_draws_no_repeat. Qed.
Print Assumptions C10_unique_never_repeats.

(* unique: when the range is exhausted the draw is a DataGenError, and at that point exactly
   the integers of the requested range have been used (C12_extend_complete) *)
Theorem C10_unique_exhaustion_is_error :
  forall u a b oracle u1 u2,
    (match u with None => urr_init a (b + 1) oracle | Some u0 => urr_set_new_range u0 a (b + 1) end) = Ok u1 ->
    urr_next u1 = Ok (None, u2) ->
    unique_draw u a b oracle = Err (DGE "no-unused-target").
Proof.
  intros u a b oracle u1 u2 H1 H2. unfold unique_draw. rewrite H1. cbn [bind]. rewrite H2. reflexivity.
Qed.
Print Assumptions C10_unique_exhaustion_is_error.

Theorem C10_unique_uses_every_target :
  forall start stop oracle ops u tr u1 u2,
    urr_init start stop oracle = Ok u -> extend_only start ops ->
    urr_run u ops = Ok (tr, u1) -> urr_next u1 = Ok (None, u2) ->
    Permutation (produced tr) (Zseq start (Z.to_nat (u_cur_max u1 - start))) /\ stop <= u_cur_max u1.
Proof. exact extend_complete. Qed.
Print Assumptions C10_unique_uses_every_target.

(* ---------------------------------------------------------------- several call sites (round 3)
   Model: RowHistory.v, "several call sites": the table of call sites kept by
   Interpreter.get_contextual_state (one entry per `random_reference:` written in the recipe:
   parent row + its own RandomReferenceContext), the `scope` argument, one stream of random draws
   shared by every consumer.  s_old st ++ s_cur st = the numbers a call site has drawn under
   its current parent row, in order (ghost fields maintained by mstep_uref).                 *)
Open Scope list_scope.

(* scope: the default scope is the interval of the first part of this file; the global scope
   always starts at the first row *)
Theorem C10_scope_argument :
  (forall h name, ref_range_sc h name false = ref_range h name) /\
  (forall h name nick table lo hi, ref_range_sc h name true = Ok (nick, table, lo, hi) -> lo = 1).
Proof. split; [exact ref_range_sc_local|exact ref_range_sc_global]. Qed.
Print Assumptions C10_scope_argument.

(* a unique reference that draws d inside the requested interval names the row a plain
   reference with draw d names (so C10_nickname_target_exists / C10_table_target_scoped /
   C10_table_target_exists_partial speak about unique references too); by nickname - in any
   scope - it is a row saved under that nickname *)
Theorem C10_unique_target_is_a_plain_target :
  (forall h name nick table lo hi d,
     ref_range_sc h name false = Ok (nick, table, lo, hi) -> lo <= d <= hi ->
     random_ref h name d = resolve_draw h nick table d) /\
  (forall h name t d tbl i,
     resolve_draw h (Some name) t d = Ok (tbl, i) ->
     tbl = t /\ exists r, In r (hrows h) /\ h_table r = t /\ h_nick r = Some name /\ h_nid r = d /\ h_id r = i).
Proof. split; [exact unique_target_as_plain|exact nick_resolve_sound]. Qed.
Print Assumptions C10_unique_target_is_a_plain_target.

(* the invariant of the table of call sites: holds initially, kept by every operation of every
   script (saves, resets, plain references, unique references at any site under any parent) *)
Theorem C10_call_sites_invariant :
  SitesInv [] /\
  (forall m op o m1, SitesInv (m_sites m) -> mstep m op = (o, Some m1) -> SitesInv (m_sites m1)) /\
  (forall ops m, SitesInv (m_sites m) -> SitesInv (m_sites (snd (mrun m ops)))).
Proof. split; [exact SitesInv_nil|split; [exact mstep_inv|exact mrun_inv]]. Qed.
Print Assumptions C10_call_sites_invariant.

(* ONE unique reference, at call site s, under parent row p: the number drawn lies in the
   interval the row history asks for at that moment (rows of the current iteration when it has
   some: only values of the new window appear after a move), it was never drawn by this call
   site under this parent row, it is what the site records, and every other call site's entry
   is left exactly as it was *)
Theorem C10_call_site_step :
  forall h ss orc s p name glob nick table lo hi t i ss' orc',
    SitesInv ss ->
    ref_range_sc h name glob = Ok (nick, table, lo, hi) ->
    mstep_uref h ss orc s p name glob = Ok (t, i, ss', orc') ->
    exists d st',
      lo <= d <= hi /\ resolve_draw h nick table d = Ok (t, i) /\
      ~ In d (s_old (site_get ss s p) ++ s_cur (site_get ss s p)) /\
      lookupN s ss' = Some st' /\ s_parent st' = p /\
      s_old st' ++ s_cur st' = (s_old (site_get ss s p) ++ s_cur (site_get ss s p)) ++ [d] /\
      (forall s', s' <> s -> lookupN s' ss' = lookupN s' ss) /\
      SitesInv ss'.
Proof. exact site_step. Qed.
Print Assumptions C10_call_site_step.

(* a new parent row (or a first use) starts from nothing: the scope of `parent` *)
Theorem C10_parent_scope_starts_empty :
  forall ss s p,
    (forall st, lookupN s ss = Some st -> s_parent st <> p) ->
    s_old (site_get ss s p) ++ s_cur (site_get ss s p) = [] /\ s_ctx (site_get ss s p) = None.
Proof.
  intros ss s p H. unfold site_get. destruct (lookupN s ss) as [st|] eqn:E; [|split; reflexivity].
  destruct (s_parent st =? p) eqn:E2; [|split; reflexivity].
  exfalso. apply (H st eq_refl). apply Z.eqb_eq. exact E2.
Qed.
Print Assumptions C10_parent_scope_starts_empty.

(* "Cannot find an unused X" at a call site means that THIS call site, under the current parent
   row, has used every number of the requested interval in its current window: what other call
   sites aimed at the same target have used is irrelevant, every eligible target can be used *)
Theorem C10_call_site_refused_only_after_using_everything :
  forall h ss orc s p name glob nick table lo hi,
    SitesInv ss ->
    ref_range_sc h name glob = Ok (nick, table, lo, hi) ->
    mstep_uref h ss orc s p name glob = Err (DGE "no-unused-target") ->
    Permutation (s_cur (site_get ss s p)) (Zseq lo (Z.to_nat (hi + 1 - lo))).
Proof. exact site_refused. Qed.
Print Assumptions C10_call_site_refused_only_after_using_everything.

(* the outcome at a call site depends on the other call sites' entries in no way *)
Theorem C10_call_site_outcome_is_local :
  forall h ss1 ss2 orc s p name glob,
    site_get ss1 s p = site_get ss2 s p ->
    match mstep_uref h ss1 orc s p name glob, mstep_uref h ss2 orc s p name glob with
    | Ok (r1, ss1', o1), Ok (r2, ss2', o2) => r1 = r2 /\ o1 = o2 /\ lookupN s ss1' = lookupN s ss2'
    | Err e1, Err e2 => e1 = e2
    | _, _ => False
    end.
Proof. exact site_outcome_local. Qed.
Print Assumptions C10_call_site_outcome_is_local.

(* whole runs: whatever the script (any number of call sites, parents, scopes, targets) and
   whatever the random draws, no call site has drawn a number twice under its parent row *)
Theorem C10_call_sites_never_repeat :
  forall counters names orc ops s st,
    lookupN s (m_sites (snd (mrun (mkM (rh_init counters names) [] orc) ops))) = Some st ->
    NoDup (s_old st ++ s_cur st).
Proof. exact sites_never_repeat. Qed.
Print Assumptions C10_call_sites_never_repeat.

(* the LIFETIME of a uniqueness scope (round 4): as long as a call site is not evaluated under a
   different parent row, its entry survives every operation - saves, plain references, unique
   references at other call sites and iteration ends (MReset) - and only grows: what it has
   drawn so far is a prefix of what it has drawn later, and the whole is repetition-free.  So a
   `parent:` row that outlives an iteration (a just_once row) keeps ONE scope over all the
   iterations; an iteration end hands the table of call sites on unchanged. *)
Theorem C10_scope_outlives_iterations :
  (forall ops m s p st,
     SitesInv (m_sites m) -> Forall (keeps_parent s p) ops ->
     lookupN s (m_sites m) = Some st -> s_parent st = p ->
     exists st' l, lookupN s (m_sites (snd (mrun m ops))) = Some st' /\ s_parent st' = p /\
                   s_old st' ++ s_cur st' = (s_old st ++ s_cur st) ++ l /\
                   NoDup (s_old st' ++ s_cur st')) /\
  (forall m, mstep m MReset = (ONone, Some (mkM (reset_locals (m_h m)) (m_sites m) (m_orc m)))).
Proof. split; [exact scope_outlives_iterations|exact reset_keeps_sites]. Qed.
Print Assumptions C10_scope_outlives_iterations.

(* non-vacuity: four just_once targets, one persistent parent row (token 1), two unique picks
   per iteration at one call site: the third iteration is refused (ids 1..4 are used up), and
   the second iteration never returns a row of the first *)
Example C10_scope_ex :
  fst (mrun (mkM (rh_init [] [("A", "A")]) [] [0; 0; 0; 0; 0; 0; 0; 0])
    [MSave "A" None 1; MSave "A" None 2; MSave "A" None 3; MSave "A" None 4;
     MURef 1 1 "A" false; MURef 1 1 "A" false; MReset;
     MURef 1 1 "A" false; MURef 1 1 "A" false; MReset;
     MURef 1 1 "A" false])
  = [ONone; ONone; ONone; ONone; ORefd "A" 1; ORefd "A" 2; ONone; ORefd "A" 3; ORefd "A" 4; ONone;
     OErr (DGE "no-unused-target")].
Proof. vm_compute. reflexivity. Qed.

(* `parent:` naming a plain VALUE (round 5).  field_vars().get(parent) may be an object row or any value the recipe
   computes (a field of the row being built, a hidden field, a variable), and the stored parent is compared with
   `!=`: the parent token p of the model stands for the class of EQUAL parent values - two evaluations whose
   parents are equal values carried by different Python objects have the same token.  (1) a call site evaluated
   under a parent equal to the stored one continues its entry as it is (with C10_scope_outlives_iterations: for as
   long as the value lasts, over any other operations; with C10_call_site_step: never a number twice); (2) after a
   unique reference under parent p' the entry belongs to p': a different parent p evaluated next starts from
   nothing - also when p was this site's parent before (a parent value that comes back opens a new scope). *)
Theorem C10_scope_is_keyed_by_parent_value :
  (forall ss s p st, lookupN s ss = Some st -> s_parent st = p -> site_get ss s p = st) /\
  (forall h ss orc s p' name glob r ss' orc' p,
     mstep_uref h ss orc s p' name glob = Ok (r, ss', orc') -> p <> p' ->
     site_get ss' s p = mkSite p None [] []).
Proof. exact scope_keyed_by_parent_value. Qed.
Print Assumptions C10_scope_is_keyed_by_parent_value.

(* non-vacuity: two targets; one call site evaluated for rows whose parent is the VALUE 1000, 1000, 1001, 1001,
   1000, 1000, 1000: each run of equal values gets both targets once, the value 1000 coming back starts a new
   scope, and the third evaluation under it is refused *)
Example C10_parent_value_ex :
  fst (mrun (mkM (rh_init [] [("A", "A")]) [] [0; 0; 0; 0; 0; 0; 0; 0; 0; 0; 0; 0])
    [MSave "A" None 1; MSave "A" None 2;
     MURef 1 1000 "A" false; MURef 1 1000 "A" false; MURef 1 1001 "A" false; MURef 1 1001 "A" false;
     MURef 1 1000 "A" false; MURef 1 1000 "A" false; MURef 1 1000 "A" false])
  = [ONone; ONone; ORefd "A" 1; ORefd "A" 2; ORefd "A" 1; ORefd "A" 2; ORefd "A" 1; ORefd "A" 2;
     OErr (DGE "no-unused-target")].
Proof. vm_compute. reflexivity. Qed.

(* numbers and rows: by table name the row id is the number drawn; by nickname two different
   numbers never name the same row as long as the history holds no two rows with the same
   table and id (kept by every save of a fresh id) - so "no number twice" is "no row twice" *)
Theorem C10_distinct_numbers_are_distinct_rows :
  (forall counters names, IdsUnique (rh_init counters names)) /\
  (forall h t n i, IdsUnique h -> (forall r, In r (hrows h) -> h_table r = t -> h_id r <> i) ->
                   IdsUnique (save_row h t n i)) /\
  (forall h, IdsUnique h -> IdsUnique (reset_locals h)) /\
  (forall h n t d1 d2 tbl i, IdsUnique h ->
     resolve_draw h (Some n) t d1 = Ok (tbl, i) -> resolve_draw h (Some n) t d2 = Ok (tbl, i) -> d1 = d2) /\
  (forall h t d1 d2 r, resolve_draw h None t d1 = Ok r -> resolve_draw h None t d2 = Ok r -> d1 = d2).
Proof.
  split; [exact IdsUnique_init|]. split; [exact IdsUnique_save|]. split; [exact IdsUnique_reset|].
  split; [exact nick_numbers_name_distinct_rows|].
  intros h t d1 d2 r H1 H2. cbn [resolve_draw] in H1, H2. congruence.
Qed.
Print Assumptions C10_distinct_numbers_are_distinct_rows.

(* non-vacuity: two call sites on the same three targets each get all three; the next
   iteration moves both to the new rows; a parented site starts afresh under a new parent;
   a fourth draw in one window is refused *)
Example C10_sites_ex :
  fst (mrun (mkM (rh_init [] [("A", "A")]) [] [0; 0; 1; 1; 0; 0; 0; 0; 0; 0; 0; 0])
    [MSave "A" None 1; MSave "A" None 2; MSave "A" None 3;
     MURef 1 0 "A" false; MURef 2 0 "A" false; MURef 1 0 "A" false; MURef 2 0 "A" false;
     MURef 1 0 "A" false; MURef 2 0 "A" false;
     MReset; MSave "A" None 4;
     MURef 1 0 "A" false; MURef 2 0 "A" false;
     MURef 3 7 "A" false; MURef 3 8 "A" false; MURef 3 8 "A" false])
  = [ONone; ONone; ONone;
     ORefd "A" 1; ORefd "A" 2; ORefd "A" 2; ORefd "A" 1; ORefd "A" 3; ORefd "A" 3;
     ONone; ONone;
     ORefd "A" 4; ORefd "A" 4;
     ORefd "A" 4; ORefd "A" 4; OErr (DGE "no-unused-target")].
Proof. vm_compute. reflexivity. Qed.

(* non-vacuity *)
Example C10_ex :
  run_script (rh_init [] [("A", "A"); ("aa", "A")]) None [(0, 0); (1, 0)]
    [HSave "A" None 1; HSave "A" (Some "aa") 2; HSave "A" None 3; HRef "aa" 1; HRef "A" 2;
     HReset; HRef "A" 3; HSave "A" None 4; HRef "A" 4; HURef "A"; HSave "A" None 5; HURef "A"; HURef "A"]
  = [ONone; ONone; ONone; ORefd "A" 2; ORefd "A" 2; ONone; ORefd "A" 3; ONone; ORefd "A" 4;
     ORefd "A" 4; ONone; ORefd "A" 5; OErr (DGE "no-unused-target")].
Proof. vm_compute. reflexivity. Qed.
