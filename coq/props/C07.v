(* C07 — generation stops at the first iteration boundary that meets the target.
   Model: theories/Stopping.v (snowfakery/api.py SnowfakeryApplication.ensure_progress_was_made /
   check_if_finished, data_generator_runtime.py IdManager.start_ids, StoppingCriteria,
   Interpreter.loop_over_templates_until_finished, RuntimeContext.check_if_finished and the
   unknown-stopping-table test of Interpreter.__init__).
   Only statements here; proofs live in proofs/StoppingP.v.

   Reading guide.  [run tables sc cont rs]: one call of generate(); [tables] = tables the recipe
   can create; [sc] = stopping criterion (None = nothing given); [cont] = None for a fresh run,
   Some last0 for a run continued from a state in which the criterion table's last id was last0;
   [rs] = rows of the criterion table created by iteration 1, 2, 3, ... (any finite prefix of the
   run's behaviour; the list length plays the role of fuel, [Exhausted] = prefix used up).
   [Stopped j last]: normal end after exactly j complete iterations, last id = last.
   [Failed j e]: exception e at the end of iteration j (j = 0: before the first iteration).
   [proper_table T]: T is neither "__REPS__" (the repetition marker) nor the empty string.       *)
From Coq Require Import ZArith List.
From SFV Require Import Base Stopping.
From SFV.P Require Import StoppingP.
Import ListNotations. Open Scope Z_scope.

(* Repetition target k >= 1: exactly k iterations, whatever the iterations create (zeros
   included), fresh or continued. *)
Theorem C07_reps_exact :
  forall tables k cont pre x rest,
    1 <= k -> Z.of_nat (length pre) + 1 = k ->
    run tables (Some (mkCrit COUNT_REPS k)) cont (pre ++ x :: rest)
    = Stopped (length pre + 1) (base cont + zsum pre + x).
Proof. exact reps_exact. Qed.
Print Assumptions C07_reps_exact.

(* No target: exactly one iteration. *)
Theorem C07_default_one_iteration :
  forall tables cont x rest,
    run tables None cont (x :: rest) = Stopped 1 (base cont + x).
Proof. exact default_one_iteration. Qed.
Print Assumptions C07_default_one_iteration.

(* Target (T, N): if iterations 1..|pre| each make progress and together create < N rows at every
   boundary, and iteration |pre|+1 brings the total since this run's start to >= N, the run ends
   normally after exactly |pre|+1 whole iterations; the final id is start id + everything those
   iterations created.  Same statement for fresh and continued runs: rows are counted from this
   run's start. *)
Theorem C07_target_stops_at_first_boundary :
  forall T tables N cont pre x rest,
    proper_table T -> In T tables -> 1 <= N -> cont_ok cont ->
    Forall (fun r => 1 <= r) pre ->
    (forall i, (i <= length pre)%nat -> zsum (firstn i pre) < N) ->
    N <= zsum pre + x ->
    run tables (Some (mkCrit T N)) cont (pre ++ x :: rest)
    = Stopped (length pre + 1) (base cont + zsum pre + x).
Proof. exact target_stops_at_first_boundary. Qed.
Print Assumptions C07_target_stops_at_first_boundary.

(* Converse, for EVERY row-count sequence (zeros included) and every N: whenever a run ends
   normally it ended at the first boundary with >= N rows since its start (minimality), after
   whole iterations only (the id state is exactly that of j complete iterations). *)
Theorem C07_target_stop_is_first_boundary :
  forall T tables N cont rs j last,
    proper_table T -> In T tables ->
    run tables (Some (mkCrit T N)) cont rs = Stopped j last ->
    (1 <= j <= length rs)%nat /\
    last = base cont + zsum (firstn j rs) /\
    N <= zsum (firstn j rs) /\
    forall i, (1 <= i < j)%nat -> zsum (firstn i rs) < N.
Proof. exact target_stop_is_first_boundary. Qed.
Print Assumptions C07_target_stop_is_first_boundary.

(* Every iteration creates >= 1 row: the run ends normally, at the first boundary, within N
   iterations (explicit fuel bound: any prefix of length >= N suffices). *)
Theorem C07_target_progress_bound :
  forall T tables N cont rs,
    proper_table T -> In T tables -> 1 <= N -> cont_ok cont ->
    Forall (fun r => 1 <= r) rs -> Z.of_nat (length rs) >= N ->
    exists j, (1 <= j)%nat /\ Z.of_nat j <= N /\
      run tables (Some (mkCrit T N)) cont rs = Stopped j (base cont + zsum (firstn j rs)) /\
      N <= zsum (firstn j rs) /\
      forall i, (1 <= i < j)%nat -> zsum (firstn i rs) < N.
Proof. exact target_progress_bound. Qed.
Print Assumptions C07_target_progress_bound.

(* The same for an infinite behaviour r : nat -> Z, fuel = length of the prefix examined. *)
Theorem C07_target_first_boundary_stream :
  forall T tables N cont (r : nat -> Z) fuel,
    proper_table T -> In T tables -> 1 <= N -> cont_ok cont ->
    (forall j, 1 <= r j) -> Z.of_nat fuel >= N ->
    exists j, (1 <= j)%nat /\ Z.of_nat j <= N /\
      run tables (Some (mkCrit T N)) cont (prefix r fuel)
      = Stopped j (base cont + zsum (prefix r j)) /\
      N <= zsum (prefix r j) /\
      forall i, (1 <= i < j)%nat -> zsum (prefix r i) < N.
Proof. exact target_first_boundary_stream. Qed.
Print Assumptions C07_target_first_boundary_stream.

(* No run with a proper target loops forever, whatever the iterations create (zeros included):
   N iterations of fuel suffice for a fresh run, N + 1 for a continued one. *)
Theorem C07_target_terminates :
  forall T tables N cont rs,
    proper_table T -> In T tables -> 1 <= N -> cont_ok cont ->
    Forall (fun r => 0 <= r) rs ->
    Z.of_nat (length rs) >= N + (match cont with None => 0 | Some _ => 1 end) ->
    forall n, run tables (Some (mkCrit T N)) cont rs <> Exhausted n.
Proof. exact target_terminates. Qed.
Print Assumptions C07_target_terminates.

(* An exception at an iteration boundary is always the RuntimeError of the progress check, is
   raised only after an iteration that created no row of T, and only before the target is met. *)
Theorem C07_target_error_only_without_progress :
  forall T tables N cont rs j e,
    proper_table T -> In T tables -> cont_ok cont -> Forall (fun r => 0 <= r) rs ->
    run tables (Some (mkCrit T N)) cont rs = Failed j e ->
    exists n, j = S n /\ e = runtime_error /\ nth_error rs n = Some 0 /\
              forall i, (1 <= i <= n)%nat -> zsum (firstn i rs) < N.
Proof. exact target_error_only_without_progress. Qed.
Print Assumptions C07_target_error_only_without_progress.

(* Fresh run: the first iteration that creates no row of T (before the target is met) ends the
   run with that error at the end of exactly that iteration. *)
Theorem C07_no_progress_fresh :
  forall T tables N pre rest,
    proper_table T -> In T tables -> 1 <= N ->
    Forall (fun r => 1 <= r) pre ->
    (forall i, (i <= length pre)%nat -> zsum (firstn i pre) < N) ->
    run tables (Some (mkCrit T N)) None (pre ++ 0 :: rest)
    = Failed (length pre + 1) runtime_error.
Proof. exact no_progress_fresh. Qed.
Print Assumptions C07_no_progress_fresh.

(* Full statement for continued runs (the one above with [Some last0] for [None]):

     forall T tables N last0 pre rest, proper_table T -> In T tables -> 1 <= N -> 0 <= last0 ->
       Forall (fun r => 1 <= r) pre -> (forall i, i <= length pre -> zsum (firstn i pre) < N) ->
       run tables (Some (mkCrit T N)) (Some last0) (pre ++ 0 :: rest)
       = Failed (length pre + 1) runtime_error

   is FALSE for the code as it is: SnowfakeryApplication.starting_id starts at 0 instead of at
   the restored id, so a no-progress FIRST iteration of a continued run (last0 > 0) goes
   unnoticed.  Known finding K7.  Refutation: *)
Theorem C07_refuted_first_continued_iteration :
  ~ (forall T tables N last0 pre rest,
       proper_table T -> In T tables -> 1 <= N -> 0 <= last0 ->
       Forall (fun r => 1 <= r) pre ->
       (forall i, (i <= length pre)%nat -> zsum (firstn i pre) < N) ->
       run tables (Some (mkCrit T N)) (Some last0) (pre ++ 0 :: rest)
       = Failed (length pre + 1) runtime_error).
Proof. exact refuted_first_continued_iteration. Qed.
Print Assumptions C07_refuted_first_continued_iteration.

(* What does hold (restriction: the no-progress iteration is not the first one, or last0 = 0):
   after a first iteration r0 (which may itself be a tolerated zero when last0 > 0), the next
   iteration without progress is detected at its own end.  Together with C07_target_terminates:
   at most one no-progress iteration is ever tolerated and the run still cannot loop forever. *)
Theorem C07_no_progress_continued_partial :
  forall T tables N last0 r0 mid rest,
    proper_table T -> In T tables -> 1 <= N -> 0 <= last0 -> 0 <= r0 ->
    (r0 = 0 -> 0 < last0) ->
    Forall (fun r => 1 <= r) mid ->
    (forall i, (i <= length mid)%nat -> r0 + zsum (firstn i mid) < N) ->
    run tables (Some (mkCrit T N)) (Some last0) (r0 :: mid ++ 0 :: rest)
    = Failed (length mid + 2) runtime_error.
Proof. exact no_progress_continued_partial. Qed.
Print Assumptions C07_no_progress_continued_partial.

(* Relative counting: a continued run whose first iteration makes progress behaves exactly like
   a fresh run on the same iterations — same number of iterations, same error if any — with all
   ids translated by last0.  The stop decision does not depend on the continuation's offset. *)
Theorem C07_relative_after_continuation :
  forall T tables N last0 rs,
    proper_table T -> In T tables -> 0 <= last0 ->
    (match rs with [] => True | r0 :: _ => 1 <= r0 \/ last0 = 0 end) ->
    run tables (Some (mkCrit T N)) (Some last0) rs
    = shift_outcome last0 (run tables (Some (mkCrit T N)) None rs).
Proof. exact relative_after_continuation. Qed.
Print Assumptions C07_relative_after_continuation.

(* A target naming a table the recipe cannot create: Snowfakery's own error, at construction,
   before the first iteration (hence before any row), whatever the rest of the input. *)
Theorem C07_unknown_table_rejected :
  forall T tables N cont rs,
    proper_table T -> ~ In T tables ->
    exists kind, run tables (Some (mkCrit T N)) cont rs = Failed 0 (DGE kind).
Proof. exact unknown_table_rejected. Qed.
Print Assumptions C07_unknown_table_rejected.

(* The hypothesis [proper_table] cannot be dropped: the empty table name (which no recipe can
   create) passes the unknown-table test and disables the progress check, because both test the
   truthiness of the name; the run then never ends (for every amount of fuel the model answers
   Exhausted).  Known finding K10. *)
Theorem C07_refuted_empty_table_name_never_ends :
  forall tables N cont n,
    1 <= N ->
    run tables (Some (mkCrit "" N)) cont (repeat 0 n) = Exhausted n.
Proof. exact refuted_empty_table_name_never_ends. Qed.
Print Assumptions C07_refuted_empty_table_name_never_ends.

(* ---- non-vacuity: concrete runs that satisfy the hypotheses ---- *)
Example C07_ex_fresh_target :        (* 2 + 3 < 7 <= 2 + 3 + 2 *)
  run ["M"; "T"]%string (Some (mkCrit "T" 7)) None [2; 3; 2; 5] = Stopped 3 7.
Proof. vm_compute. reflexivity. Qed.

Example C07_ex_continued_target :    (* counted from the continuation: 10 + (2 + 3 + 2) *)
  run ["M"; "T"]%string (Some (mkCrit "T" 7)) (Some 10) [2; 3; 2; 5] = Stopped 3 17.
Proof. vm_compute. reflexivity. Qed.

Example C07_ex_exact_boundary :      (* N reached exactly: not one iteration more *)
  run ["T"]%string (Some (mkCrit "T" 5)) (Some 4) [2; 3; 1] = Stopped 2 9.
Proof. vm_compute. reflexivity. Qed.

Example C07_ex_reps :
  run ["T"]%string (Some (mkCrit COUNT_REPS 3)) (Some 4) [0; 2; 0; 9] = Stopped 3 6.
Proof. vm_compute. reflexivity. Qed.

Example C07_ex_no_progress_fresh :
  run ["T"]%string (Some (mkCrit "T" 9)) None [2; 1; 0; 4] = Failed 3 runtime_error.
Proof. vm_compute. reflexivity. Qed.

Example C07_ex_no_progress_continued_second :
  run ["T"]%string (Some (mkCrit "T" 9)) (Some 3) [0; 0; 4] = Failed 2 runtime_error.
Proof. vm_compute. reflexivity. Qed.

Example C07_ex_K7_witness :          (* first iteration of a continued run creates nothing *)
  run ["T"]%string (Some (mkCrit "T" 2)) (Some 3) [0; 1; 1] = Stopped 3 5.
Proof. vm_compute. reflexivity. Qed.

Example C07_ex_unknown_table :
  run ["M"; "T"]%string (Some (mkCrit "Q" 2)) None [1; 1] = Failed 0 (DGE "DataGenNameError").
Proof. vm_compute. reflexivity. Qed.

Example C07_ex_chain :               (* fresh reps 2, then target (T,4) counted from id 3 *)
  chain ["M"; "T"]%string None [2; 1; 0; 3; 1; 5]
        [(Some (mkCrit COUNT_REPS 2), 10%nat); (Some (mkCrit "T" 4), 10%nat)]
  = [Stopped 2 3; Stopped 3 7].
Proof. vm_compute. reflexivity. Qed.
