(* C07 — generation stops at the first iteration boundary that meets the target.
   Model: theories/Stopping.v (snowfakery/api.py SnowfakeryApplication.ensure_progress_was_made /
   check_if_finished, data_generator_runtime.py IdManager.start_ids, StoppingCriteria,
   Interpreter.loop_over_templates_until_finished, RuntimeContext.check_if_finished and the
   unknown-stopping-table test of Interpreter.__init__).
   Only statements here; proofs live in proofs/StoppingP.v.

   Reading guide.  [run tables sc cont rs]: one call of generate(); [tables] = tables the recipe
   can create; [sc] = stopping criterion (None = nothing given); [cont] = None for a fresh run,
   Some last0 for a run continued from a state in which the criterion table's last id was last0;
   [rs] = rows of the criterion table created by iteration 1, 2, 3, ... (any finite prefix of the
   run's behaviour; the list length plays the role of fuel, [Exhausted] = prefix used up).
   [Stopped j last]: normal end after exactly j complete iterations, last id = last.
   [Failed j e]: exception e at the end of iteration j (j = 0: before the first iteration).
   [proper_table T]: T is not "__REPS__" (the repetition marker; a recipe table literally so
   named would be read as a repetition target — the one corner these theorems exclude).

   History: the code used to violate two clauses (K7: a no-progress first iteration of a
   continued run went unnoticed; K10: the empty table name was never rejected and the run never
   ended).  Both were repaired in /repo (0afda32, d9d462f); the model transcribes the repaired
   code, the former `_refuted` / `_partial` statements are now the full theorems
   C07_no_progress / C07_empty_table_name_rejected, and the old witnesses are regression
   Examples at the end of this file.                                                            *)
From Coq Require Import ZArith List.
From SFV Require Import Base Stopping.
From SFV.P Require Import StoppingP.
Import ListNotations. Open Scope Z_scope.

(* Repetition target k >= 1: exactly k iterations, whatever the iterations create (zeros
   included), fresh or continued. *)
Theorem C07_reps_exact :
  forall tables k cont pre x rest,
    1 <= k -> Z.of_nat (length pre) + 1 = k ->
    run tables (Some (mkCrit COUNT_REPS k)) cont (pre ++ x :: rest)
    = Stopped (length pre + 1) (base cont + zsum pre + x).
Proof. exact reps_exact. Qed.
Print Assumptions C07_reps_exact.

(* No target: exactly one iteration. *)
Theorem C07_default_one_iteration :
  forall tables cont x rest,
    run tables None cont (x :: rest) = Stopped 1 (base cont + x).
Proof. exact default_one_iteration. Qed.
Print Assumptions C07_default_one_iteration.

(* Target (T, N): if iterations 1..|pre| each make progress and together create < N rows at every
   boundary, and iteration |pre|+1 brings the total since this run's start to >= N, the run ends
   normally after exactly |pre|+1 whole iterations; the final id is start id + everything those
   iterations created.  Same statement for fresh and continued runs (any [cont]): rows are
   counted from this run's start. *)
Theorem C07_target_stops_at_first_boundary :
  forall T tables N cont pre x rest,
    proper_table T -> In T tables -> 1 <= N ->
    Forall (fun r => 1 <= r) pre ->
    (forall i, (i <= length pre)%nat -> zsum (firstn i pre) < N) ->
    N <= zsum pre + x ->
    run tables (Some (mkCrit T N)) cont (pre ++ x :: rest)
    = Stopped (length pre + 1) (base cont + zsum pre + x).
Proof. exact target_stops_at_first_boundary. Qed.
Print Assumptions C07_target_stops_at_first_boundary.

(* Converse, for EVERY row-count sequence (zeros included) and every N: whenever a run ends
   normally it ended at the first boundary with >= N rows since its start (minimality), after
   whole iterations only (the id state is exactly that of j complete iterations). *)
Theorem C07_target_stop_is_first_boundary :
  forall T tables N cont rs j last,
    proper_table T -> In T tables ->
    run tables (Some (mkCrit T N)) cont rs = Stopped j last ->
    (1 <= j <= length rs)%nat /\
    last = base cont + zsum (firstn j rs) /\
    N <= zsum (firstn j rs) /\
    forall i, (1 <= i < j)%nat -> zsum (firstn i rs) < N.
Proof. exact target_stop_is_first_boundary. Qed.
Print Assumptions C07_target_stop_is_first_boundary.

(* Every iteration creates >= 1 row: the run ends normally, at the first boundary, within N
   iterations (explicit fuel bound: any prefix of length >= N suffices). *)
Theorem C07_target_progress_bound :
  forall T tables N cont rs,
    proper_table T -> In T tables -> 1 <= N ->
    Forall (fun r => 1 <= r) rs -> Z.of_nat (length rs) >= N ->
    exists j, (1 <= j)%nat /\ Z.of_nat j <= N /\
      run tables (Some (mkCrit T N)) cont rs = Stopped j (base cont + zsum (firstn j rs)) /\
      N <= zsum (firstn j rs) /\
      forall i, (1 <= i < j)%nat -> zsum (firstn i rs) < N.
Proof. exact target_progress_bound. Qed.
Print Assumptions C07_target_progress_bound.

(* The same for an infinite behaviour r : nat -> Z, fuel = length of the prefix examined. *)
Theorem C07_target_first_boundary_stream :
  forall T tables N cont (r : nat -> Z) fuel,
    proper_table T -> In T tables -> 1 <= N ->
    (forall j, 1 <= r j) -> Z.of_nat fuel >= N ->
    exists j, (1 <= j)%nat /\ Z.of_nat j <= N /\
      run tables (Some (mkCrit T N)) cont (prefix r fuel)
      = Stopped j (base cont + zsum (prefix r j)) /\
      N <= zsum (prefix r j) /\
      forall i, (1 <= i < j)%nat -> zsum (prefix r i) < N.
Proof. exact target_first_boundary_stream. Qed.
Print Assumptions C07_target_first_boundary_stream.

(* No run with a target loops forever, whatever the iterations create (zeros included), fresh or
   continued: N iterations of fuel always suffice. *)
Theorem C07_target_terminates :
  forall T tables N cont rs,
    proper_table T -> In T tables -> 1 <= N ->
    Forall (fun r => 0 <= r) rs ->
    Z.of_nat (length rs) >= N ->
    forall n, run tables (Some (mkCrit T N)) cont rs <> Exhausted n.
Proof. exact target_terminates. Qed.
Print Assumptions C07_target_terminates.

(* An exception at an iteration boundary is always the RuntimeError of the progress check, is
   raised only after an iteration that created no row of T, and only before the target is met. *)
Theorem C07_target_error_only_without_progress :
  forall T tables N cont rs j e,
    proper_table T -> In T tables ->
    run tables (Some (mkCrit T N)) cont rs = Failed j e ->
    exists n, j = S n /\ e = runtime_error /\ nth_error rs n = Some 0 /\
              forall i, (1 <= i <= n)%nat -> zsum (firstn i rs) < N.
Proof. exact target_error_only_without_progress. Qed.
Print Assumptions C07_target_error_only_without_progress.

(* Full statement (formerly refuted for continued runs, K7): in every run, fresh or continued,
   the first iteration that creates no row of T before the target is met — also when it is the
   very first iteration of a continued run — ends the run with that error at its own end. *)
Theorem C07_no_progress :
  forall T tables N cont pre rest,
    proper_table T -> In T tables -> 1 <= N ->
    Forall (fun r => 1 <= r) pre ->
    (forall i, (i <= length pre)%nat -> zsum (firstn i pre) < N) ->
    run tables (Some (mkCrit T N)) cont (pre ++ 0 :: rest)
    = Failed (length pre + 1) runtime_error.
Proof. exact no_progress. Qed.
Print Assumptions C07_no_progress.

(* Relative counting: a continued run behaves exactly like a fresh run on the same iterations —
   same number of iterations, same error if any — with all ids translated by last0, for every
   sequence and every offset.  The stop decision does not depend on the continuation's offset. *)
Theorem C07_relative_after_continuation :
  forall T tables N last0 rs,
    proper_table T -> In T tables ->
    run tables (Some (mkCrit T N)) (Some last0) rs
    = shift_outcome last0 (run tables (Some (mkCrit T N)) None rs).
Proof. exact relative_after_continuation. Qed.
Print Assumptions C07_relative_after_continuation.

(* A target naming a table the recipe cannot create: Snowfakery's own error, at construction,
   before the first iteration (hence before any row), whatever the rest of the input. *)
Theorem C07_unknown_table_rejected :
  forall T tables N cont rs,
    proper_table T -> ~ In T tables ->
    exists kind, run tables (Some (mkCrit T N)) cont rs = Failed 0 (DGE kind).
Proof. exact unknown_table_rejected. Qed.
Print Assumptions C07_unknown_table_rejected.

(* In particular the empty table name (formerly K10: never rejected, run never ended). *)
Theorem C07_empty_table_name_rejected :
  forall tables N cont rs,
    ~ In ""%string tables ->
    exists kind, run tables (Some (mkCrit "" N)) cont rs = Failed 0 (DGE kind).
Proof. exact empty_table_name_rejected. Qed.
Print Assumptions C07_empty_table_name_rejected.

(* One application object reused for a run and its continuation (parent_application; its
   starting_id / rep_count are never reset): after a run with criterion (T, N) that ended
   normally at id [last], the object is in a state ... *)
Theorem C07_reused_application_state :
  forall T rs j a m n last,
    proper_table T -> c_table (a_crit a) = T -> 0 <= a_rep_count a ->
    loop rs j a m = Stopped n last ->
    a_crit (final_app rs a m) = a_crit a /\
    a_starting_id (final_app rs a m) = last /\
    1 <= a_rep_count (final_app rs a m).
Proof. intros T rs j a m n last HT. exact (final_app_stopped T rs HT j a m n last). Qed.
Print Assumptions C07_reused_application_state.

(* ... from which it decides the continuation exactly like a new object with that criterion:
   all the theorems above carry over; rows are counted from the continuation's start. *)
Theorem C07_reused_application_same_as_new :
  forall T tables N last0 a rs,
    proper_table T -> a_crit a = mkCrit T N -> a_starting_id a = last0 -> 1 <= a_rep_count a ->
    run_with tables a (Some last0) rs = run tables (Some (mkCrit T N)) (Some last0) rs.
Proof. exact reused_application_same_as_new. Qed.
Print Assumptions C07_reused_application_same_as_new.

(* ---- non-vacuity: concrete runs that satisfy the hypotheses ---- *)
Example C07_ex_reuse :               (* one object, target (T,4), 2 rows per iteration, 3 runs *)
  chain_reuse ["M"; "T"; "E"]%string (new_app (Some (mkCrit "T" 4))) None
              [2; 2; 2; 2; 2; 2; 2; 2] [7%nat; 7%nat; 7%nat]
  = [Stopped 2 4; Stopped 2 8; Stopped 2 12].
Proof. vm_compute. reflexivity. Qed.

Example C07_ex_fresh_target :        (* 2 + 3 < 7 <= 2 + 3 + 2 *)
  run ["M"; "T"]%string (Some (mkCrit "T" 7)) None [2; 3; 2; 5] = Stopped 3 7.
Proof. vm_compute. reflexivity. Qed.

Example C07_ex_continued_target :    (* counted from the continuation: 10 + (2 + 3 + 2) *)
  run ["M"; "T"]%string (Some (mkCrit "T" 7)) (Some 10) [2; 3; 2; 5] = Stopped 3 17.
Proof. vm_compute. reflexivity. Qed.

Example C07_ex_exact_boundary :      (* N reached exactly: not one iteration more *)
  run ["T"]%string (Some (mkCrit "T" 5)) (Some 4) [2; 3; 1] = Stopped 2 9.
Proof. vm_compute. reflexivity. Qed.

Example C07_ex_reps :
  run ["T"]%string (Some (mkCrit COUNT_REPS 3)) (Some 4) [0; 2; 0; 9] = Stopped 3 6.
Proof. vm_compute. reflexivity. Qed.

Example C07_ex_no_progress_fresh :
  run ["T"]%string (Some (mkCrit "T" 9)) None [2; 1; 0; 4] = Failed 3 runtime_error.
Proof. vm_compute. reflexivity. Qed.

Example C07_ex_no_progress_continued_second :
  run ["T"]%string (Some (mkCrit "T" 9)) (Some 3) [1; 0; 4] = Failed 2 runtime_error.
Proof. vm_compute. reflexivity. Qed.

Example C07_ex_unknown_table :
  run ["M"; "T"]%string (Some (mkCrit "Q" 2)) None [1; 1] = Failed 0 (DGE "DataGenNameError").
Proof. vm_compute. reflexivity. Qed.

(* ---- regressions: the witnesses of the repaired defects now satisfy the property ---- *)
Example C07_regression_K7_witness :  (* was Stopped 3 5: the zero first iteration went unnoticed *)
  run ["T"]%string (Some (mkCrit "T" 2)) (Some 3) [0; 1; 1] = Failed 1 runtime_error.
Proof. vm_compute. reflexivity. Qed.

Example C07_regression_K7_chain :    (* fresh reps 1, then target (T,2) from id 2, first iteration 0 *)
  chain ["M"; "T"; "E"]%string None [2; 0; 1; 2; 0; 1]
        [(Some (mkCrit COUNT_REPS 1), 3%nat); (Some (mkCrit "T" 2), 5%nat)]
  = [Stopped 1 2; Failed 1 runtime_error].
Proof. vm_compute. reflexivity. Qed.

Example C07_regression_K10_witness : (* was Exhausted n for every n *)
  run ["M"; "T"; "E"]%string (Some (mkCrit "" 1)) None [0; 0; 0; 0]
  = Failed 0 (DGE "DataGenNameError").
Proof. vm_compute. reflexivity. Qed.

Example C07_regression_K10_arithmetic : (* the application object alone: progress error at once *)
  loop [0; 0; 0; 0] 0 (new_app (Some (mkCrit "" 1))) (init_idm None) = Failed 1 runtime_error.
Proof. vm_compute. reflexivity. Qed.

Example C07_ex_chain :               (* fresh reps 2, then target (T,4) counted from id 3 *)
  chain ["M"; "T"]%string None [2; 1; 3; 1; 5]
        [(Some (mkCrit COUNT_REPS 2), 10%nat); (Some (mkCrit "T" 4), 10%nat)]
  = [Stopped 2 3; Stopped 2 7].
Proof. vm_compute. reflexivity. Qed.

(* ==================================================================================================
   C07 over the SF-core interpreter (theories/StopInterp.v, proofs/StopInterpP.v).

   The theorems above abstract an iteration to "the number of rows of the criterion table it
   creates".  Below that abstraction is discharged: [run_target r sc fuel c] is one call of
   generate() on the recipe r - the loop of data_generator_runtime.py 437-446 running
   Interp.iteration and handing the *id counter* of the criterion table to the application object
   of Stopping.v, as api.py does.  By theorem C01 the counter has advanced, at every iteration
   boundary, by exactly the number of rows of the table delivered to the output (forward
   references reserve ids before their rows exist, so this is not true inside an iteration).
   ================================================================================================== *)
From SFV Require Import Interp StopInterp.
From SFV.P Require Import IdsP RefsP StopInterpP.

(* At every iteration boundary of any run (fresh or continued) of any recipe of the fragment, the
   id counter of a visible table has advanced by exactly the number of its rows this run wrote. *)
Theorem C07_interp_counter_is_row_count :
  forall e stmts c k s0 s T,
    start_ok s0 -> iterations k e stmts c s0 = Ok s -> hidden T = false ->
    Z.of_nat (length (written T (out s))) = last_id s T - last_id s0 T.
Proof. exact counter_is_rows. Qed.
Print Assumptions C07_interp_counter_is_row_count.

(* Fresh run of a recipe with target (T, N): if generate() returns normally, some template of the
   recipe creates T; whole iterations only were executed - the final state is that of the
   repetition run of j >= 1 iterations; this run has delivered >= N rows of T; and after every
   smaller number of whole iterations it had delivered < N (first boundary). *)
Theorem C07_interp_target_fresh :
  forall (r : recipe) T N fuel s j,
    Stopping.proper_table T -> hidden T = false ->
    run_target r (Some (Stopping.mkCrit T N)) fuel None = Ok (s, j) ->
    In T (tables_of (r_stmts r)) /\ (1 <= j)%nat /\ run_fresh r j = Ok s /\
    N <= Z.of_nat (length (written T (out s))) /\
    forall i si, (1 <= i < j)%nat -> run_fresh r i = Ok si ->
                 Z.of_nat (length (written T (out si))) < N.
Proof. exact target_run_fresh. Qed.
Print Assumptions C07_interp_target_fresh.

(* Continued run: rows are counted from this run's start, i.e. from the counter recorded in the
   continuation file it was started from. *)
Theorem C07_interp_target_continued :
  forall (r : recipe) T N fuel c0 s0 s j,
    Stopping.proper_table T -> hidden T = false ->
    (forall U, 0 <= match lookup U (k_ids c0) with Some z => z | None => 0 end) ->
    load (env_of r) c0 = Ok s0 ->
    run_target r (Some (Stopping.mkCrit T N)) fuel (Some c0) = Ok (s, j) ->
    (1 <= j)%nat /\ iterations j (env_of r) (r_stmts r) true s0 = Ok s /\
    N <= Z.of_nat (length (written T (out s))) /\
    N <= last_id s T - last_id s0 T /\
    forall i si, (1 <= i < j)%nat -> iterations i (env_of r) (r_stmts r) true s0 = Ok si ->
                 Z.of_nat (length (written T (out si))) < N.
Proof. exact target_run_continued. Qed.
Print Assumptions C07_interp_target_continued.

(* Hidden criterion tables have no written rows to count; the statement about the counter holds
   for every table. *)
Theorem C07_interp_target_counter :
  forall e stmts c T N fuel mstart s0 s j,
    Stopping.proper_table T -> mstart_ok mstart s0 T ->
    run_until fuel e stmts c (Stopping.new_app (Some (Stopping.mkCrit T N))) mstart s0 0 = Ok (s, j) ->
    (1 <= j)%nat /\ iterations j e stmts c s0 = Ok s /\
    N <= last_id s T - last_id s0 T /\
    forall i si, (1 <= i < j)%nat -> iterations i e stmts c s0 = Ok si ->
                 last_id si T - last_id s0 T < N.
Proof. exact target_first_boundary_counter. Qed.
Print Assumptions C07_interp_target_counter.

(* A target that no template of the recipe creates is rejected before the first iteration. *)
Theorem C07_interp_unknown_target_rejected :
  forall (r : recipe) T N fuel c,
    Stopping.proper_table T -> ~ In T (tables_of (r_stmts r)) ->
    run_target r (Some (Stopping.mkCrit T N)) fuel c = Err (DGE "DataGenNameError").
Proof. exact unknown_target_rejected. Qed.
Print Assumptions C07_interp_unknown_target_rejected.

(* Repetition target k >= 1 / no target: the loop is exactly k / one iteration(s) of the recipe. *)
Theorem C07_interp_reps_exact :
  forall e stmts c k mstart s fuel,
    1 <= k -> (Z.to_nat k <= fuel)%nat ->
    run_until fuel e stmts c (Stopping.new_app (Some (Stopping.mkCrit Stopping.COUNT_REPS k))) mstart s 0 =
    (do s' <- iterations (Z.to_nat k) e stmts c s; Ok (s', Z.to_nat k)).
Proof. exact reps_exact_interp. Qed.
Print Assumptions C07_interp_reps_exact.

Theorem C07_interp_default_one_iteration :
  forall e stmts c mstart s fuel,
    (1 <= fuel)%nat ->
    run_until fuel e stmts c (Stopping.new_app None) mstart s 0 =
    (do s' <- iterations 1 e stmts c s; Ok (s', 1%nat)).
Proof. exact default_one_iteration_interp. Qed.
Print Assumptions C07_interp_default_one_iteration.

(* Every error of a target run is accounted for: the error of one of the recipe's own iterations,
   or the no-progress error at the end of an iteration that completed without advancing the
   table's counter, or the model's fuel. *)
Theorem C07_interp_error_provenance :
  forall T N mstart e stmts,
    Stopping.proper_table T ->
    forall fuel a c s j x,
      Stopping.a_crit a = Stopping.mkCrit T N -> app_inv a mstart s T ->
      run_until fuel e stmts c a mstart s j = Err x ->
      (exists d si, iterations d e stmts c s = Ok si /\ iterations (S d) e stmts c s = Err x) \/
      (x = Stopping.runtime_error /\ exists d si si',
          iterations d e stmts c s = Ok si /\ iterations (S d) e stmts c s = Ok si' /\
          last_id si' T = last_id si T) \/
      (x = OutOfFuel /\ exists si, iterations fuel e stmts c s = Ok si).
Proof. exact run_until_err. Qed.
Print Assumptions C07_interp_error_provenance.

(* ... and the no-progress error IS raised at the first iteration that completes without
   advancing the counter, provided every earlier boundary advanced it and stayed below the
   target (otherwise the run would have ended there). *)
Theorem C07_interp_no_progress :
  forall T N mstart e stmts,
    Stopping.proper_table T ->
    forall d fuel a c s j si si',
      Stopping.a_crit a = Stopping.mkCrit T N -> app_inv a mstart s T ->
      (d < fuel)%nat ->
      iterations d e stmts c s = Ok si -> iterations (S d) e stmts c s = Ok si' ->
      last_id si' T = last_id si T ->
      (forall i sa sb, (i < d)%nat -> iterations i e stmts c s = Ok sa -> iterations (S i) e stmts c s = Ok sb ->
                       last_id sb T <> last_id sa T /\ last_id sb T < startv mstart + N - 1) ->
      run_until fuel e stmts c a mstart s j = Err Stopping.runtime_error.
Proof. exact run_until_no_progress. Qed.
Print Assumptions C07_interp_no_progress.

(* No target run loops forever: N >= 1 iterations of fuel are as good as any larger number,
   and with fuel N the out-of-fuel answer can only come from one of the recipe's iterations. *)
Theorem C07_interp_fuel_N_suffices :
  forall (r : recipe) T N fuel,
    Stopping.proper_table T -> 1 <= N -> (Z.to_nat N <= fuel)%nat ->
    run_target r (Some (Stopping.mkCrit T N)) fuel None =
    run_target r (Some (Stopping.mkCrit T N)) (Z.to_nat N) None.
Proof. exact target_run_fresh_fuel. Qed.
Print Assumptions C07_interp_fuel_N_suffices.

Theorem C07_interp_never_exhausts :
  forall e stmts c T N mstart s0,
    Stopping.proper_table T -> mstart_ok mstart s0 T -> J s0 -> V s0 -> 1 <= N ->
    run_until (Z.to_nat N) e stmts c (Stopping.new_app (Some (Stopping.mkCrit T N))) mstart s0 0 = Err OutOfFuel ->
    exists d si, iterations d e stmts c s0 = Ok si /\ iterations (S d) e stmts c s0 = Err OutOfFuel.
Proof. exact target_never_exhausts. Qed.
Print Assumptions C07_interp_never_exhausts.

(* ---- non-vacuity: a recipe whose B rows forward-reference A (ids of A are reserved before the
   A rows exist), 2 rows of A per iteration ---- *)
Open Scope string_scope.
Definition ex7_recipe : recipe :=
  mkRecipe 3 []
    [SObj (Tpl "B" None None false [("a", FRef "A")] []);
     SObj (Tpl "A" None (Some (FLitInt 2)) false [] [])] [].

Example C07_interp_ex_target :       (* target (A, 3): 2 < 3 <= 4, two whole iterations *)
  match run_target ex7_recipe (Some (Stopping.mkCrit "A" 3)) 3 None with
  | Ok (s, j) => (j, written "A" (out s), written "B" (out s))
  | Err _ => (0%nat, [], [])
  end = (2%nat, [4; 3; 2; 1], [2; 1]).
Proof. vm_compute. reflexivity. Qed.

Example C07_interp_ex_unknown :
  run_target ex7_recipe (Some (Stopping.mkCrit "C" 3)) 3 None = Err (DGE "DataGenNameError").
Proof. vm_compute. reflexivity. Qed.

Example C07_interp_ex_no_progress :  (* count 0: the first iteration creates no A *)
  match run_target (mkRecipe 3 [] [SObj (Tpl "A" None (Some (FLitInt 0)) false [] [])] [])
                   (Some (Stopping.mkCrit "A" 1)) 1 None with
  | Err e => err_eqb e Stopping.runtime_error
  | Ok _ => false
  end = true.
Proof. vm_compute. reflexivity. Qed.

Example C07_interp_ex_session :      (* reps 1, then target (A, 3) counted from the file: ids 3..6 *)
  match session ex7_recipe [1%nat] (Some (Stopping.mkCrit "A" 3)) 3 None with
  | Ok (rows, j) => (j, written "A" rows)
  | Err _ => (0%nat, [])
  end = (2%nat, [3; 4; 5; 6]).
Proof. vm_compute. reflexivity. Qed.
