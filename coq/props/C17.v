(* C17 — datasets are iterated faithfully: in order, cyclically, or exactly once.
   Model: theories/Datasets.v (snowfakery/plugins.py PluginResultIterator, standard_plugins/
   datasets.py, data_generator_runtime_object_model.py for_each / _generate_fields,
   parse_recipe_yaml.py build_update_recipe).  Only statements here; proofs in proofs/DatasetsP.v.
   Records are an arbitrary type R: the model never looks inside a record, so "every column
   intact" is "the same R comes out".  Shuffles are driven by an arbitrary oracle stream. *)
From Coq Require Import ZArith List Permutation.
From SFV Require Import Base Datasets.
From SFV.P Require Import DatasetsP.
Import ListNotations. Open Scope Z_scope.

(* Dataset.iterate: the k-th draw (0-based) of a repeating linear iterator over n > 0 records is
   record k mod n — for every k, every record type, and it uses no randomness. *)
Theorem C17_iterate_mod_n :
  forall (R : Type) (data : list R) (orc : list Z) (k : nat) (nm : option nat),
    data <> [] ->
    exists it l it',
      new_iter R (mkDs data Linear true nm) orc = Ok (it, orc) /\
      draw_seq R k it orc = Ok (l, it', orc) /\
      length l = k /\
      forall j, (j < k)%nat -> nth_error l j = nth_error data (j mod length data).
Proof. exact iterate_mod_n. Qed.
Print Assumptions C17_iterate_mod_n.

(* Dataset.shuffle (and iterate): draws c*n .. c*n+n-1 of a repeating iterator are a permutation
   of the n records, for every cycle c and every oracle stream under which the run succeeds. *)
Theorem C17_shuffle_cycle_perm :
  forall (R : Type) (d : dsref R) (c : nat) orc it orc1 l it' orc',
    d_repeat R d = true -> d_data R d <> [] ->
    new_iter R d orc = Ok (it, orc1) ->
    draw_seq R (c * length (d_data R d) + length (d_data R d)) it orc1 = Ok (l, it', orc') ->
    Permutation (firstn (length (d_data R d)) (skipn (c * length (d_data R d)) l)) (d_data R d).
Proof. exact cycle_perm. Qed.
Print Assumptions C17_shuffle_cycle_perm.

(* ... and such a run never fails except by an unusable oracle (a model artefact: a draw outside
   [0,i] or a stream that is too short); in particular it never reports exhaustion. *)
Theorem C17_repeating_never_fails :
  forall (R : Type) (d : dsref R) orc it orc1 k e,
    d_repeat R d = true -> d_data R d <> [] -> new_iter R d orc = Ok (it, orc1) ->
    draw_seq R k it orc1 = Err e -> e = BadOracle.
Proof. exact repeating_never_fails. Qed.
Print Assumptions C17_repeating_never_fails.

(* random.shuffle as modelled accepts every stream of in-range draws and returns a permutation *)
Theorem C17_shuffle_is_permutation :
  forall (R : Type) (l : list R) orc,
    (good_draws (Nat.pred (length l)) orc -> exists l' orc', shuffle R l orc = Ok (l', orc')) /\
    (forall l' orc', shuffle R l orc = Ok (l', orc') -> Permutation l' l).
Proof. intros R l orc. split; [apply shuffle_total|apply shuffle_perm]. Qed.
Print Assumptions C17_shuffle_is_permutation.

(* Which evaluations share an iterator (plugins.evaluate_memorable_function): the state key of a
   call is its `name` together with the function called when the name is given, else the call
   site.  Two calls have the same key exactly when both are named alike and call the same
   function, or are the same unnamed call site. *)
Theorem C17_memo_key_shared :
  forall (R : Type) s1 (d1 : dsref R) s2 (d2 : dsref R),
    key_of R s1 d1 = key_of R s2 d2 <->
    match d_name R d1, d_name R d2 with
    | Some n1, Some n2 => n1 = n2 /\ d_mode R d1 = d_mode R d2
    | None, None => s1 = s2
    | _, _ => False
    end.
Proof. exact key_of_shared. Qed.
Print Assumptions C17_memo_key_shared.

(* Placement.  Follow one state key `k0` — an unnamed Dataset.iterate call site, or all
   Dataset.iterate calls that share a `name` — (repeat on, n > 0 records) through ANY recipe of the
   modelled language: templates with count / for_each (named or not), any number of other call
   sites and names, nested objects and friends to any depth, any number of iterations, any oracle —
   under two conditions: every call under the key has the arguments named in the theorem
   (plain_list), and no row draws under the key both in its own fields and in its nested objects
   (nest_ok_list: there the order of writing is not the order of consuming; an unnamed call
   site, occurring once, always satisfies it: C17_once_is_nest_ok).  The calls may lie inside or
   below for_each templates (before the repair of ForEachVariableDefinition.evaluate that placement
   was refuted; see the regression examples at the end), and for_each loops over the same name do
   not disturb the sequence.
   Then the records handed out under the key, read off the written rows in order (trace), are
   record 0, 1, .., n-1, 0, 1, ..: the j-th is record j mod n.  Holds for the rows written before an
   error as well (e is unconstrained). *)
Theorem C17_placement_mod_n :
  forall (R C : Type) (col : R -> nat -> option C) (k0 : key) (data : list R) (nm : option nat)
         (iters : nat) (ts : tmpls R) (orc : list Z) (rows : list (row R C)) (e : option err),
    data <> [] ->
    nest_ok_list R k0 ts ->
    plain_list R k0 (mkDs data Linear true nm) false ts ->
    run_recipe R C col iters ts orc = (rows, e) ->
    forall j, (j < length (trace R C k0 rows))%nat ->
      nth_error (trace R C k0 rows) j = nth_error data (j mod length data).
Proof. exact placement_mod_n. Qed.
Print Assumptions C17_placement_mod_n.

(* Placement, repeat: False.  Under the same two conditions, the non-repeating Dataset.iterate
   state of a key hands out, over the whole run (all rows, all iterations, all sharing call sites),
   at most n records, and they are the file's records in file order: no record is ever used twice,
   wherever the consuming templates are placed.  (A run in which more than n rows consume it cannot
   end without error.) *)
Theorem C17_placement_no_reuse :
  forall (R C : Type) (col : R -> nat -> option C) (k0 : key) (data : list R) (nm : option nat)
         (iters : nat) (ts : tmpls R) (orc : list Z) (rows : list (row R C)) (e : option err),
    nest_ok_list R k0 ts ->
    plain_list R k0 (mkDs data Linear false nm) false ts ->
    run_recipe R C col iters ts orc = (rows, e) ->
    trace R C k0 rows = firstn (length (trace R C k0 rows)) data /\
    (length (trace R C k0 rows) <= length data)%nat.
Proof. exact placement_norepeat. Qed.
Print Assumptions C17_placement_no_reuse.

(* a key that occurs at most once in the recipe text (every unnamed call site) is well placed *)
Theorem C17_once_is_nest_ok :
  forall (R : Type) (k0 : key) (ts : tmpls R), (occ_list R k0 ts <= 1)%nat -> nest_ok_list R k0 ts.
Proof. intros R k0. exact (proj2 (occ_le1_nest_ok R k0)). Qed.
Print Assumptions C17_once_is_nest_ok.

(* for_each and `name`: a for_each over a named dataset is the for_each over the same dataset
   without the name — same rows, same state afterwards — at every evaluation (any iteration, any
   parent row, whatever is remembered under that name, whatever the context flag).  With
   C17_for_each_general: every evaluation writes one row per record, in order, and stops. *)
Theorem C17_for_each_ignores_name :
  forall (R C : Type) (col : R -> nat -> option C) tid (data : list R) m rp nm
         (sites : list (nat * dsref R)) pass nested friends rc (s : st R C),
    gen_rows R C col (Tmpl tid (LForEach (mkDs data m rp nm)) sites pass nested friends) rc s =
    gen_rows R C col (Tmpl tid (LForEach (mkDs data m rp None)) sites pass nested friends) rc s.
Proof. exact for_each_name_irrelevant. Qed.
Print Assumptions C17_for_each_ignores_name.

(* ... and such a loop (any part of a recipe without a field call under the key; for_each loops
   over the same name are not field calls) leaves the iterator remembered under the key as it was:
   a consumer elsewhere continues where it stood. *)
Theorem C17_loops_leave_named_state :
  forall (R C : Type) (col : R -> nat -> option C) (k0 : key) (t : tmpl R) rc (s : st R C),
    occ R k0 t = O ->
    match gen_rows R C col t rc s with
    | ROk _ _ _ _ s' => lookup R k0 (s_sites R C s') = lookup R k0 (s_sites R C s)
    | RErr _ _ _ _ _ => True
    end.
Proof. exact untouched_state. Qed.
Print Assumptions C17_loops_leave_named_state.

(* for_each: a template whose loop is for_each over dataset d writes exactly one row per record of
   one pass over d — in file order for iterate (no randomness used), a permutation for shuffle —
   with child_index 0..n-1, and then stops; zero records give zero rows.  Whatever the `repeat`
   keyword says and whatever the enclosing context is (rc). *)
Theorem C17_for_each_exact :
  forall (R C : Type) (col : R -> nat -> option C) tid (d : dsref R) pass (p : R -> list C)
         rc sites orc out it orc1,
    new_iter R d orc = Ok (it, orc1) ->
    (forall x, In x (d_data R d) -> project R C col (Some x) pass = Ok (p x)) ->
    gen_rows R C col (Tmpl tid (LForEach d) [] pass TNil TNil) rc (mkSt R C sites orc out)
    = ROk R C unit tt (mkSt R C sites orc1 (out ++ fe_rows R C tid p (i_rest R it) 0)) /\
    Permutation (i_rest R it) (d_data R d) /\
    (d_mode R d = Linear -> i_rest R it = d_data R d /\ orc1 = orc).
Proof. exact for_each_exact. Qed.
Print Assumptions C17_for_each_exact.

(* the rows named above: as many as records, the k-th carries the k-th record and child_index k *)
Theorem C17_for_each_rows_shape :
  forall (R C : Type) tid (p : R -> list C) (recs : list R),
    length (fe_rows R C tid p recs 0) = length recs /\
    forall k x, nth_error recs k = Some x ->
      nth_error (fe_rows R C tid p recs 0) k = Some (mkRow tid (Some x) (Z.of_nat k) [] (p x)).
Proof.
  intros. split; [apply fe_rows_length|].
  intros k x H. rewrite (fe_rows_nth R C tid p recs 0 k x H). reflexivity.
Qed.
Print Assumptions C17_for_each_rows_shape.

(* for_each in general: the template may have any Dataset fields, projected columns, nested objects
   and friends (none writing under the same template id), and sit in any context (rc, s).  If it
   completes, the rows it wrote (mine) carry exactly the records of one pass over the dataset
   (i_rest of the freshly started iterator: file order / a permutation, see C17_for_each_exact),
   in order, with child_index 0, 1, ..; if the run fails inside, the rows written so far carry a
   prefix of that list. *)
Theorem C17_for_each_general :
  forall (R C : Type) (col : R -> nat -> option C) (tid : nat) (d : dsref R)
         (sites : list (nat * dsref R)) (pass : list nat) (nested friends : tmpls R)
         (rc : bool) (s : st R C),
    tid_free_list R tid nested -> tid_free_list R tid friends ->
    match gen_rows R C col (Tmpl tid (LForEach d) sites pass nested friends) rc s with
    | ROk _ _ _ _ s' =>
      exists it orc1 ex, new_iter R d (s_orc R C s) = Ok (it, orc1) /\
        s_out R C s' = s_out R C s ++ ex /\
        map (fe_key R C) (mine R C tid ex) = keys R (i_rest R it) 0
    | RErr _ _ _ _ o =>
      (exists e0, new_iter R d (s_orc R C s) = Err e0 /\ o = s_out R C s) \/
      (exists it orc1 ex, new_iter R d (s_orc R C s) = Ok (it, orc1) /\
        o = s_out R C s ++ ex /\
        prefix (map (fe_key R C) (mine R C tid ex)) (keys R (i_rest R it) 0))
    end.
Proof. exact for_each_general. Qed.
Print Assumptions C17_for_each_general.

(* keys recs 0 = [(Some r0, 0); (Some r1, 1); ...] *)
Theorem C17_for_each_keys_shape :
  forall (R : Type) (recs : list R),
    length (keys R recs 0) = length recs /\
    forall k x, nth_error recs k = Some x -> nth_error (keys R recs 0) k = Some (Some x, Z.of_nat k).
Proof.
  intros. split; [apply keys_length|].
  intros k x H. rewrite (keys_nth R recs 0 k x H). reflexivity.
Qed.
Print Assumptions C17_for_each_keys_shape.

(* the iterator protocol behind it: zip(iterator, count()) over an iterator whose repeat flag was
   turned off delivers the rest of the pass in order and stops *)
Theorem C17_for_each_drains_once :
  forall (R : Type) (rest : list R) (d : dsref R) orc fuel,
    (length rest < fuel)%nat ->
    zip_drain R fuel (mkIter R d false rest) orc = Ok (rest, orc).
Proof. exact zip_drain_norepeat. Qed.
Print Assumptions C17_for_each_drains_once.

(* update mode: one row per input record, in input order, pass-through columns taken from that
   record; empty input gives no rows; a template with `count` is rejected *)
Theorem C17_update_exact :
  forall (R C : Type) (col : R -> nat -> option C) tid lp (own : list nat) (input : list R)
         (passthrough : list nat) (p : R -> list C) orc,
    (forall m, lp <> LCount m) ->
    (forall x, In x input -> project R C col (Some x) (own ++ passthrough) = Ok (p x)) ->
    run_update R C col (TCons (Tmpl tid lp [] own TNil TNil) TNil) input passthrough orc
    = (fe_rows R C tid p input 0, None).
Proof. exact update_exact. Qed.
Print Assumptions C17_update_exact.

(* a non-repeating dataset hands out its n records once (file order when linear); request n+1 and
   every later request is a DataGenError, never a record *)
Theorem C17_no_silent_reuse :
  forall (R : Type) (d : dsref R) orc it orc1,
    d_repeat R d = false ->
    new_iter R d orc = Ok (it, orc1) ->
    Permutation (i_rest R it) (d_data R d) /\
    (d_mode R d = Linear -> i_rest R it = d_data R d) /\
    (exists it', draw_seq R (length (d_data R d)) it orc1 = Ok (i_rest R it, it', orc1) /\
       forall j, exists e, is_dge e /\ draw_seq R (S j) it' orc1 = Err e) /\
    forall j, exists e, is_dge e /\ draw_seq R (length (d_data R d) + S j) it orc1 = Err e.
Proof. exact no_silent_reuse. Qed.
Print Assumptions C17_no_silent_reuse.

(* an empty dataset: the first request is a DataGenError, with or without repeat *)
Theorem C17_empty_dataset_error :
  forall (R : Type) (d : dsref R) orc,
    d_data R d = [] ->
    exists it, new_iter R d orc = Ok (it, orc) /\ exists e, is_dge e /\ field_draw R it orc = Err e.
Proof. exact empty_dataset_error. Qed.
Print Assumptions C17_empty_dataset_error.

(* ---- regression for the repaired finding "Dataset.iterate/shuffle below a for_each restarted at
   every evaluation" (KNOWN_FINDINGS, fixed).  Formerly C17_refuted_below_for_each: the friend T1
   below the for_each template T2 received record 10 twice and `repeat: False` never raised.
   Now the call site keeps its iterator: 10, then 20, and a third request is an error. *)
Definition below_for_each_witness : tmpls Z :=
  TCons (Tmpl 2%nat (LForEach (mkDs [1; 2] Linear true None)) [] [] TNil
              (TCons (Tmpl 1%nat (LCount 1%nat) [(1%nat, mkDs [10; 20] Linear false None)] [] TNil TNil) TNil))
        TNil.

Example C17_ex_below_for_each_repaired :
  exists rows,
    run_recipe Z Z (fun _ _ => None) 1%nat below_for_each_witness [] = (rows, None) /\
    map (r_cons Z Z) (filter (fun r => Nat.eqb (r_tid r) 1%nat) rows)
    = [[(KSite 1%nat, 10)]; [(KSite 1%nat, 20)]].
Proof. eexists. split; vm_compute; reflexivity. Qed.

Example C17_ex_below_for_each_overrun :
  exists rows e,
    run_recipe Z Z (fun _ _ => None) 2%nat below_for_each_witness [] = (rows, Some (DGE e)) /\
    map (r_cons Z Z) (filter (fun r => Nat.eqb (r_tid r) 1%nat) rows)
    = [[(KSite 1%nat, 10)]; [(KSite 1%nat, 20)]].
Proof. eexists. eexists. split; vm_compute; reflexivity. Qed.

(* the witness satisfies the hypotheses of C17_placement_no_reuse: the theorem covers it *)
Example C17_ex_below_for_each_hyps :
  nest_ok_list Z (KSite 1%nat) below_for_each_witness /\
  plain_list Z (KSite 1%nat) (mkDs [10; 20] Linear false None) false below_for_each_witness.
Proof. vm_compute. intuition (try discriminate; auto). Qed.

(* ---- non-vacuity: concrete runs ---- *)
Example C17_ex_iterate_wraps :
  run_recipe Z Z (fun _ _ => None) 2%nat
    (TCons (Tmpl 1%nat (LCount 2%nat) [(1%nat, mkDs [10; 20; 30] Linear true None)] [] TNil TNil) TNil) []
  = ([mkRow 1%nat None 0 [(KSite 1%nat, 10)] []; mkRow 1%nat None 1 [(KSite 1%nat, 20)] [];
      mkRow 1%nat None 0 [(KSite 1%nat, 30)] []; mkRow 1%nat None 1 [(KSite 1%nat, 10)] []], None).
Proof. vm_compute. reflexivity. Qed.

(* a recipe that satisfies the hypotheses of C17_placement_mod_n: the call site 1 sits in a nested
   object of a friend, next to another call site and a for_each template; 2 iterations *)
Definition placement_witness : tmpls Z :=
  TCons (Tmpl 3%nat (LCount 2%nat) [(7%nat, mkDs [5] Linear true None)] []
              TNil
              (TCons (Tmpl 2%nat LDefault [] []
                           (TCons (Tmpl 1%nat (LCount 2%nat) [(1%nat, mkDs [10; 20; 30] Linear true None)] [] TNil TNil) TNil)
                           TNil) TNil))
        (TCons (Tmpl 4%nat (LForEach (mkDs [8; 9] Linear true None)) [] [] TNil TNil) TNil).

Example C17_ex_placement_hyps :
  nest_ok_list Z (KSite 1%nat) placement_witness /\ plain_list Z (KSite 1%nat) (mkDs [10; 20; 30] Linear true None) false placement_witness.
Proof. vm_compute. intuition (try discriminate; auto). Qed.

Example C17_ex_placement_trace :
  trace Z Z (KSite 1%nat) (fst (run_recipe Z Z (fun _ _ => None) 2%nat placement_witness []))
  = [10; 20; 30; 10; 20; 30; 10; 20].
Proof. vm_compute. reflexivity. Qed.

Example C17_ex_shuffle_two_cycles :
  run_recipe Z Z (fun _ _ => None) 1%nat
    (TCons (Tmpl 1%nat (LCount 6%nat) [(1%nat, mkDs [10; 20; 30] Shuffled true None)] [] TNil TNil) TNil)
    [0; 1; 2; 0]
  = ([mkRow 1%nat None 0 [(KSite 1%nat, 30)] []; mkRow 1%nat None 1 [(KSite 1%nat, 20)] [];
      mkRow 1%nat None 2 [(KSite 1%nat, 10)] []; mkRow 1%nat None 3 [(KSite 1%nat, 20)] [];
      mkRow 1%nat None 4 [(KSite 1%nat, 10)] []; mkRow 1%nat None 5 [(KSite 1%nat, 30)] []], None).
Proof. vm_compute. reflexivity. Qed.

Example C17_ex_norepeat_overrun :
  run_recipe Z Z (fun _ _ => None) 1%nat
    (TCons (Tmpl 1%nat (LCount 3%nat) [(1%nat, mkDs [10; 20] Linear false None)] [] TNil TNil) TNil) []
  = ([mkRow 1%nat None 0 [(KSite 1%nat, 10)] []; mkRow 1%nat None 1 [(KSite 1%nat, 20)] []],
     Some (DGE "Could not generate enough values to create rows")).
Proof. vm_compute. reflexivity. Qed.

Example C17_ex_update :
  run_update (list Z) Z (fun r i => nth_error r i)
    (TCons (Tmpl 1%nat LDefault [] [] TNil TNil) TNil) [[7; 70]; [9; 90]] [1%nat] []
  = ([mkRow 1%nat (Some [7; 70]) 0 [] [70]; mkRow 1%nat (Some [9; 90]) 1 [] [90]], None).
Proof. vm_compute. reflexivity. Qed.

(* ---- named datasets: two call sites (a template and its friend) share `name: 7`, a for_each
   template loops over the same name, 2 iterations.  The shared state hands out 10, 20, 30, 10, ..
   across both sites in the order the rows are written; the for_each writes its 3 rows in every
   iteration (this is the shape of a change that made the for_each use the remembered iterator:
   4, 0, 0 rows instead of 4, 4, 4). *)
Definition named_witness : tmpls Z :=
  TCons (Tmpl 1%nat (LCount 2%nat) [(1%nat, mkDs [10; 20; 30] Linear true (Some 7%nat))] [] TNil
              (TCons (Tmpl 2%nat LDefault [(2%nat, mkDs [10; 20; 30] Linear true (Some 7%nat))] [] TNil TNil) TNil))
        (TCons (Tmpl 3%nat (LForEach (mkDs [10; 20; 30] Linear true (Some 7%nat))) [] [] TNil TNil) TNil).

Example C17_ex_named_hyps :
  nest_ok_list Z (KName Linear 7%nat) named_witness /\
  plain_list Z (KName Linear 7%nat) (mkDs [10; 20; 30] Linear true (Some 7%nat)) false named_witness.
Proof. vm_compute. intuition (try discriminate; auto). Qed.

Example C17_ex_named_trace :
  let rows := fst (run_recipe Z Z (fun _ _ => None) 2%nat named_witness []) in
  trace Z Z (KName Linear 7%nat) rows = [10; 20; 30; 10; 20; 30; 10; 20] /\
  map (fun r => (r_fe Z Z r, r_index Z Z r)) (filter (fun r => Nat.eqb (r_tid r) 3%nat) rows)
  = [(Some 10, 0); (Some 20, 1); (Some 30, 2); (Some 10, 0); (Some 20, 1); (Some 30, 2)].
Proof. vm_compute. split; reflexivity. Qed.

(* iterate and shuffle under the same name are different states *)
Example C17_ex_name_per_function :
  key_of Z 1%nat (mkDs [10] Linear true (Some 7%nat)) <> key_of Z 2%nat (mkDs [10] Shuffled true (Some 7%nat)).
Proof. vm_compute. discriminate. Qed.

(* ---- the CSV record reader (csv.reader / csv.DictReader over the file as Snowfakery opens it;
   model: eolize, csv_step, csv_run, dict_reader in theories/Datasets.v) ---- *)

(* Reading back what was written.  For every list of rows — a row has any number of cells (none: a
   blank line), a cell is any sequence of code points, written bare or between double quotes with
   inner quotes doubled; a cell containing a comma, a quote, CR or LF, and an empty cell that is
   alone in its row, must be quoted (row_ok / cells_ok); cells are not longer than
   csv.field_size_limit() — with each row ended by LF or CRLF, an optional last row without
   terminator, and an optional byte order mark: csv.reader returns exactly those rows. *)
Theorem C17_csv_roundtrip :
  forall (bom : bool) (rows : list wrow) (last : option (list wcell)),
    forallb row_ok rows = true ->
    match last with Some cs => cs <> [] /\ cells_ok cs = true | None => True end ->
    bom_ok bom (write_rows rows ++ match last with Some cs => write_cells cs | None => [] end) = true ->
    csv_rows (write_file bom rows last)
    = Ok (map (fun r => row_texts (w_cells r)) rows ++
          match last with Some cs => [row_texts cs] | None => [] end).
Proof. exact csv_roundtrip. Qed.
Print Assumptions C17_csv_roundtrip.

(* ... and the records of the dataset: with a header row and no row longer than the header, the
   records delivered are the non-blank rows after the header, in file order, every cell intact,
   short rows filled up with None. *)
Theorem C17_csv_records_roundtrip :
  forall (bom : bool) (header : wrow) (rows : list wrow) (last : option (list wcell)),
    forallb row_ok (header :: rows) = true ->
    match last with Some cs => cs <> [] /\ cells_ok cs = true | None => True end ->
    bom_ok bom (write_rows (header :: rows) ++ match last with Some cs => write_cells cs | None => [] end) = true ->
    let body := map (fun r => row_texts (w_cells r)) rows ++
                match last with Some cs => [row_texts cs] | None => [] end in
    Forall (fun r => (length r <= length (w_cells header))%nat) body ->
    csv_records (write_file bom (header :: rows) last)
    = Ok (Some (row_texts (w_cells header)),
          map (pad_row (length (w_cells header))) (filter (fun r => negb (is_blank r)) body)).
Proof. exact csv_records_roundtrip. Qed.
Print Assumptions C17_csv_records_roundtrip.

(* non-vacuity: a file with a byte order mark, header a,b; a quoted cell with CR, CRLF, a comma and
   a doubled quote inside; a blank line; a short row; a quoted empty cell alone; last row without
   terminator *)
Definition csv_witness_rows : list wrow :=
  [mkWRow [mkCell [97] false; mkCell [98] true] true;
   mkWRow [mkCell [120; 13; 121; 13; 10; 44; 34; 122] true; mkCell [] false] false;
   mkWRow [] true;
   mkWRow [mkCell [233] false] false;
   mkWRow [mkCell [] true] true].
Definition csv_witness_last : option (list wcell) := Some [mkCell [51] false; mkCell [65279] false].

Example C17_ex_csv_hyps :
  forallb row_ok csv_witness_rows = true /\
  (match csv_witness_last with Some cs => cs <> [] /\ cells_ok cs = true | None => True end) /\
  bom_ok true (write_rows csv_witness_rows ++ match csv_witness_last with Some cs => write_cells cs | None => [] end) = true.
Proof. vm_compute. split; [reflexivity|]. split; [split; [discriminate|reflexivity]|reflexivity]. Qed.

Example C17_ex_csv_text :
  write_file true csv_witness_rows csv_witness_last
  = [65279; 97; 44; 34; 98; 34; 13; 10;
     34; 120; 13; 121; 13; 10; 44; 34; 34; 122; 34; 44; 10;
     13; 10;
     233; 10;
     34; 34; 13; 10;
     51; 44; 65279].
Proof. vm_compute. reflexivity. Qed.

Example C17_ex_csv_records :
  csv_records (write_file true csv_witness_rows csv_witness_last)
  = Ok (Some [[97]; [98]],
        [[Some [120; 13; 121; 13; 10; 44; 34; 122]; Some []];
         [Some [233]; None];
         [Some []; None];
         [Some [51]; Some [65279]]]).
Proof. vm_compute. reflexivity. Qed.

(* the reader outside what a writer produces: quotes inside a bare cell are kept, text after a
   closing quote is appended, an unterminated quoted cell is returned at the end of the file, a lone
   CR ends a line *)
Example C17_ex_csv_lenient :
  csv_rows [97; 34; 98; 44; 34; 99; 34; 100; 13; 120; 10; 34; 101; 102]
  = Ok [[[97; 34; 98]; [99; 100]]; [[120]]; [[101; 102]]].
Proof. vm_compute. reflexivity. Qed.

(* ---- arguments rendered per row (`dataset: words_${{lang}}.csv`, `table: ${{...}}`).
   evaluate_memorable_function keeps the state of an unnamed call per call site AND rendered
   arguments ([args_run]).  For every run — any number of call sites and argument tuples, their
   evaluations interleaved in any way — in which the rendered arguments determine the dataset
   ([dsof]) and the datasets named are non-empty, read by Dataset.iterate with repeat on: the run
   does not fail, and its i-th evaluation receives record (j mod n) of the dataset ITS arguments
   name, j = the number of earlier evaluations of the same call site with the same arguments —
   never a record of a dataset that some other row named. *)
Theorem C17_args_key_mod_n :
  forall (R : Type) (dsof : nat -> nat -> dsref R) (calls : list (acall R)) (orc : list Z),
    (forall c, In c calls ->
       c_ds R c = dsof (c_site R c) (c_args R c) /\
       d_mode R (c_ds R c) = Linear /\ d_repeat R (c_ds R c) = true /\ d_data R (c_ds R c) <> []) ->
    exists xs, args_run R calls [] orc = (xs, None) /\ length xs = length calls /\
      forall i c, nth_error calls i = Some c ->
        nth_error xs i = nth_error (d_data R (c_ds R c))
                                   (prior R (c_key R c) (firstn i calls) mod length (d_data R (c_ds R c))).
Proof. exact args_key_mod_n. Qed.
Print Assumptions C17_args_key_mod_n.

(* non-vacuity: one call site alternating between an English (n = 3) and a French (n = 2) file,
   and a second call site on the French file *)
Definition args_en : dsref Z := mkDs [1; 2; 3] Linear true None.
Definition args_fr : dsref Z := mkDs [10; 20] Linear true None.
Definition args_witness : list (acall Z) :=
  [mkCall 1%nat 0%nat args_en; mkCall 1%nat 1%nat args_fr; mkCall 1%nat 0%nat args_en;
   mkCall 2%nat 1%nat args_fr; mkCall 1%nat 1%nat args_fr; mkCall 1%nat 0%nat args_en;
   mkCall 1%nat 1%nat args_fr; mkCall 1%nat 0%nat args_en].

Example C17_ex_args_trace :
  args_run Z args_witness [] [] = ([1; 10; 2; 10; 20; 3; 10; 1], None).
Proof. vm_compute. reflexivity. Qed.

Example C17_ex_args_hyps :
  forall c, In c args_witness ->
    c_ds Z c = (fun _ a => if Nat.eqb a 0 then args_en else args_fr) (c_site Z c) (c_args Z c) /\
    d_mode Z (c_ds Z c) = Linear /\ d_repeat Z (c_ds Z c) = true /\ d_data Z (c_ds Z c) <> [].
Proof.
  intros c H. cbn [args_witness In] in H.
  repeat (destruct H as [H|H]; [subst c; vm_compute; repeat split; discriminate|]). contradiction.
Qed.

(* a non-repeating dataset named by some of the rows is used up by THOSE rows only: the third row
   that names the French file fails, whatever the rows naming the English file did in between *)
Example C17_ex_args_norepeat :
  args_run Z [mkCall 1%nat 1%nat (mkDs [10; 20] Linear false None); mkCall 1%nat 0%nat args_en;
              mkCall 1%nat 1%nat (mkDs [10; 20] Linear false None); mkCall 1%nat 0%nat args_en;
              mkCall 1%nat 1%nat (mkDs [10; 20] Linear false None)] [] []
  = ([10; 1; 20; 2], Some (DGE "Could not generate enough values to create rows")).
Proof. vm_compute. reflexivity. Qed.

(* ------------------------------------------------------------------ round 5 *)

(* "every column intact".  A consuming row sees its record through Snowfakery's case-insensitive
   dictionary (store keyed by fold(name), fold = str.lower in /repo; the model takes ANY folding).
   When the column names of the dataset are pairwise different under the folding, the record shows
   exactly the columns of the row — names as written, values, order — and looking a column up under
   any spelling that folds like its name gives that column's value. *)
Theorem C17_columns_intact :
  forall (V : Type) (fold : name -> name) (l : list (name * V)),
    NoDup (map fold (map fst l)) ->
    cid_items (record_of fold l) = l /\
    forall k v k', In (k, v) l -> fold k' = fold k -> record_get fold (record_of fold l) k' = Some v.
Proof. exact record_columns_intact. Qed.
Print Assumptions C17_columns_intact.

(* ... and only then: if two column names fold alike they are ONE key and the record has fewer
   columns than the row (so a folding that identifies more names than str.lower loses columns that
   are intact today: Strasse / Stra(sharp s)e under str.casefold). *)
Theorem C17_columns_twins_collapse :
  forall (V : Type) (fold : name -> name) (l : list (name * V)),
    ~ NoDup (map fold (map fst l)) -> (length (cid_items (record_of fold l)) < length l)%nat.
Proof. exact record_twins_lose_a_column. Qed.
Print Assumptions C17_columns_twins_collapse.

(* non-vacuity: header Nr, Stra(223)e, Strasse.  Under a folding that keeps 223 the three columns
   arrive; under one that turns 223 into "ss" the record shows two columns and the name
   Stra(223)e answers with the value of column Strasse. *)
Definition nm_nr : name := [78; 114].
Definition nm_sz : name := [83; 116; 114; 97; 223; 101].
Definition nm_ss : name := [83; 116; 114; 97; 115; 115; 101].
Definition fold_id : name -> name := fun s => s.
Definition fold_ss : name -> name := flat_map (fun z => if z =? 223 then [115; 115] else [z]).
Definition row_w : list (name * Z) := [(nm_nr, 1); (nm_sz, 2); (nm_ss, 3)].

Example C17_ex_columns_intact :
  cid_items (record_of fold_id row_w) = row_w /\ record_get fold_id (record_of fold_id row_w) nm_sz = Some 2.
Proof. vm_compute. split; reflexivity. Qed.

Example C17_ex_columns_collapse :
  cid_items (record_of fold_ss row_w) = [(nm_nr, 1); (nm_ss, 3)] /\
  record_get fold_ss (record_of fold_ss row_w) nm_sz = Some 3.
Proof. vm_compute. split; reflexivity. Qed.

(* Macros.  `include: m` parses the macro again for every including template: the call sites the
   inclusion brings along are the macro's, renumbered for this inclusion (in front of the
   template's own) ... *)
Theorem C17_include_macro_call_sites :
  forall (R : Type) k (m : macro R) (t : tmpl R) s,
    In s (tmpl_sids R (include_macro R k m t)) <->
    In s (map (Nat.add k) (macro_sids R m)) \/ In s (tmpl_sids R t).
Proof. exact include_macro_sids. Qed.
Print Assumptions C17_include_macro_call_sites.

(* ... two inclusions have no call site in common (local numbers below B, inclusions numbered from
   i*B and j*B) ... *)
Theorem C17_inclusions_own_call_sites :
  forall (R : Type) (m : macro R) (B i j : nat),
    (forall s, In s (macro_sids R m) -> (s < B)%nat) -> i <> j ->
    forall s, In s (map (Nat.add (i * B)) (macro_sids R m)) ->
              ~ In s (map (Nat.add (j * B)) (macro_sids R m)).
Proof. exact inclusions_own_call_sites. Qed.
Print Assumptions C17_inclusions_own_call_sites.

(* ... hence the same Dataset call reached through two inclusions (two different call sites) has two
   state keys — each including template is a consumer of its own, to which the per-key theorems
   above (C17_placement_mod_n, C17_placement_no_reuse) apply — unless the call is named. *)
Theorem C17_inclusions_keys :
  forall (R : Type) (d : dsref R) (a b : nat),
    a <> b -> (key_of R a d = key_of R b d <-> d_name R d <> None).
Proof. exact inclusions_keys. Qed.
Print Assumptions C17_inclusions_keys.

(* non-vacuity: macro `address` (one Dataset.iterate field, local call site 1) included by Customer
   and Supplier: call sites 101 and 201 *)
Definition ex_macro : macro Z := mkMacro [(1%nat, mkDs [10; 20; 30] Linear true None)] TNil TNil.
Example C17_ex_inclusions :
  tmpl_sids Z (include_macro Z 100 ex_macro (Tmpl 1%nat (LCount 2) [] [] TNil TNil)) = [101%nat] /\
  tmpl_sids Z (include_macro Z 200 ex_macro (Tmpl 2%nat (LCount 2) [] [] TNil TNil)) = [201%nat].
Proof. vm_compute. split; reflexivity. Qed.
