(* C02 — no dangling references: every emitted reference resolves to an emitted row.
   Model: theories/Interp.v.  Proofs: proofs/RefsP.v (on top of proofs/IdsP.v, C01).      *)
From Coq Require Import ZArith List Permutation.
From SFV Require Import Base RandRange RowHistory Interp.
From SFV.P Require Import InterpP IdsP RefsP ContP.
Import ListNotations. Open Scope Z_scope. Open Scope string_scope.

(* Fresh run of any recipe of the fragment, any number k of iterations that completes: every
   reference (T, i) written to the output, T visible, is the (table, id) of a row of the same
   output.  Applied to k = 1, 2, ... it says the target is written no later than the end of
   the iteration that wrote the reference. *)
Theorem C02_no_dangling :
  forall (r : recipe) (k : nat) (s : st),
    run_fresh r k = Ok s ->
    forall row n T i, In row (out s) -> In (n, ORef T i) (snd row) -> hidden T = false ->
      exists row', In row' (out s) /\ fst row' = T /\ orow_id row' = [i].
Proof. exact no_dangling_fresh. Qed.
Print Assumptions C02_no_dangling.

(* One run from any admissible start state (in particular a continued run): a written
   reference names an id issued before the run started, or a row written by this run. *)
Theorem C02_no_dangling_run :
  forall e stmts c k s0 s,
    start_ok s0 -> Bd s0 -> V s0 -> iterations k e stmts c s0 = Ok s ->
    forall row n T i, In row (out s) -> In (n, ORef T i) (snd row) -> hidden T = false ->
      (1 <= i <= last_id s0 T) \/ exists row', In row' (out s) /\ fst row' = T /\ orow_id row' = [i].
Proof. exact no_dangling_run. Qed.
Print Assumptions C02_no_dangling_run.

Theorem C02_no_dangling_continued :
  forall r k s c s',
    Bd s -> V s -> save s = Ok c ->
    run_one r k (Some c) = Ok s' ->
    forall row n T i, In row (out s') -> In (n, ORef T i) (snd row) -> hidden T = false ->
      (1 <= i <= last_id s T) \/ exists row', In row' (out s') /\ fst row' = T /\ orow_id row' = [i].
Proof. exact no_dangling_continued. Qed.
Print Assumptions C02_no_dangling_continued.

(* Any chain of continuation runs of a fresh dataset: every reference written anywhere in the
   history, to a visible table, is the (table, id) of a row written by the same run or by an
   earlier run of the chain ("or was written by an earlier iteration or continuation run"). *)
Theorem C02_no_dangling_history :
  forall (r : recipe) (ks : list nat) (rowss : list (list orow)),
    run_history r ks None = Ok rowss ->
    forall row n T i, In row (concat rowss) -> In (n, ORef T i) (snd row) -> hidden T = false ->
      resolves_in (concat rowss) T i.
Proof. exact no_dangling_history. Qed.
Print Assumptions C02_no_dangling_history.

(* every id held by a row, a forward-reference slot or an already written reference has been
   issued by the table's counter — preserved by every task of the evaluator *)
Theorem C02_ids_issued_invariant :
  forall fuel e tk s s' r, run fuel e tk s = Ok (s', r) -> J s -> V s ->
    J s' /\ mono s s' /\ V s' /\ val_ok s' (ret_value r).
Proof. exact run_J. Qed.
Print Assumptions C02_ids_issued_invariant.

(* random_reference only ever hands out issued ids: the row history stays within the id
   counters (hist_ok, part of V), for targets by table name and by nickname, every draw *)
Theorem C02_random_reference_issued :
  forall e target s s' v, random_reference e target s = Ok (s', v) -> V s -> V s' /\ val_ok s' v.
Proof. exact random_reference_V. Qed.
Print Assumptions C02_random_reference_issued.

(* a forward reference whose target is never created makes the run fail *)
Theorem C02_unfulfilled_fails :
  forall e stmts c s s1 r,
    run fuel0 e (TStmts stmts c) s = Ok (s1, r) -> slots_filled s1 = false ->
    iteration e stmts c s = Err (DGE "references-not-fulfilled").
Proof. exact unfulfilled_forward_reference_fails. Qed.
Print Assumptions C02_unfulfilled_fails.

(* non-vacuity: forward reference by table name and by nickname, dotted path through a
   reference field, reference to a friend's parent; and an unfulfilled forward reference *)
Example C02_ex :
  run_rows (mkRecipe 3 []
    [SObj (Tpl "A" None (Some (FLitInt 2)) false [("b", FRef "B"); ("c", FRef "cc")]
             [SObj (Tpl "D" None None false [("p", FRef "A"); ("pb", FRef "A.b")] [])]);
     SObj (Tpl "B" None None false [] []);
     SObj (Tpl "C" (Some "cc") None false [] [])] []) 1
  = Ok [("A", [("id", OInt 1); ("b", ORef "B" 1); ("c", ORef "C" 1)]);
        ("D", [("id", OInt 1); ("p", ORef "A" 1); ("pb", ORef "B" 1)]);
        ("A", [("id", OInt 2); ("b", ORef "B" 1); ("c", ORef "C" 1)]);
        ("D", [("id", OInt 2); ("p", ORef "A" 2); ("pb", ORef "B" 1)]);
        ("B", [("id", OInt 1)]); ("C", [("id", OInt 1)])].
Proof. vm_compute. reflexivity. Qed.

Example C02_ex_unfulfilled :
  run_rows (mkRecipe 3 []
    [SObj (Tpl "A" None None false [("b", FRef "B")] []);
     SObj (Tpl "B" None (Some (FLitInt 0)) false [] [])] []) 1
  = Err (DGE "references-not-fulfilled").
Proof. vm_compute. reflexivity. Qed.

(* random references by table name and by nickname (a nickname of a friend template), two
   iterations, draws 1,0,0,0: every target is a row of the same output *)
Example C02_ex_random :
  run_rows (mkRecipe 3 []
    [SObj (Tpl "A" None (Some (FLitInt 2)) false [] [SObj (Tpl "K" (Some "kid") None false [] [])]);
     SObj (Tpl "P" None None false [("r", FRandRef "A"); ("q", FRandRef "kid")] [])] [1; 0; 0; 0]) 2
  = Ok [("A", [("id", OInt 1)]); ("K", [("id", OInt 1)]); ("A", [("id", OInt 2)]); ("K", [("id", OInt 2)]);
        ("P", [("id", OInt 1); ("r", ORef "A" 2); ("q", ORef "K" 1)]);
        ("A", [("id", OInt 3)]); ("K", [("id", OInt 3)]); ("A", [("id", OInt 4)]); ("K", [("id", OInt 4)]);
        ("P", [("id", OInt 2); ("r", ORef "A" 3); ("q", ORef "K" 3)])].
Proof. vm_compute. reflexivity. Qed.

(* Under a row-count target: the run equals a repetition run (C07_interp_target_fresh), hence no
   reference it writes dangles. *)
From SFV Require Import StopInterp.
From SFV Require Stopping.
From SFV.P Require Import StopInterpP.
Theorem C02_no_dangling_target :
  forall (r : recipe) T N fuel s j,
    Stopping.proper_table T -> hidden T = false ->
    run_target r (Some (Stopping.mkCrit T N)) fuel None = Ok (s, j) ->
    forall row n U i, In row (out s) -> In (n, ORef U i) (snd row) -> hidden U = false ->
      exists row', In row' (out s) /\ fst row' = U /\ orow_id row' = [i].
Proof. exact no_dangling_target. Qed.
Print Assumptions C02_no_dangling_target.
