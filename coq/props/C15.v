(* C15 — Schedule.Event emits exactly the occurrences of the recurrence it describes.
   Model: theories/Schedule.v (snowfakery/standard_plugins/Schedule.py, whole file).
   Only statements here; proofs live in proofs/ScheduleP.v.

   The claim is PARTIAL.  The recurrence engine (dateutil.rrule, third party) is not verified:
   that it yields the RFC 5545 occurrences of the arguments it is given is the named hypothesis
   [engine_is_rfc5545] of C15_event_emits_exactly_partial.  What is proved, for all argument
   values, is Snowfakery's own part: which engine keyword receives which recipe keyword and in
   which normal form, the date / datetime precision rule, the flattening of include / exclude,
   the error cases, and that rows are the engine's output (no omission, addition or reordering).

   The zone defects K15a, K15b, K15c, K15e (include/exclude dates and `until` relabelled UTC, a
   datetime `until` losing its time, naive include/exclude datetimes) are repaired in /repo; the
   model is the repaired code, their former _refuted lemmas are regression Examples below, and
   C15_date_leaf_in_start_zone / C15_until_normal_forms / C15_leaf_dates_aware now hold for every
   zone.  Still NOT provable for the code as it is (KNOWN_FINDINGS K15d, _refuted lemma below):
   "a date-precision start yields dates also under for_each".                               *)
From Coq Require Import ZArith List Bool String Sorted.
From SFV Require Import Base Schedule.
From SFV.P Require Import ScheduleP.
Import ListNotations. Open Scope Z_scope. Open Scope string_scope.

(* "Each parameter restricts only the dimension it names": every engine keyword receives the
   normalisation of the recipe keyword of the same name, for all argument values. *)
Theorem C15_wiring_faithful : forall P now a r p sp,
  wire P now a = Ok (r, p, sp) ->
  exists fq,
    s_freq a = Some fq /\
    norm_freq fq p = Ok (r_freq r) /\
    norm_start P now (dflt ANone (s_start_date a)) = Ok (r_dtstart r, p) /\
    r_interval r = to_scalar (dflt (AInt 1) (s_interval a)) /\
    r_count r = to_scalar (dflt ANone (s_count a)) /\
    norm_until P (r_dtstart r) (dflt ANone (s_until a)) = Ok (r_until r) /\
    ints (dflt ANone (s_bysetpos a)) = Ok (r_bysetpos r) /\
    ints (dflt ANone (s_bymonth a)) = Ok (r_bymonth r) /\
    ints (dflt ANone (s_bymonthday a)) = Ok (r_bymonthday r) /\
    ints (dflt ANone (s_byyearday a)) = Ok (r_byyearday r) /\
    ints (dflt ANone (s_byeaster a)) = Ok (r_byeaster r) /\
    ints (dflt ANone (s_byweekno a)) = Ok (r_byweekno r) /\
    weekdays (dflt ANone (s_byweekday a)) = Ok (r_byweekday r) /\
    ints (dflt ANone (s_byhour a)) = Ok (r_byhour r) /\
    ints (dflt ANone (s_byminute a)) = Ok (r_byminute r) /\
    ints (dflt ANone (s_bysecond a)) = Ok (r_bysecond r) /\
    r_wkst r = Some SU /\
    r_cache r = to_scalar (dflt (ABool false) (s_cache a)).
Proof. exact wiring_faithful. Qed.
Print Assumptions C15_wiring_faithful.

(* A keyword that is not given leaves the engine keyword of the same name unset, whatever the
   other keywords are (excludes the repaired defect F1: bysecond also set byweekno). *)
Theorem C15_absent_keyword_absent_in_engine : forall P now a r p sp,
  wire P now a = Ok (r, p, sp) ->
  (s_bysetpos a = None -> r_bysetpos r = None) /\
  (s_bymonth a = None -> r_bymonth r = None) /\
  (s_bymonthday a = None -> r_bymonthday r = None) /\
  (s_byyearday a = None -> r_byyearday r = None) /\
  (s_byeaster a = None -> r_byeaster r = None) /\
  (s_byweekno a = None -> r_byweekno r = None) /\
  (s_byweekday a = None -> r_byweekday r = None) /\
  (s_byhour a = None -> r_byhour r = None) /\
  (s_byminute a = None -> r_byminute r = None) /\
  (s_bysecond a = None -> r_bysecond r = None) /\
  (s_until a = None -> r_until r = None) /\
  (s_count a = None -> r_count r = SNone) /\
  (s_interval a = None -> r_interval r = SInt 1).
Proof. exact absent_keyword_absent_in_engine. Qed.
Print Assumptions C15_absent_keyword_absent_in_engine.

(* Changing only the recipe's bysecond changes only the engine's bysecond. *)
Theorem C15_bysecond_restricts_only_seconds : forall P now a v r p sp r' p' sp',
  wire P now a = Ok (r, p, sp) ->
  wire P now (with_bysecond v a) = Ok (r', p', sp') ->
  r' = with_r_bysecond (r_bysecond r') r /\ p' = p /\ sp' = sp.
Proof. exact bysecond_restricts_only_seconds. Qed.
Print Assumptions C15_bysecond_restricts_only_seconds.

(* Schedule.Functions.Event hands every keyword to CalendarRule under the same name. *)
Theorem C15_event_passthrough : forall via kw a,
  to_sched_args via kw = Ok a ->
  s_freq a = assoc "freq" kw /\ s_start_date a = assoc "start_date" kw /\
  s_interval a = assoc "interval" kw /\ s_count a = assoc "count" kw /\
  s_until a = assoc "until" kw /\ s_bysetpos a = assoc "bysetpos" kw /\
  s_bymonth a = assoc "bymonth" kw /\ s_bymonthday a = assoc "bymonthday" kw /\
  s_byyearday a = assoc "byyearday" kw /\ s_byeaster a = assoc "byeaster" kw /\
  s_byweekno a = assoc "byweekno" kw /\ s_byweekday a = assoc "byweekday" kw /\
  s_byhour a = assoc "byhour" kw /\ s_byminute a = assoc "byminute" kw /\
  s_bysecond a = assoc "bysecond" kw /\ s_cache a = assoc "cache" kw /\
  s_exclude a = assoc "exclude" kw /\ s_include a = assoc "include" kw.
Proof. exact event_passthrough. Qed.
Print Assumptions C15_event_passthrough.

(* Precision: dates exactly for a date-like start (a date, or a string without any of " TZ+:");
   hourly / minutely / secondly rules always have datetime precision; next() projects to the
   local date for date precision and returns the engine's datetime unchanged otherwise. *)
Theorem C15_precision_rule : forall P now a r p sp,
  wire P now a = Ok (r, p, sp) ->
  (p = PDate <-> is_date_like (dflt ANone (s_start_date a)) = true) /\
  (is_time_freq (r_freq r) = true -> p = PDateTime) /\
  (forall x, emit_next p x = match p with PDate => VDate (d_days x) | PDateTime => VDateTime x end).
Proof. exact precision_rule. Qed.
Print Assumptions C15_precision_rule.

(* include / exclude: the engine calls are those of the leaves of the nested lists, in order
   (equality of results — in particular equal as multisets, and the same first error). *)
Theorem C15_special_cases_flatten : forall P start mr md a,
  specials P start mr md a = mapM (leaf_call P start mr md) (flatten a).
Proof. exact specials_flatten. Qed.
Print Assumptions C15_special_cases_flatten.

(* exclude is processed before include, with exrule/exdate resp. rrule/rdate; falsy values are skipped *)
Theorem C15_special_cases_in_wire : forall P now a r p sp,
  wire P now a = Ok (r, p, sp) ->
  exists ex inc,
    sp = (ex ++ inc)%list /\
    (if truthy (dflt ANone (s_exclude a))
     then mapM (leaf_call P (r_dtstart r) MExRule MExDate) (flatten (dflt ANone (s_exclude a)))
     else Ok []) = Ok ex /\
    (if truthy (dflt ANone (s_include a))
     then mapM (leaf_call P (r_dtstart r) MRRule MRDate) (flatten (dflt ANone (s_include a)))
     else Ok []) = Ok inc.
Proof. exact specials_in_wire. Qed.
Print Assumptions C15_special_cases_in_wire.

(* what each kind of leaf becomes: a nested rule's rule set, a datetime (naive = UTC), a date (or
   a date string) at the start's time of day in the start's zone *)
Theorem C15_leaf_calls : forall P start mr md,
  (forall rs, leaf_call P start mr md (ARule rs) = Ok (CSet mr rs)) /\
  (forall t, leaf_call P start mr md (ADateTime t) = Ok (CDate md (ensure_tz t))) /\
  (forall d, leaf_call P start mr md (ADate d) = Ok (CDate md (mkDT d (d_us start) (d_tz start)))) /\
  (forall s t, P s = Ok t ->
               leaf_call P start mr md (AStr s) = Ok (CDate md (mkDT (d_days t) (d_us start) (d_tz start)))) /\
  (forall a, match a with ARule _ | ADateTime _ | ADate _ | AStr _ | ASeq _ _ => False | _ => True end ->
             leaf_call P start mr md a = Err (Internal "TypeError")).
Proof. exact leaf_calls. Qed.
Print Assumptions C15_leaf_calls.

(* For EVERY zone: a date leaf differs from the start only in the day — it is the instant of the
   occurrence of that day at the start's wall time (a whole number of days after the start). *)
Theorem C15_date_leaf_in_start_zone : forall P start mr md d,
  leaf_call P start mr md (ADate d) = Ok (CDate md (mkDT d (d_us start) (d_tz start))) /\
  forall off, instant off (mkDT d (d_us start) (d_tz start)) - instant off start
              = (d - d_days start) * US_PER_DAY.
Proof. exact date_leaf_in_start_zone. Qed.
Print Assumptions C15_date_leaf_in_start_zone.

(* no naive value reaches rdate / exdate *)
Theorem C15_leaf_dates_aware : forall P start mr md a m x,
  d_tz start <> None ->
  leaf_call P start mr md a = Ok (CDate m x) -> d_tz x <> None.
Proof. exact leaf_dates_aware. Qed.
Print Assumptions C15_leaf_dates_aware.

(* until: a date (or date string) is that day at the start's wall time in the start's zone; a
   datetime or datetime string is the instant it denotes (naive = UTC); nothing is relabelled *)
Theorem C15_until_normal_forms : forall P start,
  (forall a, truthy a = false -> norm_until P start a = Ok None) /\
  (forall d, norm_until P start (ADate d) = Ok (Some (ensure_tz (mkDT d (d_us start) (d_tz start))))) /\
  (forall t, norm_until P start (ADateTime t) = Ok (Some (ensure_tz t))) /\
  (forall s t, s <> EmptyString -> is_datetime s = true -> parse_dts P s = Ok t ->
               norm_until P start (AStr s) = Ok (Some t)) /\
  (forall s t, s <> EmptyString -> is_datetime s = false -> P s = Ok t ->
               norm_until P start (AStr s) = Ok (Some (ensure_tz (mkDT (d_days t) (d_us start) (d_tz start))))).
Proof. exact until_normal_forms. Qed.
Print Assumptions C15_until_normal_forms.

Theorem C15_until_keeps_aware_datetime : forall P start t off,
  d_tz t = Some off -> norm_until P start (ADateTime t) = Ok (Some t).
Proof. exact until_keeps_aware_datetime. Qed.
Print Assumptions C15_until_keeps_aware_datetime.

(* error cases *)
Theorem C15_undocumented_rejected : forall P now a fq,
  s_freq a = Some fq ->
  truthy (dflt (ABool false) (s_uuf a)) = false ->
  (truthy (dflt ANone (s_bysetpos a)) || truthy (dflt ANone (s_byeaster a))
   || truthy (dflt (ABool false) (s_cache a)) || truthy (dflt ANone (s_byweekno a))) = true ->
  wire P now a = Err (DGE "").
Proof. exact undocumented_rejected. Qed.
Print Assumptions C15_undocumented_rejected.

Theorem C15_time_freq_needs_datetime : forall P now a,
  is_date_like (dflt ANone (s_start_date a)) = true ->
  (exists s f, s_freq a = Some (AStr s) /\ freq_of (upper s) = Some f /\ is_time_freq f = true) ->
  is_ok (wire P now a) = false.
Proof. exact time_freq_needs_datetime. Qed.
Print Assumptions C15_time_freq_needs_datetime.

(* interval 0 / None / "" / False is rejected instead of being handed to the engine (which would
   never advance: /repo b708aa9) *)
Theorem C15_falsy_interval_rejected : forall P now a,
  truthy (dflt (AInt 1) (s_interval a)) = false -> is_ok (wire P now a) = false.
Proof. exact falsy_interval_rejected. Qed.
Print Assumptions C15_falsy_interval_rejected.

Theorem C15_bad_frequency_rejected : forall P now a fq,
  s_freq a = Some fq ->
  (forall p, norm_freq fq p = Err (DGE "")) ->
  is_ok (wire P now a) = false.
Proof. exact bad_frequency_rejected. Qed.
Print Assumptions C15_bad_frequency_rejected.

(* rows of a template with `count: n`: the first n values the engine yields, projected by the
   precision; if the engine yields fewer the run fails and nothing else is substituted *)
Theorem C15_rows_count_exact : forall p n stream,
  ((n <= List.length stream)%nat ->
     rows p (MCount n) stream = Ok (map (emit_next p) (firstn n stream))) /\
  ((List.length stream < n)%nat -> rows p (MCount n) stream = Err (DGE "")).
Proof. exact rows_count_exact. Qed.
Print Assumptions C15_rows_count_exact.

(* for_each: one row per element the engine yields, in order, then stop *)
Theorem C15_for_each_exact : forall p stream,
  rows p MForEach stream = Ok (map VDateTime stream) /\
  List.length (map VDateTime stream) = List.length stream.
Proof. exact for_each_exact. Qed.
Print Assumptions C15_for_each_exact.

(* chronological datetimes sharing one zone offset have non-decreasing local dates *)
Theorem C15_dates_chronological : forall off l,
  Forall (fun x => 0 <= d_us x < US_PER_DAY) l ->
  StronglySorted (fun x y => instant off x <= instant off y) l ->
  StronglySorted (fun x y => d_days x <= d_days y) l.
Proof. exact dates_sorted. Qed.
Print Assumptions C15_dates_chronological.

(* the function the correspondence check executes is [wire] on the evaluated keywords *)
Theorem C15_run_sound : forall via memo P now kw m stream rs vs,
  run via memo P now kw m stream = Ok (rs, vs) ->
  exists kw' a r p sp,
    eval_kw via memo P now kw = Ok kw' /\
    to_sched_args via kw' = Ok a /\
    wire P now a = Ok (r, p, sp) /\
    rs = ruleset_of a r sp /\
    rows p m stream = Ok vs.
Proof. exact run_sound. Qed.
Print Assumptions C15_run_sound.

(* The property itself, relative to the engine: if dateutil yields the RFC 5545 recurrence of
   the calls made on it (hypothesis, not proved), the n rows of a template are exactly its
   first n occurrences, in chronological order, projected by the precision — where the calls
   are those of C15_wiring_faithful / C15_special_cases_in_wire. *)
Theorem C15_event_emits_exactly_partial :
  forall (engine rfc5545 : ruleset -> list dt),
  (forall rs, engine rs = rfc5545 rs) ->                                   (* engine_is_rfc5545 *)
  (forall rs off, StronglySorted (fun x y => instant off x <= instant off y) (rfc5545 rs)) ->
  forall via memo P now kw n rs vs,
    run via memo P now kw (MCount n) (engine rs) = Ok (rs, vs) ->
    exists kw' a r p sp,
      eval_kw via memo P now kw = Ok kw' /\ to_sched_args via kw' = Ok a /\
      wire P now a = Ok (r, p, sp) /\ rs = ruleset_of a r sp /\
      (n <= List.length (rfc5545 rs))%nat /\
      vs = map (emit_next p) (firstn n (rfc5545 rs)) /\
      forall off, StronglySorted (fun x y => instant off x <= instant off y) (firstn n (rfc5545 rs)).
Proof. exact event_emits_exactly. Qed.
Print Assumptions C15_event_emits_exactly_partial.

Theorem C15_for_each_emits_exactly_partial :
  forall (engine rfc5545 : ruleset -> list dt),
  (forall rs, engine rs = rfc5545 rs) ->
  forall via memo P now kw rs vs,
    run via memo P now kw MForEach (engine rs) = Ok (rs, vs) ->
    vs = map VDateTime (rfc5545 rs) /\ List.length vs = List.length (rfc5545 rs).
Proof. exact for_each_emits_exactly. Qed.
Print Assumptions C15_for_each_emits_exactly_partial.

(* ================================================================ the recurrence engine, modelled *)
(* Within the fragment  freq in YEARLY..DAILY, interval, count, until, bymonth, bymonthday, byyearday,
   byweekday (with ordinals), byhour/byminute/bysecond as times of the day, rule sets of one zone
   (Schedule.v, [rs_occ]; outside it [rs_occ] answers None)  the hypothesis engine_is_rfc5545 is replaced
   by an executable Gallina recurrence [rr_occ] / [rs_occ], proved below to be ordered, duplicate-free
   and exactly the filtered set, and compared with dateutil's output on every generated case of the
   fragment ([engine_ok] inside the correspondence check).  What remains assumed inside the fragment is
   only that this per-run comparison (as good as its generators) covers dateutil's behaviour.          *)

(* the calendar conversion is a bijection between ordinals and valid civil dates *)
Theorem C15_civil_roundtrip :
  (forall n y m d, civil_from_days n = (y, m, d) ->
     1 <= m <= 12 /\ 1 <= d <= month_len y m /\ days_from_civil y m d = n) /\
  (forall y m d, 1 <= m <= 12 -> 1 <= d <= month_len y m ->
     civil_from_days (days_from_civil y m d) = (y, m, d)).
Proof.
  split.
  - intros n y m d H. destruct (civil_of_days n y m d H) as (A & B & C & _). auto.
  - exact days_of_civil.
Qed.
Print Assumptions C15_civil_roundtrip.

(* every rule the model accepts is well-formed: interval >= 1, times of the day valid and increasing *)
Theorem C15_rule_wellformed : forall r q, normalize r = Some q -> rule_ok q.
Proof. exact normalize_ok. Qed.
Print Assumptions C15_rule_wellformed.

(* the days the interval grid selects: some period k >= 0 of the rule <-> the declarative alignment
   (yearly: every interval-th year from the start's; monthly: every interval-th month; weekly: every
   interval-th week counted from the week (starting on wkst) that contains the start; daily) *)
Theorem C15_interval_grid : forall q n, 1 <= q_interval q ->
  (aligned q n <-> exists k, 0 <= k /\ plo q k <= n < phi q k).
Proof. exact aligned_iff. Qed.
Print Assumptions C15_interval_grid.

(* ONE RULE.  [is_occ q s]: s = day * 86400e6 + t * 1e6 for a day of some period k >= 0 that passes every
   filter ([day_ok]: each keyword looks only at its own component of the day), a time t of the rule, not
   before dtstart, not after until.  The model's list is strictly increasing (ordered, no duplicate),
   contains only occurrences, never more than count, and misses an occurrence only if it comes after
   the count-th one or - for a rule without count and until - on or after the horizon. *)
Theorem C15_rrule_exact : forall F H r q l b,
  normalize r = Some q -> rr_occ F H r = Some (l, b) ->
  StronglySorted Z.lt l /\
  (forall s, In s l -> is_occ q s) /\
  (forall c, q_count q = Some c -> Z.of_nat (List.length l) <= Z.max c 0) /\
  (forall s, is_occ q s ->
     In s l \/
     (exists c, q_count q = Some c /\ Z.of_nat (List.length l) = Z.max c 0 /\ forall x, In x l -> x < s) \/
     (b = false /\ H * US_DAY <= s)).
Proof. exact rr_exact. Qed.
Print Assumptions C15_rrule_exact.

(* `until` enters the recurrence only as the instant it denotes: any other representation of the same
   instant (another zone) gives the same rule.  (This is why the value coming out of the memo table of
   parse_datetimespec, whose keys compare equal across zones, is harmless for `until` - and why the
   correspondence check compares `until` as an instant.) *)
Theorem C15_until_only_instant : forall F H r u u',
  d_tz u <> None -> d_tz u' <> None -> inst_us u = inst_us u' ->
  normalize (with_r_until (Some u') r) = normalize (with_r_until (Some u) r) /\
  rr_occ F H (with_r_until (Some u') r) = rr_occ F H (with_r_until (Some u) r).
Proof. intros. split; [apply until_only_instant | apply rr_occ_until_instant]; assumption. Qed.
Print Assumptions C15_until_only_instant.

(* RULE SETS: "united with include and minus exclude".  A rule set is [combine] applied to its parts
   (the main rule and nested sets as rrule / exrule, dates as rdate / exdate); the result is ordered and
   duplicate-free, and a stamp is in it iff an included part yields it (before the horizon unless all
   included parts are complete) and no excluded part does; the excluded parts are evaluated up to a
   horizon beyond every result. *)
Theorem C15_ruleset_unfold : forall F H tz c calls,
  rs_occ F H tz (RS c calls) = combine H (fun H' w => parts_of F tz H' w calls).
Proof. exact rs_occ_unfold. Qed.
Print Assumptions C15_ruleset_unfold.

Theorem C15_ruleset_exact : forall H parts l c,
  combine H parts = Some (l, c) ->
  exists incs excs H',
    parts H true = Some incs /\ parts H' false = Some excs /\ H <= H' /\ c = forallb snd incs /\
    StronglySorted Z.lt l /\
    (forall s, In s l <-> ((exists p, In p incs /\ In s (fst p)) /\ (c = true \/ s < H * US_DAY) /\
                           ~ (exists p, In p excs /\ In s (fst p)))) /\
    (forall s, In s l -> s < H' * US_DAY).
Proof. exact combine_spec. Qed.
Print Assumptions C15_ruleset_exact.

(* what the per-run comparison with dateutil establishes when it passes *)
Theorem C15_engine_check_sound : forall rs stream fin tz l c,
  engine_ok rs stream fin = true ->
  top_tz rs = Some tz -> in_fragment tz rs = true ->
  rs_occ ENGINE_FUEL (max_day 0 stream) tz rs = Some (l, c) ->
  stream = map (dt_of_stamp tz) (firstn (List.length stream) l) /\
  (fin = true -> c = true -> List.length l = List.length stream).
Proof. exact engine_ok_sound. Qed.
Print Assumptions C15_engine_check_sound.

(* The property inside the fragment, without the engine hypothesis: when the run's comparison passed,
   the n rows of a template are the first n values of the model's recurrence set (C15_ruleset_exact /
   C15_rrule_exact say which), projected by the precision. *)
Theorem C15_rows_are_model_recurrence : forall via memo P now kw n stream rs vs tz l c,
  run via memo P now kw (MCount n) stream = Ok (rs, vs) ->
  engine_ok rs stream false = true ->
  top_tz rs = Some tz -> in_fragment tz rs = true ->
  rs_occ ENGINE_FUEL (max_day 0 stream) tz rs = Some (l, c) ->
  exists p, vs = map (emit_next p) (map (dt_of_stamp tz) (firstn n l)) /\ List.length vs = n.
Proof. exact rows_are_model_recurrence. Qed.
Print Assumptions C15_rows_are_model_recurrence.

(* ---------------------------------------------------------------- engine model: non-vacuity *)

Definition mk_rr (freq : Z) (start : dt) (iv : Z) (count : scalar) (until : option dt)
           (bymonth bymonthday : option (list Z)) (byweekday : option (list wday)) : rrule_args :=
  mkRR freq start (SInt iv) (Some SU) count until None bymonth bymonthday None None None byweekday
       None None None (SBool false).

(* 2024-02-29 is ordinal 738945 (a Thursday); 2024-03-01 is 738946 *)
Example C15_ex_calendar :
  civil_from_days 738945 = (2024, 2, 29) /\ days_from_civil 2024 3 1 = 738946 /\ weekday 738945 = 3 /\
  civil_from_days 1 = (1, 1, 1) /\ civil_from_days 730120 = (2000, 1, 1) /\ is_leap 1900 = false.
Proof. vm_compute. repeat split; reflexivity. Qed.

(* monthly on the last Friday, 3 times, from 2024-02-29 10:00 +05:30: Mar 29, Apr 26, May 31 *)
Example C15_ex_last_friday :
  option_map (fun p => (map (dt_of_stamp 19800) (fst p), snd p))
             (rr_occ 100 0 (mk_rr 1 (mkDT 738945 36000000000 (Some 19800)) 1 (SInt 3) None None None
                                  (Some [WD 4 (Some (-1))])))
  = Some ([mkDT 738974 36000000000 (Some 19800); mkDT 739002 36000000000 (Some 19800);
           mkDT 739037 36000000000 (Some 19800)], true).
Proof. vm_compute. reflexivity. Qed.

(* monthly on the 31st skips the short months; every second one; until in another zone *)
Example C15_ex_monthly_31 :
  option_map (fun p => map (fun s => s / US_DAY) (fst p))
             (rr_occ 100 0 (mk_rr 1 (mkDT 738916 0 (Some 0)) 2 SNone (Some (mkDT 739099 0 (Some 3600))) None None None))
  = Some [738916; 738976; 739037; 739098].     (* 2024-01-31, 03-31, 05-31, 07-31 *)
Proof. vm_compute. reflexivity. Qed.

(* the seeded defect of round 3, in the model: the same instant written in two zones is NOT the same
   schedule - monthly from 2024-02-29 20:00 -08:00 and from 2024-03-01 04:00 UTC start at one instant
   and then part; a start must therefore never be replaced by an equal-as-instant value *)
Example C15_ex_start_zone_matters :
  let a := mkDT 738945 72000000000 (Some (-28800)) in
  let b := mkDT 738946 14400000000 (Some 0) in
  inst_us a = inst_us b /\
  option_map (fun p => map (fun s => s + 28800 * 1000000) (fst p)) (rr_occ 100 0 (mk_rr 1 a 1 (SInt 3) None None None None))
  <> option_map (fun p => fst p) (rr_occ 100 0 (mk_rr 1 b 1 (SInt 3) None None None None)).
Proof. split; [vm_compute; reflexivity | vm_compute; discriminate]. Qed.

(* a rule set: daily x 5 from 2024-02-28, minus the leap day, plus 2024-03-10 *)
Example C15_ex_ruleset :
  option_map (fun p => (map (fun s => s / US_DAY) (fst p), snd p))
    (rs_occ 100 0 0 (RS (SBool false)
       [CRule MRRule (mk_rr 3 (mkDT 738944 0 (Some 0)) 1 (SInt 5) None None None None);
        CDate MExDate (mkDT 738945 0 (Some 0)); CDate MRDate (mkDT 738955 0 (Some 0))]))
  = Some ([738944; 738946; 738947; 738948; 738955], true).
Proof. vm_compute. reflexivity. Qed.

Example C15_ex_outside_fragment :
  rr_occ 100 0 (mk_rr 4 (mkDT 738945 0 (Some 0)) 1 (SInt 3) None None None None) = None /\
  rr_occ 100 0 (mk_rr 3 (mkDT 738945 0 None) 1 (SInt 3) None None None None) = None.
Proof. vm_compute. split; reflexivity. Qed.

(* ---------------------------------------------------------------- repaired defects: regression examples *)

Definition no_parser : parser := fun _ => Err BadOracle.
Definition mk_args (freq : string) (start : arg) (until exclude : option arg) : sched_args :=
  mkS (Some (AStr freq)) (Some start) None None until None None None None None None None None None None
      None exclude None None.

(* 2023-03-01 has proleptic ordinal 738580 *)
Definition start_0530 : dt := mkDT 738580 36000000000 (Some 19800).   (* 2023-03-01 10:00:00+05:30 *)

(* K15a (repaired): start 10:00 +05:30, exclude 2023-03-02: the exdate handed to the engine is the
   occurrence 2023-03-02 10:00 +05:30 itself (it used to be 10:00 UTC, another instant) *)
Example C15_exclude_date_zone_regression :
  exists r p,
    wire no_parser (mkDT 0 0 None) (mk_args "daily" (ADateTime start_0530) None (Some (ADate 738581)))
    = Ok (r, p, [CDate MExDate (mkDT 738581 36000000000 (Some 19800))]) /\ r_dtstart r = start_0530.
Proof. eexists. eexists. split; vm_compute; reflexivity. Qed.

(* K15b (repaired): start 10:00 -08:00, until 2023-03-04 (date): until is 2023-03-04 10:00 -08:00,
   the occurrence of that day (it used to be 10:00 UTC, eight hours earlier) *)
Example C15_until_zone_regression :
  exists r p,
    wire no_parser (mkDT 0 0 None)
         (mk_args "daily" (ADateTime (mkDT 738580 36000000000 (Some (-28800)))) (Some (ADate 738583)) None)
    = Ok (r, p, []) /\ r_until r = Some (mkDT 738583 36000000000 (Some (-28800))).
Proof. eexists. eexists. split; vm_compute; reflexivity. Qed.

(* K15c (repaired): until given as the datetime 2023-03-01 13:00 with an hourly rule starting
   10:00: the engine receives 13:00 (it used to receive 10:00) *)
Example C15_until_time_regression :
  exists r p,
    wire no_parser (mkDT 0 0 None)
         (mk_args "hourly" (ADateTime (mkDT 738580 36000000000 None))
                  (Some (ADateTime (mkDT 738580 46800000000 None))) None)
    = Ok (r, p, []) /\ r_until r = Some (mkDT 738580 46800000000 (Some 0)).
Proof. eexists. eexists. split; vm_compute; reflexivity. Qed.

(* K15e (repaired): a naive datetime in include reaches rdate as a UTC value *)
Example C15_naive_include_regression :
  specials no_parser start_0530 MRRule MRDate (ASeq false [ADateTime (mkDT 738581 43200000000 None)])
  = Ok [CDate MRDate (mkDT 738581 43200000000 (Some 0))].
Proof. vm_compute. reflexivity. Qed.

(* ---------------------------------------------------------------- refutation (KNOWN_FINDINGS K15d) *)

(* K15d: under for_each a date-precision rule yields datetimes *)
Theorem C15_for_each_precision_refuted :
  exists a r sp x,
    wire no_parser (mkDT 0 0 None) a = Ok (r, PDate, sp) /\
    rows PDate MForEach [x] = Ok [VDateTime x] /\ rows PDate (MCount 1) [x] = Ok [VDate (d_days x)].
Proof.
  exists (mk_args "weekly" (ADate 739252) None None).
  eexists. eexists. exists (mkDT 739252 0 (Some 0)).
  split; [vm_compute; reflexivity | split; vm_compute; reflexivity].
Qed.
Print Assumptions C15_for_each_precision_refuted.

(* ---------------------------------------------------------------- non-vacuity *)

Definition ex_parser : parser := fun s =>
  if String.eqb s "2023-03-01T10:00:00" then Ok (mkDT 738580 36000000000 None)
  else if String.eqb s "2023-03-05" then Ok (mkDT 738584 0 None) else Err (Internal "ParserError").

Example C15_ex_wire :
  wire ex_parser (mkDT 0 0 None)
       (mkS (Some (AStr "Minutely")) (Some (AStr "2023-03-01T10:00:00")) (Some (AInt 2)) None
            (Some (AStr "2023-03-05")) None None (Some (AStr "1, -1")) None None None
            (Some (AStr "MO(+1), we")) None None (Some (AInt 30)) None
            (Some (ASeq true [ADate 738582; ASeq false [AStr "2023-03-05"]])) None None)
  = Ok (mkRR 5 (mkDT 738580 36000000000 (Some 0)) (SInt 2) (Some SU) SNone
             (Some (mkDT 738584 36000000000 (Some 0)))
             None None (Some [1; -1]) None None None (Some [WD 0 (Some 1); WD 2 None])
             None None (Some [30]) (SBool false),
        PDateTime,
        [CDate MExDate (mkDT 738582 36000000000 (Some 0)); CDate MExDate (mkDT 738584 36000000000 (Some 0))]).
Proof. vm_compute. reflexivity. Qed.

(* the witness of the repaired defect F1 now satisfies the property: no byweekno *)
Example C15_ex_bysecond_30 :
  match wire ex_parser (mkDT 0 0 None)
             (mkS (Some (AStr "minutely")) (Some (AStr "2023-03-01T10:00:00")) None None None None None None
                  None None None None None None (Some (AInt 30)) None None None None) with
  | Ok (r, _, _) => r_bysecond r = Some [30] /\ r_byweekno r = None
  | Err _ => False
  end.
Proof. vm_compute. split; reflexivity. Qed.

Example C15_ex_run :
  run true true ex_parser (mkDT 0 0 None)
      [("freq", ELit (AStr "daily")); ("start_date", ELit (ADate 738580));
       ("include", EEvent [("freq", ELit (AStr "yearly")); ("start_date", ELit (ADate 730120));
                           ("count", ELit (AInt 3))])]
      (MCount 2) [mkDT 730120 0 (Some 0); mkDT 730486 0 (Some 0)]
  = Ok (RS (SBool false)
           [CRule MRRule (mkRR 3 (mkDT 738580 0 (Some 0)) (SInt 1) (Some SU) SNone None None None None None
                               None None None None None None (SBool false));
            CSet MRRule (RS (SBool false)
                            [CRule MRRule (mkRR 0 (mkDT 730120 0 (Some 0)) (SInt 1) (Some SU) (SInt 3) None None
                                                None None None None None None None None None (SBool false))])],
        [VDate 730120; VDate 730486]).
Proof. vm_compute. reflexivity. Qed.

Example C15_ex_errors :
  wire ex_parser (mkDT 0 0 None) (mk_args "Hourly" (ADate 738580) None None) = Err (DGE "") /\
  wire ex_parser (mkDT 0 0 None) (mk_args "BLAH" (ADate 738580) None None) = Err (DGE "") /\
  wire ex_parser (mkDT 0 0 None) (mk_args "daily" (ABool true) None None) = Err (Internal "TypeError") /\
  wire ex_parser (mkDT 0 0 None) (mk_args "daily" (ADate 738580) None (Some (ABool true))) = Err (Internal "TypeError") /\
  wire ex_parser (mkDT 0 0 None)
       (mkS (Some (AStr "daily")) (Some (ADate 738580)) (Some (AInt 0)) None None None None None None None None
            None None None None None None None None) = Err (DGE "").
Proof. vm_compute. repeat split; reflexivity. Qed.
